"""C17 -- shared_future: one result for all copies; the shared state lives exactly as long as needed.

spec/SharedFuture/SharedFuture.tla (finest grain: a step before and after every atomic operation; the
shared_ptr reference count operations happen in the local steps) is checked exhaustively by TLC for a
set of bounded configurations; every dumped state graph is replayed on the real
cocls::shared_future<Counted> by harness/shared_future_replay.cpp (edge cover; capped in quick).
The projection compared after every step contains the use count of the control block, whether the
state has been freed, the live-instance / destruction counters of the stored value, the allocation
balance, the awaiter chain, the stored result, what every awaiter saw and how often it was resumed,
and every thread's pending operation.  Thorough builds the replayer with ASan/UBSan (no weak_ptr
probe there, so a use-after-free of the freed state aborts the replay); quick replays two small
configurations on a second, sanitized build as well.  The broken variants of the specification
(Variant) and the as-found model of operator<< (Fixed = FALSE) must be rejected by TLC (vacuity guard);
the counterexample of the latter is replayed on the tree to decide which model the tree has to follow."""
import os

import vlib
from framework import graph_replay, replay_tlc_trace

ALL_MODES = ["fn", "fnsync", "retfut", "async", "asyncsync", "setval", "setexc", "factthrow", "late", "init"]
# unwind: the promise is a local of the producer and is destroyed by stack unwinding (the producer throws before resolving)
ALL_KINDS = ["val", "exc", "drop", "dtor", "unwind"]
# blocking entry points of shared_future bound to the blocking waiter of the specification (BeginWait(h, form)):
# wait() / sync() then value() / force_sync() / join() / force_wait() -- the force_ forms on a thread in coroutine mode
ALL_FORMS = ["wait", "syncval", "fsync", "join", "fwait"]

HPC = {"idle": "pre:op", "null_idle": "pre:op", "pre_pload": "pre:pload", "post_pload_p": "post:pload",
       "post_pload_n": "post:pload", "pre_check": "pre:check", "post_check_r": "post:check", "post_check_n": "post:check",
       "pre_cas": "pre:cas", "post_cas_ok": "post:cas", "post_cas_fail": "post:cas", "pre_fence": "pre:fence",
       "post_fence": "post:fence", "pre_wait": "pre:wait", "post_wait": "post:wait"}
RPC = {"nopromise": "nopromise", "done": "done", "pre_final": "pre:final"}
for _s in ("claim", "dload", "swap", "fstore", "notify"):
    RPC["pre_" + _s] = "pre:" + _s
    RPC["post_" + _s] = "post:" + _s


def sset(xs):
    return "{" + ", ".join('"%s"' % x for x in xs) + "}"


def chain_of(st):
    if st["slot"] == "ready":
        return "ready"
    if st["slot"] == "inst":
        return ["instance"]
    out = []
    n = st["slot"]
    while n != "null" and len(out) < 12:
        out.append(n)
        n = st["nxt"][n]
    return out


def proj(st):
    alive = st["st"] == "alive"
    use = st["tref"] + st["tmp"] + sum(st["nh"].values()) + sum(st["cref"].values())
    frames = sum(st["cref"].values()) + (1 if st["mode"] == "async" and st["round"] == 1 and st["rpc"] != "done" else 0)
    old = sum(st["old"].values())     # an assignment in progress: the previous state is still referenced
    pend = {"r": RPC[st["rpc"]]}
    for h, pc in st["pc"].items():
        pend[h] = HPC[pc]
    return {
        "st": st["st"],
        "one": old == 0,
        "use": use if alive else 0,
        "live": st["vlive"] + st["oldlive"],
        "vd": st["vdtor"],
        "heap": (1 if alive else 0) + old + frames,
        "chain": chain_of(st) if alive else "-",
        "tag": st["tag"] if alive else "-",
        "payload": st["payload"] if alive else "-",
        "nh": {h: n + st["old"][h] for h, n in st["nh"].items()},
        "cref": st["cref"],
        "pend": pend,
        "resumes": st["resumes"],
        "seen": st["seen"],
        "threw": st["threw"],
    }


def constants(H, modes, kinds, co=(), bl=(), cb=(), po=(), copies=1, handles=2, variant="code", fixed=True, rounds=1, ways=(),
              forms=ALL_FORMS, shift=0, free=False):
    return {"H": sset(H), "Ctor": '"%s"' % H[0], "Modes": sset(modes), "RKinds": sset(kinds), "HCo": sset(co),
            "HBl": sset(bl), "HCb": sset(cb), "HPoll": sset(po), "MaxCopies": str(copies), "MaxHandles": str(handles),
            "Variant": '"%s"' % variant, "Fixed": "TRUE" if fixed else "FALSE", "MaxRounds": str(rounds), "ReArmWays": sset(ways),
            "BlForms": sset(forms), "FormShift": str(shift), "FreeForms": "TRUE" if free else "FALSE"}


ALL_WAYS = ["shl", "shlready", "shlreadyexc", "shlreadynone", "shlthrows", "assign"]
READY_WAYS = ["shlready", "shlreadyexc", "shlreadynone", "shlthrows"]


def run_cfg(ctx, rp, tag, H, modes, kinds, co=(), bl=(), cb=(), po=(), copies=1, handles=2, max_paths=None,
            must=None, env=None, rounds=1, ways=(), forms=ALL_FORMS, shift=0, free=False):
    """shift: rotation offset of the blocking form (the form of a blocking call is a function of mode, resolver kind,
    round, thread and this offset -- API-form rotation inside the specification); free: every form at every call"""
    consts = constants(H, modes, kinds, co, bl, cb, po, copies, handles, rounds=rounds, ways=ways, forms=forms,
                       shift=shift + ctx.seed, free=free)

    def hdr(k, st0):
        return {"H": list(H), "ctor": H[0]}
    must_take = ["Drop", "PreCAS", "PostCAS"] + (["BeginWait", "PreWait"] if bl else []) + (must or [])
    res, g = graph_replay(ctx, "SharedFuture", "SharedFuture", "SharedFuture_base.cfg", tag, rp, proj, header_fn=hdr,
                          constants=consts, must_take=must_take, max_paths=max_paths, tlc_kw={"workers": 4},
                          replay_timeout=1800, env=env)
    return res


def broken_variant_must_fail(ctx, tag, variant, invariant, rounds=1, ways=()):
    """vacuity guard: the deliberately broken variants of the specification must violate the property"""
    sd = os.path.join(vlib.VERIF, "spec", "SharedFuture")
    cfg = os.path.join(vlib.BUILD, "C17_%s.cfg" % tag)
    vlib.write_cfg(cfg, "SPECIFICATION Spec\nINVARIANTS %s\nCHECK_DEADLOCK FALSE\n" % invariant,
                   constants(["h1"], ["fn", "late"], ["val"], co=["h1"], bl=["h1"], cb=[], po=[], copies=1, handles=2,
                             variant=variant, rounds=rounds, ways=ways))
    res = vlib.run_tlc(sd, "SharedFuture", cfg, "C17_%s" % tag, workers=2, coverage=False)
    try:
        os.remove(cfg)
    except OSError:
        pass
    if not res.violation:
        raise vlib.MachineryError("vacuous property: variant %s of SharedFuture.tla does not violate %s (%s)" % (
            variant, invariant, (res.error or "")[:300]))
    ctx.extra.setdefault("broken_variants_rejected", []).append("%s violates %s" % (variant, invariant))


SHL_KEY = "shared_future_shl_untraced"


def check_shl(ctx, rp, env):
    """shared_future::operator<< (shared_future.h:197-205).  The model of the code as found (Fixed = FALSE:
    the future in the state is replaced, the tracer is not charged) violates AliveWhilePending.  Decide on
    the real code: replay the counterexample.  Followed step by step -> the defect is in the tree
    (violation / known finding).  Not followed -> the tree must conform to the repaired model (Fixed =
    TRUE: init_if_needed, result_of, `if (pending()) charge`)."""
    cfg = os.path.join(vlib.BUILD, "C17_shlcex.cfg")
    vlib.write_cfg(cfg, "SPECIFICATION Spec\nINVARIANTS AliveWhilePending\nCHECK_DEADLOCK FALSE\n",
                   constants(["h1"], ["shl"], ["val"], fixed=False))
    res = ctx.tlc("SharedFuture", "SharedFuture", cfg, "shlcex", workers=1)
    try:
        os.remove(cfg)
    except OSError:
        pass
    if not res.violation:
        raise vlib.MachineryError("the as-found model of shared_future::operator<< is expected to violate AliveWhilePending")
    followed, out, text = replay_tlc_trace(ctx, res, rp, proj, {"H": ["h1"], "ctor": "h1"}, "shl")
    ctx.extra["operator_shl_as_found_counterexample_followed_by_code"] = followed
    if followed:
        ctx.violation(SHL_KEY,
                      "shared_future::operator<< (shared_future.h:197-205) replaces the future in the shared state but "
                      "never charges the resolve tracer: `shared_future<T> f; f.init_if_needed(); f << fn_returning_pending_future;` "
                      "then dropping every handle destroys and frees the state while it is still pending (debug build: assert "
                      "'Destroy of pending future'); the promise later writes into freed memory (future.h:555).  TLC "
                      "counterexample of the as-found model (Fixed = FALSE) violating AliveWhilePending, %d steps, followed step by "
                      "step by the real code." % (len(res.trace) - 1), text + "#" + out.replace("\n", "\n#") + "\n")
        return False
    return True


def tlc_only(ctx, tag, H, modes, kinds, **kw):
    """exhaustive TLC run without state graph dump / replay: safety and the liveness property NoHang (under
    weak fairness of every thread; the dumped runs check safety only -- the graphs are acyclic and
    NoStuckState covers the terminal states, TLC would dump the liveness tableau as well)"""
    cfg = os.path.join(vlib.BUILD, "C17_%s.cfg" % tag)
    base = open(os.path.join(vlib.VERIF, "spec", "SharedFuture", "SharedFuture_live.cfg")).read()
    vlib.write_cfg(cfg, base, constants(H, modes, kinds, **kw))
    res = ctx.tlc("SharedFuture", "SharedFuture", cfg, tag, workers=4, timeout=3000)
    try:
        os.remove(cfg)
    except OSError:
        pass
    if res.violation:
        ctx.tlc_violation(res, "SharedFuture:" + tag)
    return res


def run(ctx):
    from concurrent.futures import ThreadPoolExecutor
    with ThreadPoolExecutor(max_workers=2) as ex:
        f1 = ex.submit(vlib.compile_harness, os.path.join(vlib.VERIF, "harness/shared_future_replay.cpp"),
                       "shared_future_replay", sanitize=not ctx.quick)
        # quick: a second, sanitized build for the configurations in which the last reference is dropped during the walk
        f2 = ex.submit(vlib.compile_harness, os.path.join(vlib.VERIF, "harness/shared_future_replay_asan.cpp"),
                       "shared_future_replay_asan", sanitize=True) if ctx.quick else None
        rp = f1.result()
        rp_asan = f2.result() if f2 else rp
    asan_env = {"ASAN_OPTIONS": "detect_leaks=0", "UBSAN_OPTIONS": "halt_on_error=1:print_stacktrace=1"}
    # leaks are found by the replayer's own accounting (allocation balance, instance counters, state freed at the end)
    env = None if ctx.quick else asan_env
    h1, h2 = ["h1"], ["h1", "h2"]
    with ThreadPoolExecutor(max_workers=3) as ex:
        vs = [ex.submit(broken_variant_must_fail, ctx, "v1", "notracer", "AliveWhilePending"),
              ex.submit(broken_variant_must_fail, ctx, "v2", "noreset", "AtEnd"),
              # operator<< charging the tracer in the first round only: the re-armed pending state dies with the handles
              ex.submit(broken_variant_must_fail, ctx, "v3", "chargeonce", "AliveWhilePending", 2, ["shl"])]
        for v in vs:
            v.result()
    # mode "shl" (repaired model) is part of the regular configurations unless the tree still has the as-found operator<<
    shl_fixed = check_shl(ctx, rp, env)
    modes = ALL_MODES + (["shl"] if shl_fixed else [])
    # re-arming through operator<< is replayed only on a tree with the repaired operator<<
    ways = ALL_WAYS if shl_fixed else ["assign"]
    seq_must = ["LateInit", "GetPromise", "NullPoll", "PrePload", "PreFence", "PreFinal", "PreDload", "Copy"]
    if ctx.quick:
        ctx.exhaustive = False
        # one handle thread against the resolver: every construction mode, every resolver kind (sampled paths)
        run_cfg(ctx, rp, "s1", h1, modes, ALL_KINDS, co=h1, bl=h1, po=h1, copies=1, handles=2, max_paths=3000, must=seq_must)
        run_cfg(ctx, rp, "s2", h1, ["fn", "late", "setval"], ["val", "drop"], cb=h1, bl=h1, copies=1, handles=2, must=["BeginCb"], shift=1)
        # two handle threads: drop of the last handle against the resolver's chain walk / tracer release
        kinds = [ALL_KINDS[ctx.seed % len(ALL_KINDS)]]
        run_cfg(ctx, rp_asan, "c1", h2, ["fn"], kinds, co=["h1"], bl=["h2"], copies=1, handles=1, must=["Copy"], env=asan_env, shift=2)
        # (init: copies exist before get_promise(); the earlier copies' awaiters must be released with the result)
        run_cfg(ctx, rp, "c2", h2, ["retfut", "async", "init"], ["val"], co=["h2"], po=["h1"], copies=1, handles=1, must=["GetPromise"])
        run_cfg(ctx, rp, "c3", h2, ["fn"], ["val"], cb=["h1"], bl=["h2"], copies=2, handles=1, shift=3)
        run_cfg(ctx, rp, "c4", h2, [modes[-1]], ["val"], co=["h1"], bl=["h2"], po=["h2"], copies=2, handles=2, max_paths=1200, shift=4)
        # every blocking form of shared_future (wait / sync + value / force_sync / join / force_wait) as a free choice:
        # one thread against every resolver kind (the throwing outcomes included) and an already resolved state; two
        # holders, sanitized: the blocked thread may hold the last handle and drops it right after its call has
        # returned, against the resolver's chain walk releasing the tracer (the other configurations rotate the form)
        run_cfg(ctx, rp, "f1", h1, ["fn", "setexc"], ALL_KINDS, bl=h1, copies=0, handles=1, free=True, max_paths=1000)
        run_cfg(ctx, rp_asan, "f2", h2, ["fn"], [ALL_KINDS[(ctx.seed + 1) % len(ALL_KINDS)]], bl=["h2"], copies=1, handles=1,
                must=["Copy"], env=asan_env, free=True)
        tlc_only(ctx, "live", h2, ["fn", "late"], kinds, co=["h1"], bl=["h2"], cb=["h2"], copies=1, handles=1)
        # rounds: a resolved state re-armed (operator<< pending / ready, assignment of a new shared_future) for a second
        # and third round, copies / awaiters / drops in every round
        run_cfg(ctx, rp, "r1", h1, ["fn", "setval"], ["val", "drop"], co=h1, copies=1, handles=2, rounds=3,
                ways=[x for x in ways if x in ("shl", "shlready", "assign")],
                must=["ReArmAssign"] + (["ReArmShl"] if shl_fixed else []), max_paths=1000)
        if shl_fixed:
            # every outcome of the factory of `f << factory` in every round: a ready future with a value / an exception /
            # no value, or the factory THROWS (result_of's catch path) -- over a previous round that left a value, an
            # exception or nothing: the previous content is destroyed exactly once, the tracer is not wired
            run_cfg(ctx, rp, "r3", h1, ["setval", "factthrow", "fn"], ["val", "unwind"], co=h1, copies=0, handles=1, rounds=3,
                    ways=READY_WAYS, must=["ReArmShl"])
            run_cfg(ctx, rp, "r2", h2, ["fn"], ["val"], co=["h1"], bl=["h2"], copies=1, handles=1, rounds=2, ways=["shl"],
                    must=["ReArmShl"], max_paths=500, shift=1)
        # sanitized replays (this one and c1; no weak_ptr probe): a touch of the state after the last reference is gone
        # aborts the replayer
        run_cfg(ctx, rp_asan, "a1", h1, ["fn", "late", "retfut", "async"], ["val", "dtor"], co=h1, cb=h1, copies=1, handles=1, env=asan_env)
    else:
        # (the largest graphs are replayed by an edge cover capped at max_paths; the others completely)
        run_cfg(ctx, rp, "s1", h1, modes, ALL_KINDS, co=h1, bl=h1, cb=h1, po=h1, copies=1, handles=2, env=env, max_paths=12000,
                must=seq_must + ["BeginCb"])
        run_cfg(ctx, rp, "c1val", h2, ["fn", "retfut"], ["val"], co=["h1"], bl=["h2"], po=["h2"], copies=2, handles=2, env=env)
        run_cfg(ctx, rp, "c1dtor", h2, ["fn"], ["dtor"], co=["h1"], bl=["h2"], po=["h2"], copies=2, handles=2, env=env)
        run_cfg(ctx, rp, "c1exc", h2, ["fn", "retfut"], ["exc", "drop"], co=["h1"], bl=["h2"], copies=1, handles=1, env=env, free=True,
                max_paths=6000)
        run_cfg(ctx, rp, "c2", h2, [m for m in modes if m not in ("fn", "retfut")], ["val", "dtor"], co=["h2"], bl=["h1"],
                copies=2, handles=2, env=env, max_paths=8000)
        run_cfg(ctx, rp, "c3", h2, ["fn", "retfut"], ["val", "drop"], cb=["h1"], bl=["h2"], co=["h2"], copies=2, handles=1, env=env,
                max_paths=6000, must=["BeginCb"])
        run_cfg(ctx, rp, "c4", h2, ["fn"], ["val", "exc"], co=h2, bl=h2, copies=1, handles=1, env=env, max_paths=6000, shift=1)
        run_cfg(ctx, rp, "f1", h1, [m for m in modes if m != "async"], ALL_KINDS, bl=h1, po=h1, copies=1, handles=2, env=env, free=True,
                max_paths=8000)
        run_cfg(ctx, rp, "f2", h2, ["fn", "late"], ["val", "dtor"], co=["h1"], bl=["h2"], copies=1, handles=1, env=env, free=True,
                max_paths=8000)
        run_cfg(ctx, rp, "c5", h2, ["fn", "late"], ["val"], cb=h2, po=h2, copies=2, handles=2, env=env, max_paths=6000)
        run_cfg(ctx, rp, "c6", h2, ["init"], ["val", "dtor"], co=["h2"], bl=["h1"], po=["h2"], copies=2, handles=2, env=env, must=["GetPromise"])
        run_cfg(ctx, rp, "t3", ["h1", "h2", "h3"], ["fn"], ["val"], co=["h2"], bl=["h3"], copies=2, handles=1, env=env)
        run_cfg(ctx, rp, "r1", h1, ["fn", "setval", "late", "retfut"], ALL_KINDS, co=h1, bl=h1, copies=1, handles=2, rounds=3,
                ways=ways, env=env, max_paths=6000, must=["ReArmAssign"] + (["ReArmShl"] if shl_fixed else []))
        run_cfg(ctx, rp, "r2", h2, ["fn", "init"], ["val", "dtor"], co=["h1"], bl=["h2"], po=["h2"], copies=2, handles=1, rounds=2,
                ways=ways, env=env, max_paths=6000, must=["ReArmShl"] if shl_fixed else [])
        # larger bounds, specification only
        tlc_only(ctx, "big", h2, ["fn"], ["val"], co=h2, bl=h2, cb=[], po=h2, copies=2, handles=2)
    ctx.assume("compare_exchange_weak does not fail spuriously (x86-64 lock cmpxchg); weak CAS is executed as strong under the controlled scheduler")
    ctx.assume("std::shared_ptr reference counting (libstdc++ atomics, not instrumented) is thread safe by itself: copy / drop of a handle and the tracer's release are atomic inside a local step; sequentially consistent interleavings only (memory order is C03's subject)")
    ctx.assume("one resolver thread, one promise object; each handle thread makes each kind of call (co_await, blocking wait, callback subscribe, ready()/value()) at most once; bounds MaxCopies/MaxHandles per configuration")
    ctx.assume("blocking forms of shared_future (wait / sync()+value() / force_sync() / join() / force_wait(), the force_ forms under an installed coro_queue) run the same protocol steps; the form of a call is rotated inside the specification (function of mode, resolver kind, round, thread, offset = configuration + VERIF_SEED) and a free choice in the configurations f1/f2; on an empty shared_future only ready()/value() are defined and driven (the blocking forms dereference the null pointer)")
    ctx.assume("rounds: a resolved state is re-armed (operator<< with a pending or ready future through any handle; assignment of a newly constructed shared_future by the sole holder of one handle) only when the resolver is done and every thread is between two calls -- re-arming needs exclusive access to the future (result_of rebuilds it in place); get_promise() on a resolved state is illegal (future.h:283-284) and not modelled; at most MaxRounds = 3 rounds")
    ctx.assume("handles are handed to other threads with the synchronisation the user must provide anyway (the scheduler's token passing)")
    ctx.assume("the callback awaiter keeps no handle and reads the result through the future reference: relies on the tracer being released last in the chain walk (stronger than the documented rule that every awaiter holds a handle)")
    ctx.assume("plain build observes the use count through a std::weak_ptr (keeps the memory block, not the object); the ASan build has no weak_ptr and asks ASan whether the control block has been freed")
