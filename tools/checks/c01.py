"""C01 -- a future is resolved exactly once, by exactly one winner."""
from checks import futurelib as fl


def run(ctx):
    rp = fl.build(ctx)
    rm = fl.resolver_mixes()
    wsets = [[], ["co"], ["bl"], ["cb", "hv"]]
    jobs = []
    for i, r in enumerate(rm):
        for j, w in enumerate(wsets):
            if len(r) + len(w) > 4:
                continue
            jobs.append((r, w))
    if ctx.quick:
        # representative subset: every resolver mix once, waiter set rotating; plus seeded extras
        sel = []
        for i, r in enumerate(rm):
            w = wsets[(i + ctx.seed) % len(wsets)]
            if len(r) + len(w) > 4:
                w = wsets[0] if len(r) > 3 else wsets[1]
            sel.append((r, w))
        jobs = sel[:]
        ctx.exhaustive = False
    fl.run_mixes(ctx, rp, jobs, max_paths=400 if ctx.quick else None)
    # finest grain (FutureFine.tla) for pairs of competing resolvers
    fine = [(["val", "exc"], []), (["val", "drop"], ["co"]), (["exc", "mdes"], ["bl"]), (["val", "val"], ["cb"]), (["drop", "masg"], []),
            (["val", "dtor"], ["co"])]
    if not ctx.quick:
        fine += [(list(c), w) for c in [("val", "val"), ("exc", "drop"), ("mdes", "val"), ("masg", "exc"), ("drop", "drop")] for w in ([], ["co"], ["bl"], ["cb"])]
    fl.run_mixes_fine(ctx, rp, fine, max_paths=400 if ctx.quick else None)
    # other instantiations and entry points of the same protocol: future<int&> (state value_ref), a 64-byte tracked payload, and
    # promise::bind(args...) whose closure is called, called and then destroyed, or destroyed without ever being called
    rpr = fl.build_ref(ctx)
    refjobs = [(["val", "exc"], ["hv"]), (["val", "drop"], ["co", "hv"]), (["val", "val"], ["bl"]), (["mdes", "val"], ["cb", "hv"]), (["val", "dtor"], ["hv"])]
    fl.run_mixes(ctx, rpr, refjobs if not ctx.quick else refjobs[:3] + [refjobs[3 + ctx.seed % 2]], max_paths=200 if ctx.quick else None, tagp="ref")
    rpb = fl.build_big(ctx)
    bindjobs = [(["dtor"], ["co"]), (["val", "dtor"], ["bl"]), (["dtor"], ["hv", "cb"]), (["val", "dtor"], ["co", "hv"]), (["val"], ["bl", "co"])]
    fl.run_mixes(ctx, rpb, bindjobs if not ctx.quick else bindjobs[:3], max_paths=200 if ctx.quick else None, tagp="bind", bind=True)
    # code -> spec: random schedules with more competing resolvers than the dumped graphs, validated as traces
    big = [(["val", "exc", "drop", "mdes"], ["co"]), (["val", "val", "exc", "dtor"], ["bl", "cb"]), (["drop", "mdes", "mdes", "val", "dtor"], [])]
    for k, (r, w) in enumerate(big if not ctx.quick else big[:2]):
        fl.explore_validate(ctx, rp, r, w, "tv%d" % k, 150 if ctx.quick else 1500)
    ctx.assume("compare_exchange_weak does not fail spuriously (x86-64 lock cmpxchg); weak CAS is executed as strong under the controlled scheduler")
    ctx.assume("value types int, int& and a 64-byte tracked object; payload abstracted to the identity of the resolver that wrote it")
