"""C01 -- a future is resolved exactly once, by exactly one winner."""
from checks import futurelib as fl


def run(ctx):
    # all builds of the replayer side by side: int, int&, the 64-byte copy-counted object, and the move-only instance-counted
    # object with a moved-from flag (natural alignment / over-aligned, rotating with the seed in the quick tier)
    trkname = "trk64" if ctx.seed % 2 == 0 else "trk"
    builds = fl.build_all(ctx, ["int", "ref", "big", trkname] + ([] if ctx.quick else ["trk64" if trkname == "trk" else "trk"]))
    rp = builds["int"]
    rm = fl.resolver_mixes()
    wsets = [[], ["co"], ["bl"], ["cb", "hv"]]
    jobs = []
    for i, r in enumerate(rm):
        for j, w in enumerate(wsets):
            if len(r) + len(w) > 4:
                continue
            jobs.append((r, w))
    if ctx.quick:
        # representative subset: every resolver mix once, waiter set rotating; plus seeded extras
        sel = []
        for i, r in enumerate(rm):
            w = wsets[(i + ctx.seed) % len(wsets)]
            if len(r) + len(w) > 4:
                w = wsets[0] if len(r) > 3 else wsets[1]
            sel.append((r, w))
        jobs = sel[:]
        ctx.exhaustive = False
    fl.run_mixes(ctx, rp, jobs, max_paths=400 if ctx.quick else None)
    # finest grain (FutureFine.tla) for pairs of competing resolvers
    fine = [(["val", "exc"], []), (["val", "drop"], ["co"]), (["exc", "mdes"], ["bl"]), (["val", "val"], ["cb"]), (["drop", "masg"], []),
            (["val", "dtor"], ["co"])]
    if not ctx.quick:
        fine += [(list(c), w) for c in [("val", "val"), ("exc", "drop"), ("mdes", "val"), ("masg", "exc"), ("drop", "drop")] for w in ([], ["co"], ["bl"], ["cb"])]
    fl.run_mixes_fine(ctx, rp, fine, max_paths=400 if ctx.quick else None)
    # other instantiations and entry points of the same protocol: future<int&> (state value_ref), a 64-byte tracked payload, and
    # promise::bind(args...) whose closure is called, called and then destroyed, or destroyed without ever being called
    rpr = builds["ref"]
    refjobs = [(["val", "exc"], ["hv"]), (["val", "drop"], ["co", "hv"]), (["val", "val"], ["bl"]), (["mdes", "val"], ["cb", "hv"]), (["val", "dtor"], ["hv"])]
    fl.run_mixes(ctx, rpr, refjobs if not ctx.quick else refjobs[:3] + [refjobs[3 + ctx.seed % 2]], max_paths=200 if ctx.quick else None, tagp="ref")
    rpb = builds["big"]
    bindjobs = [(["dtor"], ["co"]), (["val", "dtor"], ["bl"]), (["dtor"], ["hv", "cb"]), (["val", "dtor"], ["co", "hv"]), (["val"], ["bl", "co"])]
    fl.run_mixes(ctx, rpb, bindjobs if not ctx.quick else bindjobs[:3], max_paths=200 if ctx.quick else None, tagp="bind", bind=True)
    more = []
    mp_paths = 200 if ctx.quick else None
    # the callback-promise make_promise<T>(fn): the callback is the ONLY observer of the result, so "a dropped promise is observed
    # as no-value rather than as a hang" means the callback runs exactly once for every kind of resolution - value, exception, drop,
    # destruction (of the promise or of a promise it was moved to), and another promise assigned over it (kind "ovw")
    mpjobs = [(["val", "drop"], ["mp"]), (["drop", "exc"], ["mp"]), (["dtor"], ["mp"]), (["mdes", "val"], ["mp"]), (["masg"], ["mp"]),
              (["ovw"], ["mp"]), (["val", "ovw", "dtor"], ["mp"]), (["exc", "exc", "drop"], ["mp"]),
              # ... and the assignment over a pending promise against the ordinary waiters
              (["ovw"], ["co", "bl"]), (["drop", "ovw", "dtor"], ["cb", "hv"]), (["val", "ovw"], ["bl"])]
    if not ctx.quick:
        mpjobs += [(r, ["mp"]) for r in (["val", "val", "exc"], ["mdes", "masg", "dtor"], ["drop", "drop"], ["val", "exc", "ovw"], ["masg", "val", "dtor"])]
        mpjobs += [(["ovw", "ovw"], ["co"]), (["exc", "ovw", "dtor"], ["bl", "cb"])]
    more += [{"rp": rp, "r": r, "w": w, "tag": "mp%d" % k, "max_paths": mp_paths} for k, (r, w) in enumerate(mpjobs)]
    # the ARGUMENTS of refused calls, and the payload instances: a move-only instance-counted value type; every value-taking call
    # form (operator(), set_value, async::start(promise), bind(x)()) passes an rvalue of the caller's own object - only the winner's is
    # consumed, a loser constructs nothing (spec: arg, built; ArgConsumedOnlyByWinner, PayloadBuiltOnce, LosersLeaveNoTrace)
    trkjobs = [(["val", "val"], ["co"]), (["val", "exc", "drop"], []), (["val", "val", "dtor"], ["bl"]), (["val", "mdes"], ["mp"]),
               (["val", "drop"], ["cb", "hv"]), (["final"], ["co"]), (["val", "val", "val"], []), (["val", "ovw"], ["co"])]
    trkbind = [(["val", "dtor"], ["bl"]), (["dtor"], ["co"]), (["val"], ["cb", "hv"])]
    if not ctx.quick:
        trkjobs += [(["val", "masg"], ["co", "bl"]), (["val", "val", "exc"], ["cb"]), (["val", "drop", "dtor"], ["hv"])]
    for name in [n for n in builds if n.startswith("trk")]:
        more += [{"rp": builds[name], "r": r, "w": w, "tag": "%s_%d" % (name, k), "max_paths": mp_paths, "trk": True} for k, (r, w) in enumerate(trkjobs)]
        more += [{"rp": builds[name], "r": r, "w": w, "tag": "%sb_%d" % (name, k), "max_paths": mp_paths, "trk": True, "bind": True}
                 for k, (r, w) in enumerate(trkbind if not ctx.quick else trkbind[:2])]
    fl.run_jobs(ctx, more, par=8)
    # code -> spec: random schedules with more competing resolvers than the dumped graphs, validated as traces
    big = [(["val", "exc", "drop", "mdes"], ["co"]), (["val", "val", "exc", "dtor"], ["bl", "cb"]), (["drop", "mdes", "mdes", "val", "dtor"], [])]
    if not ctx.quick:
        big += [(["val", "ovw", "drop", "dtor"], ["co", "bl"]), (["val", "masg", "ovw"], ["mp"]), (["ovw", "ovw", "exc"], ["cb"])]
    for k, (r, w) in enumerate(big if not ctx.quick else big[:2]):
        fl.explore_validate(ctx, rp, r, w, "tv%d" % k, 150 if ctx.quick else 1500)
    ctx.assume("compare_exchange_weak does not fail spuriously (x86-64 lock cmpxchg); weak CAS is executed as strong under the controlled scheduler")
    ctx.assume("value types int, int&, a 64-byte copy-counted object and a move-only instance-counted object (natural alignment / alignas(64)); "
               "payload abstracted to the identity of the resolver that wrote it")
    ctx.assume("an assignment over the promise object (like its destruction) runs only when no other call is using the object")
