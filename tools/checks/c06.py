"""C06 -- a suspend point never loses or duplicates a ready coroutine.

spec/SuspendPoint/SuspendPoint.tla is checked by TLC on several configurations and every edge of each
dumped state graph is replayed on the real cocls::suspend_point<void>/<int> + coro_queue by
harness/suspend_point_replay.cpp (state compared after every operation).

configurations (constants overridden per tier below):
  SP_all.cfg    MaxSteps = 0: *every* history of any length over <= MaxH handles and MaxObj objects,
                untyped objects, all operations, both modes (the state space is finite because no
                variable records unbounded history)
  SP_self.cfg   like SP_all plus the driver's OWN handle (co_await self()) at every position: AddSelf /
                ConstructSelf, co_await / clear / destruction / pop of objects holding it, Yield
                (SP_self and SP_typed also contain coro_queue::create_suspend_point(fn) - fn readies the handles of
                one object, then returns or throws - and resume.h parallel_resume())
  SP_typed.cfg  typed and untyped objects mixed, three slots, histories bounded by MaxSteps, reads of the
                attached value in every order; replayed twice: payload int and a move-tracking payload
  SP_grow.cfg   two objects, many handles, operations biased to the capacity boundaries
                3 -> heap(6) -> 12 -> 24 -> 48 (AddTo = fill up to a boundary, AddHandle = the add() that allocates)
  SP_unwind.cfg the control-flow CONTEXT of the resuming operations (Ctxs): clear(), destruction (explicit, discarded
                return value, automatic object), the scope exit that ends a history and the function given to
                create_suspend_point executed in ordinary flow / by the stack unwinding of a scope left by an exception /
                by a scope guard's destructor during unwinding / inside a handler; typed and untyped objects of 0..4(5)
                handles, own handle included, both modes, histories bounded by MaxSteps (all other configurations
                run with Ctxs = {"flow"})
  SP_deep.cfg   two objects, up to 52 handles: the 24 -> 48 and 48 -> 96 doublings (thorough)
  SP_sim.cfg    tlc -simulate: random behaviours of up to 60 operations, 3 objects, 40 handles (no replay)
plus TLC-only runs of SP_all.cfg with typed objects / one more handle.
"""
from collections import deque

import vlib
from framework import graph_replay

PROJ = ["blocks", "burst", "dalloc", "done", "dres", "mode", "nextH", "queue", "resumed", "ret", "rmf", "sp"]
ALL_OPS = ["ConstructEmpty", "ConstructH", "MoveConstruct", "AddHandle", "AddFill", "MergeShl", "MoveAssign",
           "Pop", "Clear", "Destroy", "CoAwait", "Pause"]
SELF_OPS = ["ConstructSelf", "AddSelf", "Yield"]
HELPERS = ["ParResume", "CreateSP"]     # resume.h parallel_resume, coro_queue::create_suspend_point
KEY_SELF_LAST = "await_own_handle_last"     # known_findings.jsonl: fixed in /repo 283e427
CTXS = ["flow", "unwind", "dtor", "catch"]
UNWIND_OPS = ["ConstructEmpty", "ConstructH", "AddHandle", "AddTo", "AddSelf", "MergeShl", "Pop", "Clear", "Destroy",
              "CoAwait", "Yield", "CreateSP", "Finish"]


def proj(st):
    """payload with observable move semantics (Tracked): the whole specification state"""
    out = {k: st[k] for k in PROJ}
    # functions with an empty domain / empty sequences print alike; records are already dicts
    out["sp"] = list(st["sp"]) if isinstance(st["sp"], list) else [st["sp"][k] for k in sorted(st["sp"], key=int)]
    if isinstance(out["resumed"], dict):
        out["resumed"] = [out["resumed"][k] for k in sorted(out["resumed"], key=int)]
    return out


def proj_int(st):
    """payload int: a moved-from int is indistinguishable from the original"""
    out = proj(st)
    out["rmf"] = False
    out["sp"] = [dict(o, mv=False) for o in out["sp"]]
    return out


def hdr_for(payload):
    def hdr(k, st0):
        # alt: Clear is executed through clear() (0) or through suspend_now() (1)
        return {"mode": st0["mode"], "maxh": len(st0["resumed"]), "maxobj": len(st0["sp"]), "alt": k % 2,
                "payload": payload}
    return hdr


def key_fn(sid, line, txt):
    """violation key; a divergence at `co_await` of an object whose last handle is the driver's own
    (the defect fixed by /repo 283e427) gets the key under which that finding is filed"""
    import json
    import re
    m = re.match(r"DIVERGE \S+ step=(\d+) action=CoAwait\((\d+)\)", line)
    if m:
        k, i = int(m.group(1)), int(m.group(2))
        rows = [l for l in txt.splitlines() if not l.startswith("#")]
        try:
            maxh = json.loads(rows[0].split(" ", 2)[2])["maxh"]
            if k >= 1:
                before = json.loads(rows[k].split("\t", 1)[1])       # rows[0] is BEGIN, rows[k] is step k-1
                h = before["sp"][i - 1]["h"]
                if h and h[-1] == maxh + 1:
                    return KEY_SELF_LAST
        except Exception:
            pass
    return "diverge:SuspendPoint:%s" % re.sub(r"^DIVERGE \S+ ", "", line)[:80]


def fast_cover_paths(g, rng, max_paths=None, full=True, max_len=400, want_terminal=True):
    """Edge cover by root-to-terminal paths, linear in the size of the result (vlib.cover_paths runs a
    whole-graph BFS whenever a walk gets stuck, which is quadratic on wide, shallow graphs).
    Same contract as vlib.cover_paths: returns (paths, covered, total), path = (init, [(label, dst)...])."""
    out = {n: list(es) for n, es in g.edges.items()}     # self loops (no-op operations) are replayed too
    total = sum(len(v) for v in out.values())
    # shortest way from an initial state to every node
    parent = {}
    order = []
    dq = deque()
    for r in g.init:
        if r not in parent:
            parent[r] = None
            dq.append(r)
    while dq:
        n = dq.popleft()
        order.append(n)
        for i, (l, d) in enumerate(out[n]):
            if d not in parent:
                parent[d] = (n, i)
                dq.append(d)
    # shortest way to a terminal state
    rev = {}
    for n, es in out.items():
        for (l, d) in es:
            if d != n:
                rev.setdefault(d, []).append(n)
    dist = {}
    dq = deque(n for n in out if all(d == n for (l, d) in out[n]))
    for n in dq:
        dist[n] = 0
    while dq:
        n = dq.popleft()
        for p in rev.get(n, ()):
            if p not in dist:
                dist[p] = dist[n] + 1
                dq.append(p)
    unc = {n: list(range(len(es))) for n, es in out.items()}
    for n in unc:
        rng.shuffle(unc[n])
    ncov = [0]
    covered = set()

    def take(n, i):
        if (n, i) not in covered:
            covered.add((n, i))
            ncov[0] += 1

    def pop_unc(n):
        u = unc[n]
        while u:
            i = u.pop()
            if (n, i) not in covered:
                return i
        return None

    def near(src, budget=48):
        """bounded breadth-first look-ahead for a node that still has an uncovered out-edge"""
        seen = {src: None}
        q = deque([src])
        while q and budget > 0:
            n = q.popleft()
            budget -= 1
            for i, (l, d) in enumerate(out[n]):
                if d in seen:
                    continue
                seen[d] = (n, i)
                if any((d, k) not in covered for k in unc[d]):
                    path = []
                    x = d
                    while seen[x] is not None:
                        path.append(seen[x])
                        x = seen[x][0]
                    path.reverse()
                    return path
                q.append(d)
        return None

    paths = []
    for tgt in order:
        while True:
            if max_paths is not None and len(paths) >= max_paths:
                return paths, ncov[0], total
            first = pop_unc(tgt)
            if first is None:
                break
            # prefix: initial state -> tgt
            pre = []
            x = tgt
            while parent[x] is not None:
                pre.append(parent[x])
                x = parent[x][0]
            pre.reverse()
            init = x
            steps = []
            for (n, i) in pre:
                take(n, i)
                steps.append(out[n][i])
            cur = tgt
            i = first
            while True:
                take(cur, i)
                steps.append(out[cur][i])
                cur = out[cur][i][1]
                if len(steps) >= max_len:
                    break
                i = pop_unc(cur)
                if i is None:
                    hop = near(cur)
                    if hop is None:
                        break
                    for (n, k) in hop:
                        take(n, k)
                        steps.append(out[n][k])
                        cur = out[n][k][1]
                    i = pop_unc(cur)
                    if i is None:
                        break
            if want_terminal:
                while dist.get(cur, 0) > 0 and len(steps) < max_len + 200:
                    k = min((j for j in range(len(out[cur])) if out[cur][j][1] != cur),
                            key=lambda j: dist.get(out[cur][j][1], 1 << 30))
                    take(cur, k)
                    steps.append(out[cur][k])
                    cur = out[cur][k][1]
            paths.append((init, steps))
    return paths, ncov[0], total


def replay(ctx, spec_dir, module, cfg, tag, replayer, projfn, **kw):
    """graph_replay with the linear-time path cover (the shared one is quadratic on these graphs) and
    with the projection + canonical JSON of a state computed once per state instead of once per
    replayed step (paths share most of their states)."""
    saved_cover, saved_canon = vlib.cover_paths, vlib.canon
    projected = {}      # id(parsed state dict, kept alive by the graph) -> projection (kept alive here)
    owned = set()       # ids of the projections held in `projected`
    text = {}           # id(projection) -> canonical JSON

    def proj_once(st):
        r = projected.get(id(st))
        if r is None:
            r = projected[id(st)] = (st, projfn(st))
            owned.add(id(r[1]))
        return r[1]

    def canon_once(v):
        k = id(v)
        t = text.get(k)
        if t is None:
            t = saved_canon(v)
            if k in owned:      # one of ours: stays alive in `projected`, so its id is not reused
                text[k] = t
        return t

    vlib.cover_paths, vlib.canon = fast_cover_paths, canon_once
    try:
        return graph_replay(ctx, spec_dir, module, cfg, tag, replayer, proj_once, **kw)
    finally:
        vlib.cover_paths, vlib.canon = saved_cover, saved_canon


def run(ctx):
    rp = vlib.compile_harness(vlib.VERIF + "/harness/suspend_point_replay.cpp", "suspend_point_replay",
                              sanitize=not ctx.quick)
    q = ctx.quick
    full = ALL_OPS + ["Finish"]
    grow = ["ConstructEmpty", "MoveConstruct", "AddHandle", "AddTo", "MergeShl", "Pop", "Clear", "Destroy", "CoAwait", "Finish"]
    grow_self_ops = ('{"ConstructEmpty", "ConstructSelf", "AddSelf", "Yield", "MoveConstruct", "AddHandle", "AddTo", '
                     '"MergeShl", "MoveAssign", "Pop", "Clear", "Destroy", "CoAwait"}')
    jobs = [
        # (cfg, tag, constants, must_take, extra_random, payload)
        ("SP_all.cfg", "all", {"MaxObj": 2, "MaxH": 5}, full, 100 if q else 1000, "int"),
        ("SP_self.cfg", "self", {"MaxH": 3 if q else 4}, full + SELF_OPS + HELPERS, 100 if q else 1000, "int"),
        ("SP_typed.cfg", "typed", {"MaxSteps": 4}, full + ["Read"] + HELPERS, 50 if q else 500, "int"),
        ("SP_typed.cfg", "typedT", {"MaxSteps": 4 if q else 5}, full + ["Read"] + HELPERS, 50 if q else 500, "tracked"),
        ("SP_grow.cfg", "grow", {"MaxSteps": 6 if q else 7}, grow + ["MoveAssign"], 100 if q else 1000, "int"),
    ]
    if not q:
        jobs.append(("SP_all.cfg", "all3", {"MaxObj": 3, "MaxH": 4}, full, 1000, "int"))
        jobs.append(("SP_grow.cfg", "growself", {"MaxSteps": 6, "Ops": grow_self_ops}, grow + SELF_OPS, 1000, "int"))
        jobs.append(("SP_deep.cfg", "deep", None, grow + ["AddSelf"], 1000, "int"))
    jobs.append(("SP_unwind.cfg", "unwind", {"MaxSteps": 4} if q else {"MaxSteps": 5, "MaxH": 5}, UNWIND_OPS, 50 if q else 500, "tracked"))
    for (cfg, tag, consts, must, rnd, payload) in jobs:
        res, g = replay(ctx, "SuspendPoint", "SuspendPoint", cfg, tag, rp, proj if payload == "tracked" else proj_int,
                        header_fn=hdr_for(payload), must_take=must, constants=consts, extra_random=rnd,
                        tlc_kw={"workers": 4}, key_fn=key_fn)
        if tag == "unwind" and g is not None:
            # vacuity guard: every resuming operation was generated (and replayed) in every context it can run in,
            # with something to resume, in both modes
            seen = set()
            for n, es in g.edges.items():
                for (label, dst) in es:
                    name, args = vlib.parse_label(label)
                    if name in ("Clear", "Destroy", "Finish", "CreateSP"):
                        st = g.state(n)
                        objs = proj(st)["sp"]
                        which = {"Clear": 0, "Destroy": 0, "CreateSP": 1}.get(name)
                        held = [objs[int(args[which]) - 1]] if which is not None and int(args[which]) else []
                        if any(o["h"] for o in (objs if name == "Finish" else held)):
                            seen.add((name, args[-1].strip('"'), st["mode"]))
            want = set((name, c, m) for name in ("Clear", "Destroy", "Finish", "CreateSP") for c in CTXS
                       for m in ("normal", "coro") if not (name == "Clear" and c == "unwind"))
            if want - seen:
                raise vlib.MachineryError("SP_unwind.cfg: operation/context/mode never generated with handles to resume: %s"
                                          % sorted(want - seen))
            ctx.extra["contexts_replayed"] = len(seen)
    sd = vlib.VERIF + "/spec/SuspendPoint/"
    # self-test of the specification: the behaviour before /repo 283e427 (Fixed = FALSE: the awaiting
    # coroutine is queued although pop() picked its own handle for the symmetric transfer) must be rejected
    path = vlib.BUILD + "/C06_unfixed.cfg"
    vlib.write_cfg(path, open(sd + "SP_self.cfg").read(), {"MaxH": 2, "Fixed": "FALSE"})
    r = vlib.run_tlc(sd, "SuspendPoint", path, "C06_unfixed", workers=2, coverage=False)
    if r.violated_name != "NoDoubleResume":
        raise vlib.MachineryError("the properties accept the pre-fix model (Fixed = FALSE) of await_suspend: vacuous (%s)"
                                  % (r.violation or r.error or "no violation"))
    ctx.extra["prefix_model_rejected_by"] = "%s, %d steps" % (r.violation, len(r.trace))
    # specification-level runs without replay: larger exhaustive bounds, random long behaviours
    extra = [("SP_all.cfg", "all_typed", {"MaxObj": 2, "MaxH": 3 if q else 4, "Typed": "TRUE"}, {})]
    if not q:
        extra.append(("SP_all.cfg", "all6", {"MaxObj": 2, "MaxH": 6}, {}))
        extra.append(("SP_all.cfg", "all_typed5", {"MaxObj": 2, "MaxH": 5, "Typed": "TRUE"}, {}))
    extra.append(("SP_sim.cfg", "sim", None, {"simulate": "num=%d" % (1000 if q else 20000), "depth": 62, "seed": ctx.seed}))
    for (cfg, tag, consts, kw) in extra:
        path = sd + cfg
        if consts:
            path = vlib.BUILD + "/C06_%s.cfg" % tag
            vlib.write_cfg(path, open(sd + cfg).read(), consts)
        res = ctx.tlc("SuspendPoint", "SuspendPoint", path, tag, workers=4, **kw)
        if res.violation:
            ctx.tlc_violation(res, "SuspendPoint:%s[%s]" % (cfg, tag))
    ctx.assume("handles are coroutines that neither touch the suspend point being operated on nor the ready queue "
               "(re-entrant use of a suspend point from a coroutine it resumes is not modelled)")
    ctx.assume("each foreign handle is handed to a suspend point at most once and lives in one suspend point at a time; "
               "the awaiting coroutine's own handle (co_await self()) exists at most once at a time; "
               "self-merge (a << std::move(a)) is excluded")
    ctx.assume("histories in which the caller makes the RUNNING coroutine resumable are not generated (undefined behaviour of "
               "the caller): clear()/destruction of a suspend point holding the own handle outside coroutine mode; "
               "co_await of a non-empty suspend point, pause() or self() while the own handle waits in the ready queue")
    ctx.assume("a handle returned by pop() is resumed by the caller at once (its own handle is dropped); operator new[] does not fail")
    ctx.assume("single thread: suspend_point is not a shared object (it is a return value / local); the detached thread "
               "created by parallel_resume() is waited for before the state is compared (no interleaving with the caller)")
    ctx.assume("the function given to create_suspend_point readies coroutines by clear()ing or discarding ONE existing suspend "
               "point (or none) and then returns or throws; it does not consume the ready queue")
    ctx.assume("payload types int and a move-tracking class (identity, moved-from flag); the attached value is observed "
               "through a probe of the member, reads only happen as operations of the history")
    ctx.assume("control-flow contexts of clear()/destruction/scope exit: ordinary flow, automatic object of a scope left by an "
               "exception, a scope guard's destructor during unwinding, inside a handler (one exception in flight, thrown and "
               "caught by the caller on the same thread; no nested exceptions); explored on objects of <= 5 handles")
    ctx.assume("capacity doublings beyond 48->96 and more than 3 simultaneously live objects are not explored; "
               "histories with typed objects are bounded by MaxSteps operations (untyped: unbounded length over <= MaxH handles)")
