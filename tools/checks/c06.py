"""C06 -- a suspend point never loses or duplicates a ready coroutine.

spec/SuspendPoint/SuspendPoint.tla is checked by TLC on several configurations and every edge of each
dumped state graph is replayed on the real cocls::suspend_point<void>/<int> + coro_queue by
harness/suspend_point_replay.cpp (state compared after every operation).

configurations (constants overridden per tier below):
  SP_all.cfg    MaxSteps = 0: *every* history of any length over <= MaxH handles and MaxObj objects,
                untyped objects, all operations, both modes (the state space is finite because no
                variable records unbounded history)
  SP_typed.cfg  typed and untyped objects mixed, three slots, histories bounded by MaxSteps
  SP_grow.cfg   two objects, many handles, operations biased to the capacity boundaries
                3 -> heap(6) -> 12 -> 24 -> 48 (AddFill = fill exactly to capacity, AddHandle = one more)
  SP_deep.cfg   one/two objects, add/pop/merge only, up to the 48 -> 96 doubling (thorough)
"""
import vlib
from framework import graph_replay

PROJ = ["blocks", "burst", "dalloc", "done", "mode", "nextH", "queue", "resumed", "ret", "sp"]
ALL_OPS = ["ConstructEmpty", "ConstructH", "MoveConstruct", "AddHandle", "AddFill", "MergeShl", "MoveAssign",
           "Pop", "Clear", "Destroy", "CoAwait", "Pause"]


def proj(st):
    out = {k: st[k] for k in PROJ}
    # functions with an empty domain / empty sequences print alike; records are already dicts
    out["sp"] = list(st["sp"]) if isinstance(st["sp"], list) else [st["sp"][k] for k in sorted(st["sp"], key=int)]
    if isinstance(out["resumed"], dict):
        out["resumed"] = [out["resumed"][k] for k in sorted(out["resumed"], key=int)]
    return out


def hdr(k, st0):
    n = len(st0["resumed"]) if not isinstance(st0["resumed"], dict) else len(st0["resumed"])
    return {"mode": st0["mode"], "maxh": n, "maxobj": len(st0["sp"]), "alt": k % 2}


def opset(ops):
    return "{" + ", ".join('"%s"' % o for o in ops) + "}"


def run(ctx):
    rp = vlib.compile_harness(vlib.VERIF + "/harness/suspend_point_replay.cpp", "suspend_point_replay",
                              sanitize=not ctx.quick)
    q = ctx.quick
    full = ALL_OPS + ["Finish"]
    grow = ["ConstructEmpty", "MoveConstruct", "AddHandle", "AddTo", "MergeShl", "Pop", "Clear", "Destroy", "CoAwait", "Finish"]
    jobs = [
        # (cfg, tag, constants, must_take, extra_random)
        ("SP_all.cfg", "all", {"MaxObj": 2, "MaxH": 5 if q else 6}, full, 100 if q else 1000),
        ("SP_typed.cfg", "typed", {"MaxSteps": 4 if q else 5}, full, 100 if q else 1000),
        ("SP_grow.cfg", "grow", {"MaxSteps": 6 if q else 7}, grow + ["MoveAssign"], 100 if q else 1000),
    ]
    if not q:
        jobs.append(("SP_all.cfg", "all3", {"MaxObj": 3, "MaxH": 4}, full, 1000))
        jobs.append(("SP_deep.cfg", "deep", None, grow, 1000))
    for (cfg, tag, consts, must, rnd) in jobs:
        graph_replay(ctx, "SuspendPoint", "SuspendPoint", cfg, tag, rp, proj, header_fn=hdr, must_take=must,
                     constants=consts, extra_random=rnd, tlc_kw={"workers": 4})
    ctx.assume("handles are coroutines that neither touch the suspend point being operated on nor the ready queue "
               "(re-entrant use of a suspend point from a coroutine it resumes is not modelled)")
    ctx.assume("each handle is handed to a suspend point at most once and lives in one suspend point at a time; "
               "self-merge (a << std::move(a)) and a suspend point containing the awaiting coroutine's own handle are excluded")
    ctx.assume("a handle returned by pop() is resumed by the caller at once; operator new[] does not fail")
    ctx.assume("single thread: suspend_point is not a shared object (it is a return value / local)")
    ctx.assume("capacity doublings beyond 48->96 and more than 3 simultaneously live objects are not explored; "
               "histories with typed objects are bounded by MaxSteps operations (untyped: unbounded length over <= MaxH handles)")
