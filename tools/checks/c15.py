"""C15 -- signal: every waiting listener gets every value; disconnect wakes all."""
import os
import time
from concurrent.futures import ThreadPoolExecutor

import vlib
from framework import graph_replay

KCONST = {"loop": "Loop", "gated": "Gated", "cbt": "CbT", "cbonce": "CbOnce", "cbf": "CbF"}
KPREFIX = {"loop": "l", "gated": "g", "cbt": "t", "cbonce": "o", "cbf": "f"}
SEQ_ACTIONS = ["ListenerAwait", "Emit", "ReleaseSP", "StateDtor"]


def names_of(kinds):
    return {"%s%d" % (KPREFIX[k], i + 1): k for i, k in enumerate(kinds)}


def seq_constants(kinds, void, coro, strict, max_emit, max_handles, forms=None, hooked=False, reg_emit=0,
                  nsig=1, rebinds=(), shells=False, rebound=None, max_cancel=2):
    """hooked: the first listener (a coroutine kind) obtains its emitter/collector pair through signal::hook_up()
    nsig: number of signal objects; rebinds: forms of re-binding the listeners' emitter objects; shells: signal
    objects without state (moved-from) are used as well"""
    nm = names_of(kinds)
    c = {}
    for k, cname in KCONST.items():
        c[cname] = "{" + ", ".join(n for n, kk in nm.items() if kk == k) + "}"
    if void:
        c["Forms"] = '{"void"}'
    else:
        c["Forms"] = "{" + ", ".join('"%s"' % f for f in (forms or ["inplace", "rvalue", "lvalue"])) + "}"
    c["MaxEmit"] = max_emit
    c["MaxHandles"] = max_handles
    c["CoroMode"] = "TRUE" if coro else "FALSE"
    c["Strict"] = "TRUE" if strict else "FALSE"
    c["Hooked"] = "{%s}" % (list(nm)[0] if hooked else "")
    c["RegEmit"] = reg_emit
    c["Sigs"] = "{" + ", ".join(str(i + 1) for i in range(nsig)) + "}"
    c["Rebinds"] = "{" + ", ".join('"%s"' % r for r in rebinds) + "}"
    c["Shells"] = "TRUE" if shells else "FALSE"
    # rebound: indices (into kinds) of the listeners whose emitter object is re-bound; default: every coroutine listener
    coros = [n for n, k in nm.items() if k in ("loop", "gated")]
    c["Rebound"] = "{" + ", ".join(coros if rebound is None else [list(nm)[i] for i in rebound]) + "}" if rebinds else "{}"
    c["MaxCancel"] = max_cancel
    return c, nm


def per_sig(x):
    """a TLA+ function over Sigs = 1..n is printed as a tuple"""
    if isinstance(x, dict):
        return {str(k): v for k, v in x.items()}
    return {str(i + 1): v for i, v in enumerate(x)}


def seq_proj(nm, hooked=False):
    cbs = [n for n, k in nm.items() if k.startswith("cb")]
    coros = [n for n, k in nm.items() if not k.startswith("cb")]

    def pj(st):
        d = {k: st[k] for k in ("held", "sp", "queue", "nemit")}
        for k in ("refs", "chain", "cur", "stor", "cvar"):
            d[k] = per_sig(st[k])
        d["st"] = st["st"] or {}
        d["received"] = st["received"] or {}
        d["bind"] = {} if hooked else {l: st["bind"][l] for l in coros}
        d["heap"] = sum(1 for c in cbs if st["st"][c] == "waiting")
        d["cblive"] = {c: (1 if st["st"][c] == "waiting" else 0) for c in cbs}
        return d
    return pj


def run_seq(ctx, rp, tag, kinds, void=False, coro=False, strict=False, max_emit=2, max_handles=2, forms=None,
            max_paths=None, extra_random=0, replay=True, replay_timeout=900, hooked=False, reg_emit=0,
            nsig=1, rebinds=(), shells=False, pay=False, rebound=None, max_cancel=2):
    consts, nm = seq_constants(kinds, void, coro, strict, max_emit, max_handles, forms, hooked, reg_emit, nsig, rebinds, shells,
                               rebound, max_cancel)
    if not replay:
        cfgp = os.path.join(vlib.BUILD, "%s_%s.cfg" % (ctx.prop, tag))
        vlib.write_cfg(cfgp, open(os.path.join(vlib.VERIF, "spec/Signal/Signal_base.cfg")).read(), consts)
        res = ctx.tlc("Signal", "Signal", cfgp, tag, workers=4)
        if res.violation:
            ctx.tlc_violation(res, "Signal:%s" % tag)
        return res

    def hdr(k, st0):
        return {"void": void, "pay": pay, "nsig": nsig, "coro": coro, "pick": k % 4, "kinds": nm,
                "hooked": list(nm)[0] if hooked else "", "late": bool((k // 4) % 2)}
    must = list(SEQ_ACTIONS)
    if hooked:
        must.append("HookUp")
    if any(k.startswith("cb") for k in kinds):
        must.append("Connect")
        if shells:
            must.append("ConnectDead")
    if shells:
        must.append("MoveHandle")
    if rebinds:
        must.append("Rebind")
    if not any(k in ("loop", "gated") for k in kinds):
        must.remove("ListenerAwait")
    if coro:
        must.append("Yield")
    ctx.rng.cover_loops = True      # see fast_cover_paths
    res, g = graph_replay(ctx, "Signal", "Signal", "Signal_base.cfg", tag, rp, seq_proj(nm, hooked), header_fn=hdr,
                          constants=consts, must_take=must, max_paths=max_paths, extra_random=extra_random,
                          tlc_kw={"workers": 4}, replay_timeout=replay_timeout)
    return res


# ---- concurrent part: spec/Signal/SignalConc.tla replayed by harness/signal_conc_replay.cpp ----
CKCONST = {"prel": "PreL", "thrl": "ThrL", "hookl": "HookL", "precbt": "PreCbT", "precbf": "PreCbF", "thrcbt": "ThrCbT", "thrcbf": "ThrCbF"}
CKPREFIX = {"prel": "p", "thrl": "l", "hookl": "h", "precbt": "a", "precbf": "b", "thrcbt": "t", "thrcbf": "f"}
CONC_ACTIONS = ["CXchg", "CDrop"]


def conc_chain(st):
    out = []
    n = st["slot"]
    while n != "null" and len(out) < 10:
        out.append(n)
        n = st["nxt"][n]
    return out


def run_conc(ctx, rpc, tag, kinds, nemit=2, form="rvalue", max_paths=None, extra_random=0):
    nm = {"%s%d" % (CKPREFIX[k], i + 1): k for i, k in enumerate(kinds)}
    consts = {}
    for k, cname in CKCONST.items():
        consts[cname] = "{" + ", ".join(n for n, kk in nm.items() if kk == k) + "}"
    consts["NEmit"] = nemit
    consts["Form"] = '"%s"' % form
    cbs = [n for n, k in nm.items() if "cb" in k]

    def hdr(k, st0):
        return {"form": form, "nemit": nemit, "kinds": nm, "order": list(reversed(conc_chain(st0)))}

    def pj(st):
        lst = st["lst"] or {}
        pend = {"C": st["cpc"]}
        pend.update(st["tpc"] or {})
        return {
            "chain": conc_chain(st), "refs": st["refs"], "cur": st["cur"], "stor": st["stor"], "cvar": st["cvar"],
            "lst": lst, "received": st["received"] or {}, "pend": pend, "casn": st["casn"],
            "exp": {l: st["nxt"][l] for l in lst if lst[l] == "casing"},
            "cblive": {c: (1 if lst[c] in ("casing", "waiting", "out") else 0) for c in cbs},
        }
    must = list(CONC_ACTIONS)
    if nemit > 0:
        must.append("CEmit")
    if any(k.startswith("thr") for k in kinds):
        must += ["TStart", "TCas"]
    if "hookl" in kinds:
        must += ["THanded"]
    res, g = graph_replay(ctx, "Signal", "SignalConc", "SignalConc_base.cfg", tag, rpc, pj, header_fn=hdr,
                          constants=consts, must_take=must, max_paths=max_paths, extra_random=extra_random,
                          tlc_kw={"workers": 4})
    try:   # TLC writes a second graph for the liveness check next to the dump
        os.remove(os.path.join(vlib.BUILD, "%s_%s_liveness.dot" % (ctx.prop, tag)))
    except OSError:
        pass
    return res


# ---- finest grain: spec/Signal/SignalFine.tla, same replayer with vsched yield_after ("fine":true) ----
def fine_pend(pc):
    if pc == "done":
        return "done"
    pre, _, site = pc.partition("_")
    if site.startswith("cas"):
        site = "cas"
    return "%s:%s" % (pre, site)


def run_fine(ctx, rpc, tag, kinds, nemit=1, form="rvalue", max_paths=None):
    nm = {"%s%d" % (CKPREFIX[k], i + 1): k for i, k in enumerate(kinds)}
    consts = {}
    for k, cname in CKCONST.items():
        consts[cname] = "{" + ", ".join(n for n, kk in nm.items() if kk == k) + "}"
    consts["NEmit"] = nemit
    consts["Form"] = '"%s"' % form
    cbs = [n for n, k in nm.items() if "cb" in k]

    def hdr(k, st0):
        return {"form": form, "nemit": nemit, "kinds": nm, "order": list(reversed(conc_chain(st0))), "fine": True}

    def pj(st):
        lst = dict(st["lst"] or {})
        pend = {"C": fine_pend(st["cpc"])}
        for t, pc in (st["tpc"] or {}).items():
            pend[t] = fine_pend(pc)
        return {
            "chain": conc_chain(st), "refs": st["refs"], "cur": st["cur"], "stor": st["stor"], "cvar": st["cvar"],
            "lst": {l: ("out" if v == "dout" else v) for l, v in lst.items()},
            "received": st["received"] or {}, "pend": pend, "casn": st["casn"] if st["cpc"] in ("pre_cas", "post_cas_fail") else "null",
            "exp": {l: st["nxt"][l] for l in lst if lst[l] == "casing"},
            "cblive": {c: (1 if lst[c] in ("casing", "waiting", "out", "dout") else 0) for c in cbs},
        }
    must = ["CXchg", "CLocRun", "CLocDrop", "TCas", "TLocDone"] + (["TLocHanded"] if "hookl" in kinds else [])
    res, g = graph_replay(ctx, "Signal", "SignalFine", "SignalFine_base.cfg", tag, rpc, pj, header_fn=hdr,
                          constants=consts, must_take=must, max_paths=max_paths, tlc_kw={"workers": 4})
    try:
        os.remove(os.path.join(vlib.BUILD, "%s_%s_liveness.dot" % (ctx.prop, tag)))
    except OSError:
        pass
    return res


def fast_cover_paths(g, rng, max_paths=None, full=True, max_len=400, want_terminal=True):
    """Same contract as vlib.cover_paths (edge-covering set of root-to-terminal paths; returns
    (paths, covered, total)) in O(total path length): vlib's version searches the nearest uncovered edge
    by BFS whenever a walk is stuck, which is quadratic on the 10^5-edge graphs of Signal.tla.
    Here every still uncovered edge u->v gets: shortest path root->u (BFS tree), the edge, a greedy
    continuation over uncovered edges (with a small look-ahead), then the shortest way to a terminal state.
    Self-loop edges (actions that leave the abstract state as it is: a signal object moved, an emitter re-bound to
    the signal it designates already) are replayed too: each one by the first path that visits its state."""
    from collections import deque
    out = {n: [(l, d) for (l, d) in es if d != n] for n, es in g.edges.items()}
    loops = {}
    for n, es in (g.edges.items() if getattr(rng, "cover_loops", False) else ()):     # (set by run_seq on the job's own stream)
        ll = sorted(set(l for (l, d) in es if d == n))
        if ll:
            loops[n] = ll
    nloops = sum(len(v) for v in loops.values())
    loops_done = [0]
    total = sum(len(v) for v in out.values()) + nloops

    def visit(n, steps):
        ll = loops.pop(n, None)
        if ll:
            for l in ll:
                steps.append((l, n))
            loops_done[0] += len(ll)
    parent = {}
    order = []
    inits = list(g.init)
    rng.shuffle(inits)
    dq = deque()
    for i in inits:
        parent[i] = None
        dq.append(i)
    while dq:
        n = dq.popleft()
        order.append(n)
        for i, (l, d) in enumerate(out[n]):
            if d not in parent:
                parent[d] = (n, i)
                dq.append(d)
    rev = {}
    for n, es in out.items():
        for (l, d) in es:
            rev.setdefault(d, []).append(n)
    dist = {}
    for n, es in out.items():
        if not es:
            dist[n] = 0
            dq.append(n)
    while dq:
        n = dq.popleft()
        for q in rev.get(n, []):
            if q not in dist:
                dist[q] = dist[n] + 1
                dq.append(q)
    covered = set()
    paths = []

    def prefix(u):
        es = []
        while parent[u] is not None:
            q, i = parent[u]
            es.append((q, i))
            u = q
        es.reverse()
        return u, es

    def lookahead(src, radius=3, limit=150):
        seen = {src: None}
        q = deque([(src, 0)])
        while q and len(seen) < limit:
            n, r = q.popleft()
            if n != src and any((n, j) not in covered for j in range(len(out[n]))):
                es = []
                while seen[n] is not None:
                    es.append(seen[n])
                    n = seen[n][0]
                es.reverse()
                return es
            if r < radius:
                for j, (l, d) in enumerate(out[n]):
                    if d not in seen:
                        seen[d] = (n, j)
                        q.append((d, r + 1))
        return None

    todo = list(reversed(order))      # deepest first: the way to a deep state covers the tree edges above it
    if max_paths is not None:
        rng.shuffle(todo)             # a capped cover samples the edges uniformly instead
    for u in todo:
        idxs = list(range(len(out[u])))
        rng.shuffle(idxs)
        for i in idxs:
            if (u, i) in covered:
                continue
            if max_paths is not None and len(paths) >= max_paths:
                return paths, len(covered) + loops_done[0], total
            root, pre = prefix(u)
            steps = []
            visit(root, steps)
            for (n, j) in pre + [(u, i)]:
                covered.add((n, j))
                steps.append(out[n][j])
                visit(out[n][j][1], steps)
            cur = out[u][i][1]
            while len(steps) < max_len:
                unc = [j for j in range(len(out[cur])) if (cur, j) not in covered]
                if unc:
                    hop = [(cur, rng.choice(unc))]
                else:
                    hop = lookahead(cur)
                    if hop is None:
                        break
                for (n, j) in hop:
                    covered.add((n, j))
                    steps.append(out[n][j])
                    cur = out[n][j][1]
                    visit(cur, steps)
            if want_terminal:
                while out[cur] and cur in dist and len(steps) < max_len + 200:
                    j = min(range(len(out[cur])), key=lambda x: dist.get(out[cur][x][1], 1 << 30))
                    covered.add((cur, j))
                    steps.append(out[cur][j])
                    cur = out[cur][j][1]
                    visit(cur, steps)
            paths.append((root, steps))
    for n in list(loops):          # states without outgoing edges to other states
        if n in loops and n in parent and (max_paths is None or len(paths) < max_paths):
            root, pre = prefix(n)
            steps = []
            visit(root, steps)
            for (q, j) in pre:
                steps.append(out[q][j])
                visit(out[q][j][1], steps)
            paths.append((root, steps))
    return paths, len(covered) + loops_done[0], total


def sub_ctx(ctx, tag):
    """Per-job view of the check context: own counters, model list and (reproducible) random stream, shared
    violation / sample / assumption lists.  framework.graph_replay updates `ctx.models[-1]` and the counters
    without locking, so jobs running in parallel must not share them; merged by run_jobs."""
    import copy
    import random
    s = copy.copy(ctx)
    s.states = s.transitions = s.traces = s.steps = 0
    s.models = []
    s.exhaustive = True
    s.rng = random.Random("%s:%s" % (ctx.seed, tag))
    return s


def run_jobs(ctx, jobs, par=3):
    """jobs: list of (tag, fn(sub context))"""
    errs = []
    subs = [sub_ctx(ctx, tag) for tag, _ in jobs]

    def one(k):
        if len(ctx.violations) >= 3:
            return
        t0 = time.time()
        try:
            jobs[k][1](subs[k])
        except Exception as e:   # re-raised in the main thread
            errs.append(e)
        if os.environ.get("C15_TIMES"):
            vlib.log("  job %s: %.1f s %s" % (jobs[k][0], time.time() - t0, [(m.get("distinct"), m.get("edges"), m.get("paths")) for m in subs[k].models]))
    with ThreadPoolExecutor(max_workers=par) as ex:
        list(ex.map(one, range(len(jobs))))
    for s in subs:
        ctx.states += s.states
        ctx.transitions += s.transitions
        ctx.traces += s.traces
        ctx.steps += s.steps
        ctx.models += s.models
        ctx.exhaustive = ctx.exhaustive and s.exhaustive
    if errs:
        raise errs[0]


def conc_mixes(maxn=3):
    import itertools
    kinds = ["prel", "thrl", "precbt", "precbf", "thrcbt", "thrcbf"]
    out = []
    for n in range(1, maxn + 1):
        for combo in itertools.combinations_with_replacement(kinds, n):
            if any(k.startswith("thr") for k in combo):
                out.append(list(combo))
    return out


def run(ctx):
    rp = vlib.compile_harness(os.path.join(vlib.VERIF, "harness/signal_replay.cpp"), "signal_replay",
                              sanitize=not ctx.quick)
    rpc = vlib.compile_harness(os.path.join(vlib.VERIF, "harness/signal_conc_replay.cpp"), "signal_conc_replay",
                               sanitize=not ctx.quick)
    jobs = []

    def seq(tag, kinds, **kw):
        jobs.append((tag, lambda c: run_seq(c, rp, tag, kinds, **kw)))

    def conc(tag, kinds, **kw):
        jobs.append((tag, lambda c: run_conc(c, rpc, tag, kinds, **kw)))

    def fine(tag, kinds, **kw):
        jobs.append((tag, lambda c: run_fine(c, rpc, tag, kinds, **kw)))
    LGO, LGT, LFT = ["loop", "gated", "cbonce"], ["loop", "gated", "cbt"], ["loop", "cbf", "cbt"]
    ALLF = ["inplace", "inplace2", "default", "rvalue", "lvalue"]
    RB4 = ["cctor", "mctor", "cassign", "massign"]
    # edge covers of 10^4..10^5-edge graphs: see fast_cover_paths (same contract as vlib.cover_paths, which
    # framework.graph_replay looks up at call time; this process runs only this check)
    vlib.cover_paths = fast_cover_paths
    if ctx.quick:
        ctx.exhaustive = False
        cap = dict(max_paths=5000, extra_random=200)
        # every history (Strict = FALSE: also the undisciplined ones) replayed on the real signal<int>/<void>
        seq("n_lgo", LGO, max_emit=2, **cap)
        seq("c_lgt", LGT, coro=True, max_emit=2, **cap)
        seq("n_lft", LFT, max_emit=3, **cap)
        seq("vc_lgo", LGO, void=True, coro=True, max_emit=3, shells=True, **cap)
        # the pair obtained through hook_up(fn), fn emitting 0..2 values through the collector before it returns
        seq("hn_lgo", LGO, max_emit=2, hooked=True, reg_emit=2, max_paths=1500, extra_random=50)
        seq("hc_glt", ["gated", "loop", "cbt"], coro=True, max_emit=2, hooked=True, reg_emit=2, max_paths=1500, extra_random=50)
        # every call form of the collector in every order of two, a class type with several constructors (signal<Pay>):
        # constructed from one / two arguments, from none (T{}), moved in, passed by reference; under the discipline
        seq("p_lgo", LGO, pay=True, strict=True, max_emit=2, forms=ALLF, shells=True, max_paths=3000, extra_random=50)
        # ... and on signal<int> inside a coroutine, all histories; signal objects moved, connect() on the moved-from ones
        seq("pc_lft", LFT, coro=True, max_emit=2, forms=["inplace", "default", "rvalue", "lvalue"], shells=True,
            max_paths=3000, extra_random=50)
        # two signals, the listener's ONE emitter object constructed / assigned from emitters of either signal, of none,
        # or from another listener's (subscribed) emitter, before and after disconnects
        seq("r_gf", ["gated", "cbf"], nsig=2, rebinds=RB4, shells=True, max_emit=1, max_handles=1, forms=["rvalue"],
            max_paths=2500, extra_random=50)
        seq("rc_gg", ["gated", "gated"], coro=True, nsig=2, rebinds=["cctor", "cassign"], rebound=[0], max_cancel=1, max_emit=2,
            max_handles=1, forms=["rvalue"], max_paths=2500, extra_random=50)
        seq("r_lg", ["loop", "gated"], strict=True, nsig=2, rebinds=["mctor", "massign"], max_emit=1, max_handles=1,
            forms=["lvalue"], max_paths=2500, extra_random=50)
        # the promised properties under the discipline (Strict = TRUE), deeper bound, specification only
        seq("s_c_lgo", LGO, coro=True, strict=True, max_emit=3, replay=False)
        seq("s_n_lgt", LGT, strict=True, max_emit=3, replay=False)
        # subscription racing with the collector: all schedules at atomic-operation grain
        conc("x_plt", ["prel", "thrl", "thrcbt"], nemit=2, max_paths=400)
        conc("x_all", ["precbt", "thrl", "thrl"], nemit=2, form="lvalue", max_paths=400)
        conc("x_pfl", ["prel", "thrcbf", "thrl"], nemit=2, max_paths=400)
        # the same at the finest grain (plain code after every atomic operation is a step of its own)
        fine("y_l", ["thrl"], nemit=2)
        fine("y_lt", ["thrl", "thrcbt"], nemit=1, form="lvalue")
        fine("y_pl", ["prel", "thrl"], nemit=2)
        # hook_up(fn) with fn handing the collector to the collector thread, which emits while fn is still running
        conc("x_hlt", ["hookl", "thrl", "thrcbt"], nemit=1, max_paths=300)
        fine("y_hl", ["hookl", "thrl"], nemit=2, max_paths=300)
        extra = conc_mixes(3)
        ctx.rng.shuffle(extra)
        for i, m in enumerate(extra[:3]):
            conc("x_r%d" % i, m, nemit=2, form="lvalue" if i % 2 else "rvalue", max_paths=300)
    else:
        for coro in (False, True):
            c = "c" if coro else "n"
            seq(c + "_lgo", LGO, coro=coro, max_emit=3, max_paths=50000 if coro else None, replay_timeout=3000)
            seq(c + "_lft", LFT, coro=coro, max_emit=3)
            seq(c + "_go", ["gated", "cbonce"], coro=coro, max_emit=3)
            seq(c + "_ggt", ["gated", "gated", "cbt"], coro=coro, max_emit=2)
            seq("v" + c + "_lgo", LGO, void=True, coro=coro, max_emit=3)
            seq("v" + c + "_lft", LFT, void=True, coro=coro, max_emit=3)
            seq("s_" + c + "_lgo4", LGO, coro=coro, strict=True, max_emit=4, replay=False)
            seq("s_" + c + "_llg", ["loop", "loop", "gated"], coro=coro, strict=True, max_emit=3, replay=False)
            seq("s_" + c + "_ggt", ["gated", "gated", "cbt"], coro=coro, strict=True, max_emit=3, replay=False)
            seq("s_v" + c + "_lgo", LGO, void=True, coro=coro, strict=True, max_emit=4, replay=False)
            # the pair obtained through hook_up(fn)
            seq("h" + c + "_lgo", LGO, coro=coro, max_emit=3, hooked=True, reg_emit=3)
            seq("h" + c + "_glt", ["gated", "loop", "cbt"], coro=coro, max_emit=2, hooked=True, reg_emit=2)
            seq("hv" + c + "_lgo", LGO, void=True, coro=coro, max_emit=3, hooked=True, reg_emit=2)
            seq("s_h" + c + "_lgo4", LGO, coro=coro, strict=True, max_emit=4, hooked=True, reg_emit=2, replay=False)
            # call forms on a class type / the argument-less form; signal objects moved and used after the move
            seq("p" + c + "_lgo", LGO, coro=coro, pay=True, max_emit=2, forms=ALLF, shells=True)
            seq("p" + c + "_lft3", LFT, coro=coro, pay=True, max_emit=3, forms=["inplace2", "default", "rvalue"], shells=True,
                max_paths=50000, replay_timeout=3000)
            seq("i" + c + "_lgt", LGT, coro=coro, max_emit=2, forms=["inplace", "default", "rvalue", "lvalue"], shells=True)
            seq("s_p" + c + "_lgo", LGO, coro=coro, strict=True, max_emit=3, forms=ALLF, shells=True, replay=False)
            # emitter objects re-bound between two signals
            seq("r" + c + "_gf", ["gated", "cbf"], coro=coro, nsig=2, rebinds=RB4, shells=True, max_emit=2, max_handles=1,
                forms=["rvalue", "default"], max_paths=50000, replay_timeout=3000)
            seq("r" + c + "_gg", ["gated", "gated"], coro=coro, nsig=2, rebinds=RB4, rebound=[0], max_cancel=1, max_emit=2,
                max_handles=1, forms=["rvalue"], max_paths=50000, replay_timeout=3000)
            seq("r" + c + "_lg", ["loop", "gated"], coro=coro, strict=True, nsig=2, rebinds=RB4[2 * coro:][:2], max_emit=2, max_handles=1,
                forms=["lvalue"], max_paths=50000, replay_timeout=3000)
        seq("r_gg2", ["gated", "gated"], nsig=2, rebinds=["cassign"], max_emit=1, max_handles=1, forms=["rvalue"],
            max_paths=50000, replay_timeout=3000)
        seq("r_gt2", ["gated", "cbt"], nsig=2, rebinds=["cctor", "massign"], shells=True, max_emit=2, max_handles=2,
            forms=["inplace"], max_paths=50000, replay_timeout=3000)
        seq("s_r_ggf", ["gated", "gated", "cbf"], strict=True, nsig=2, rebinds=RB4, rebound=[0], max_cancel=1, shells=True,
            max_emit=2, max_handles=1, forms=["rvalue", "default"], replay=False)
        seq("n_llg", ["loop", "loop", "gated"], max_emit=2)
        seq("c_llg", ["loop", "loop", "gated"], coro=True, max_emit=2)
        seq("n_lg4", ["loop", "gated"], max_emit=4, replay_timeout=3000)
        seq("c_lg", ["loop", "gated"], coro=True, max_emit=3)
        for i, m in enumerate(conc_mixes(3)):
            conc("x%d" % i, m, nemit=2, form="lvalue" if i % 2 else "rvalue")
        conc("x4a", ["prel", "precbt", "thrl", "thrcbt"], nemit=3, form="lvalue")
        conc("x4b", ["prel", "thrl", "thrcbt", "thrcbf"], nemit=2)
        conc("x4c", ["thrl", "thrl", "thrl", "precbf"], nemit=2)
        conc("x3e", ["prel", "thrl", "thrl"], nemit=3)
        for i, m in enumerate(conc_mixes(2)):
            fine("y%d" % i, m, nemit=2, form="lvalue" if i % 2 else "rvalue")
        for i, m in enumerate([["hookl"], ["hookl", "thrl"], ["hookl", "thrcbt"], ["hookl", "thrcbf"], ["hookl", "thrl", "thrl"],
                               ["hookl", "thrl", "thrcbt"], ["hookl", "thrcbt", "thrcbf"]]):
            conc("xh%d" % i, m, nemit=2, form="lvalue" if i % 2 else "rvalue")
            if len(m) <= 2:
                fine("yh%d" % i, m, nemit=2, form="lvalue" if i % 2 else "rvalue")
        conc("xh7", ["hookl", "thrl"], nemit=3)
        fine("yh7", ["hookl", "thrl", "thrcbt"], nemit=1)
        fine("y3a", ["prel", "thrl", "thrcbt"], nemit=2)
        fine("y3b", ["thrl", "thrl", "precbt"], nemit=1)
        fine("y3c", ["thrl", "thrcbf", "thrcbt"], nemit=1, form="lvalue")
    run_jobs(ctx, jobs)
    ctx.assume("the collector is called by one thread at a time (documented as not MT safe, signal.h:91,243); "
               "listeners do not call the collector or drop handles themselves")
    ctx.assume("delivery of every value (AllWaitingGetIt, ReAwaitMissesNone, NoDanglingRead) is claimed for the documented "
               "discipline (Strict): before the next collector call / the destruction of the last handle / the end of a "
               "variable passed by lvalue reference, the suspend point of the previous call has been released and the "
               "released listeners have run -- always so for a suspend point discarded on a normal thread or co_awaited; "
               "inside a coroutine a discarded suspend point only queues the listeners (suspend_point.h:27-30), and a "
               "listener that is resumed later reads the value current at that time (modelled and replayed with Strict = FALSE)")
    ctx.assume("reference counting of the shared state (std::shared_ptr control block) is not a scheduling point: handle "
               "copies/destruction are interleaved with subscriptions at the grain of the operations on state::_chain only")
    ctx.assume("compare_exchange_weak does not fail spuriously (x86-64 lock cmpxchg); weak CAS is executed as strong under the controlled scheduler")
    ctx.assume("emitter objects are constructed / assigned only while their listener is not suspended on them; an object that has "
               "been moved from is not used as the source of a copy; a collector object without state is never called "
               "(null dereference); connect() and get_emitter() on signal objects without state are defined by the code "
               "(signal.h:232,298-305) and are part of the histories")
    ctx.assume("value types int, a class with several constructors (Pay), and void; the registration function of hook_up() stores or drops the collector, emits "
               "through it with storing call forms only, or hands it to the collector thread")
