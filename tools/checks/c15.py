"""C15 -- signal: every waiting listener gets every value; disconnect wakes all."""
import os
from concurrent.futures import ThreadPoolExecutor

import vlib
from framework import graph_replay

KCONST = {"loop": "Loop", "gated": "Gated", "cbt": "CbT", "cbonce": "CbOnce", "cbf": "CbF"}
KPREFIX = {"loop": "l", "gated": "g", "cbt": "t", "cbonce": "o", "cbf": "f"}
SEQ_ACTIONS = ["ListenerAwait", "Emit", "ReleaseSP", "StateDtor"]


def names_of(kinds):
    return {"%s%d" % (KPREFIX[k], i + 1): k for i, k in enumerate(kinds)}


def seq_constants(kinds, void, coro, strict, max_emit, max_handles, forms=None):
    nm = names_of(kinds)
    c = {}
    for k, cname in KCONST.items():
        c[cname] = "{" + ", ".join(n for n, kk in nm.items() if kk == k) + "}"
    if void:
        c["Forms"] = '{"void"}'
    else:
        c["Forms"] = "{" + ", ".join('"%s"' % f for f in (forms or ["inplace", "rvalue", "lvalue"])) + "}"
    c["MaxEmit"] = max_emit
    c["MaxHandles"] = max_handles
    c["CoroMode"] = "TRUE" if coro else "FALSE"
    c["Strict"] = "TRUE" if strict else "FALSE"
    return c, nm


def seq_proj(nm):
    cbs = [n for n, k in nm.items() if k.startswith("cb")]

    def pj(st):
        d = {k: st[k] for k in ("refs", "chain", "cur", "stor", "cvar", "held", "sp", "queue", "nemit")}
        d["st"] = st["st"] or {}
        d["received"] = st["received"] or {}
        d["heap"] = sum(1 for c in cbs if st["st"][c] == "waiting")
        d["cblive"] = {c: (1 if st["st"][c] == "waiting" else 0) for c in cbs}
        return d
    return pj


def run_seq(ctx, rp, tag, kinds, void=False, coro=False, strict=False, max_emit=2, max_handles=2, forms=None,
            max_paths=None, extra_random=0, replay=True):
    consts, nm = seq_constants(kinds, void, coro, strict, max_emit, max_handles, forms)
    if not replay:
        cfgp = os.path.join(vlib.BUILD, "%s_%s.cfg" % (ctx.prop, tag))
        vlib.write_cfg(cfgp, open(os.path.join(vlib.VERIF, "spec/Signal/Signal_base.cfg")).read(), consts)
        res = ctx.tlc("Signal", "Signal", cfgp, tag, workers=4)
        if res.violation:
            ctx.tlc_violation(res, "Signal:%s" % tag)
        return res

    def hdr(k, st0):
        return {"void": void, "coro": coro, "pick": k % 4, "kinds": nm}
    must = list(SEQ_ACTIONS)
    if any(k.startswith("cb") for k in kinds):
        must.append("Connect")
    if not any(k in ("loop", "gated") for k in kinds):
        must.remove("ListenerAwait")
    if coro:
        must.append("Yield")
    res, g = graph_replay(ctx, "Signal", "Signal", "Signal_base.cfg", tag, rp, seq_proj(nm), header_fn=hdr,
                          constants=consts, must_take=must, max_paths=max_paths, extra_random=extra_random,
                          tlc_kw={"workers": 4})
    return res


# ---- concurrent part: spec/Signal/SignalConc.tla replayed by harness/signal_conc_replay.cpp ----
CKCONST = {"prel": "PreL", "thrl": "ThrL", "precbt": "PreCbT", "precbf": "PreCbF", "thrcbt": "ThrCbT", "thrcbf": "ThrCbF"}
CKPREFIX = {"prel": "p", "thrl": "l", "precbt": "a", "precbf": "b", "thrcbt": "t", "thrcbf": "f"}
CONC_ACTIONS = ["CXchg", "CDrop"]


def conc_chain(st):
    out = []
    n = st["slot"]
    while n != "null" and len(out) < 10:
        out.append(n)
        n = st["nxt"][n]
    return out


def run_conc(ctx, rpc, tag, kinds, nemit=2, form="rvalue", max_paths=None, extra_random=0):
    nm = {"%s%d" % (CKPREFIX[k], i + 1): k for i, k in enumerate(kinds)}
    consts = {}
    for k, cname in CKCONST.items():
        consts[cname] = "{" + ", ".join(n for n, kk in nm.items() if kk == k) + "}"
    consts["NEmit"] = nemit
    consts["Form"] = '"%s"' % form
    cbs = [n for n, k in nm.items() if "cb" in k]

    def hdr(k, st0):
        return {"form": form, "nemit": nemit, "kinds": nm, "order": list(reversed(conc_chain(st0)))}

    def pj(st):
        lst = st["lst"] or {}
        pend = {"C": st["cpc"]}
        pend.update(st["tpc"] or {})
        return {
            "chain": conc_chain(st), "refs": st["refs"], "cur": st["cur"], "stor": st["stor"], "cvar": st["cvar"],
            "lst": lst, "received": st["received"] or {}, "pend": pend, "casn": st["casn"],
            "exp": {l: st["nxt"][l] for l in lst if lst[l] == "casing"},
            "cblive": {c: (1 if lst[c] in ("casing", "waiting", "out") else 0) for c in cbs},
        }
    must = list(CONC_ACTIONS)
    if nemit > 0:
        must.append("CEmit")
    if any(k.startswith("thr") for k in kinds):
        must += ["TStart", "TCas"]
    res, g = graph_replay(ctx, "Signal", "SignalConc", "SignalConc_base.cfg", tag, rpc, pj, header_fn=hdr,
                          constants=consts, must_take=must, max_paths=max_paths, extra_random=extra_random,
                          tlc_kw={"workers": 4})
    return res


def run_jobs(ctx, jobs, par=3):
    errs = []

    def one(j):
        if len(ctx.violations) >= 3:
            return
        try:
            j()
        except Exception as e:   # re-raised in the main thread
            errs.append(e)
    with ThreadPoolExecutor(max_workers=par) as ex:
        list(ex.map(one, jobs))
    if errs:
        raise errs[0]


def run(ctx):
    rp = vlib.compile_harness(os.path.join(vlib.VERIF, "harness/signal_replay.cpp"), "signal_replay",
                              sanitize=not ctx.quick)
    rpc = vlib.compile_harness(os.path.join(vlib.VERIF, "harness/signal_conc_replay.cpp"), "signal_conc_replay",
                               sanitize=not ctx.quick)
    jobs = []

    def seq(tag, kinds, **kw):
        jobs.append(lambda: run_seq(ctx, rp, tag, kinds, **kw))

    def conc(tag, kinds, **kw):
        jobs.append(lambda: run_conc(ctx, rpc, tag, kinds, **kw))
    if ctx.quick:
        ctx.exhaustive = False
        seq("n_lgo", ["loop", "gated", "cbonce"], max_emit=2, max_paths=400, extra_random=100)
        seq("c_lgt", ["loop", "gated", "cbt"], coro=True, max_emit=2, max_paths=400, extra_random=100)
        conc("x_plt", ["prel", "thrl", "thrcbt"], nemit=2)
    else:
        seq("n_lgo", ["loop", "gated", "cbonce"], max_emit=3)
    run_jobs(ctx, jobs)
