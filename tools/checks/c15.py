"""C15 -- signal: every waiting listener gets every value; disconnect wakes all."""
import os
from concurrent.futures import ThreadPoolExecutor

import vlib
from framework import graph_replay

KCONST = {"loop": "Loop", "gated": "Gated", "cbt": "CbT", "cbonce": "CbOnce", "cbf": "CbF"}
KPREFIX = {"loop": "l", "gated": "g", "cbt": "t", "cbonce": "o", "cbf": "f"}
SEQ_ACTIONS = ["ListenerAwait", "Emit", "ReleaseSP", "StateDtor"]


def names_of(kinds):
    return {"%s%d" % (KPREFIX[k], i + 1): k for i, k in enumerate(kinds)}


def seq_constants(kinds, void, coro, strict, max_emit, max_handles, forms=None):
    nm = names_of(kinds)
    c = {}
    for k, cname in KCONST.items():
        c[cname] = "{" + ", ".join(n for n, kk in nm.items() if kk == k) + "}"
    if void:
        c["Forms"] = '{"void"}'
    else:
        c["Forms"] = "{" + ", ".join('"%s"' % f for f in (forms or ["inplace", "rvalue", "lvalue"])) + "}"
    c["MaxEmit"] = max_emit
    c["MaxHandles"] = max_handles
    c["CoroMode"] = "TRUE" if coro else "FALSE"
    c["Strict"] = "TRUE" if strict else "FALSE"
    return c, nm


def seq_proj(nm):
    cbs = [n for n, k in nm.items() if k.startswith("cb")]

    def pj(st):
        d = {k: st[k] for k in ("refs", "chain", "cur", "stor", "cvar", "held", "sp", "queue", "nemit")}
        d["st"] = st["st"] or {}
        d["received"] = st["received"] or {}
        d["heap"] = sum(1 for c in cbs if st["st"][c] == "waiting")
        d["cblive"] = {c: (1 if st["st"][c] == "waiting" else 0) for c in cbs}
        return d
    return pj


def run_seq(ctx, rp, tag, kinds, void=False, coro=False, strict=False, max_emit=2, max_handles=2, forms=None,
            max_paths=None, extra_random=0, replay=True):
    consts, nm = seq_constants(kinds, void, coro, strict, max_emit, max_handles, forms)
    if not replay:
        cfgp = os.path.join(vlib.BUILD, "%s_%s.cfg" % (ctx.prop, tag))
        vlib.write_cfg(cfgp, open(os.path.join(vlib.VERIF, "spec/Signal/Signal_base.cfg")).read(), consts)
        res = ctx.tlc("Signal", "Signal", cfgp, tag, workers=4)
        if res.violation:
            ctx.tlc_violation(res, "Signal:%s" % tag)
        return res

    def hdr(k, st0):
        return {"void": void, "coro": coro, "pick": k % 4, "kinds": nm}
    must = list(SEQ_ACTIONS)
    if any(k.startswith("cb") for k in kinds):
        must.append("Connect")
    if not any(k in ("loop", "gated") for k in kinds):
        must.remove("ListenerAwait")
    if coro:
        must.append("Yield")
    res, g = graph_replay(ctx, "Signal", "Signal", "Signal_base.cfg", tag, rp, seq_proj(nm), header_fn=hdr,
                          constants=consts, must_take=must, max_paths=max_paths, extra_random=extra_random,
                          tlc_kw={"workers": 4})
    return res


def run_jobs(ctx, jobs, par=3):
    errs = []

    def one(j):
        if len(ctx.violations) >= 3:
            return
        try:
            j()
        except Exception as e:   # re-raised in the main thread
            errs.append(e)
    with ThreadPoolExecutor(max_workers=par) as ex:
        list(ex.map(one, jobs))
    if errs:
        raise errs[0]


def run(ctx):
    rp = vlib.compile_harness(os.path.join(vlib.VERIF, "harness/signal_replay.cpp"), "signal_replay",
                              sanitize=not ctx.quick)
    jobs = []

    def seq(tag, kinds, **kw):
        jobs.append(lambda: run_seq(ctx, rp, tag, kinds, **kw))
    if ctx.quick:
        ctx.exhaustive = False
        seq("n_lgo", ["loop", "gated", "cbonce"], max_emit=2, max_paths=400, extra_random=100)
        seq("c_lgt", ["loop", "gated", "cbt"], coro=True, max_emit=2, max_paths=400, extra_random=100)
    else:
        seq("n_lgo", ["loop", "gated", "cbonce"], max_emit=3)
    run_jobs(ctx, jobs)
