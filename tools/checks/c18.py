"""C18 -- callback adapters fire exactly once with the right outcome and release their helper once.

spec/Adapters/Adapters.tla models callback_await / callback_await_alloc, make_promise (heap / storage),
discard, call_fn_future_awaiter and the six future_conv forms: the self-owning helper object, the awaited
future's protocol words (owner / slot / stored result, as in Future.tla), the callback invocation count and
the outcome it received, the allocation observables (heap blocks, storage alloc/dealloc, busy flag, live
functor instances) and the converters' outer future.  The static choices (adapter x allocator x converter
behaviour x To=void x registration syntax) are picked in Init, so one TLC run covers all of them.

  Adapters_seq.cfg   Grain = "call": Register(before|after, outcome) / Resolve(outcome), two awaited
                     operations per scenario (reuse of helper and storage), replayed on one real thread
  Adapters_conc.cfg  Grain = "atomic": registering thread x one resolver, every interleaving of
                     Check/Cas/Fence with Claim/Swap, replayed on real threads under vsched
  Adapters_race.cfg  the same with two competing resolvers (value / exception / drop against each other)
  thorough: Adapters_seq3.cfg (three operations per scenario), Adapters_race_full.cfg (all four allocators),
                     full edge cover everywhere, replayer built with ASan/UBSan
  Adapters_fine.cfg  Grain = "fine": registering thread x one resolver with the atomic operation and the plain
                     code after it as separate steps (vsched yield_after); PublishedResumable
                     (thorough: Adapters_fine_full.cfg two resolvers, Adapters_fine_ctx.cfg one resolver x all contexts)
  Adapters_pinned.cfg / _armlate.cfg / _argsbyref.cfg / _unwind.cfg  property self-tests: FixVoidSrc = FALSE,
                     ArmLate = {discard}, ArgsByRef = TRUE, SkipUnwinding = {mkprom} must violate
                     ConvertedValueOrException / PublishedResumable / ArgsAsPassed / CallbackOnce
Execution context (s.cx; RegCtxs / ResCtxs): every registering call and every resolution is made in ordinary
control flow, in the destructor of an RAII guard during stack unwinding, inside a catch handler (exception outcome =
the handled exception, p(current_exception()) / p.unhandled_exception()); a broken promise additionally by the
promise's destructor at the end of its scope and as a local destroyed by an exception leaving the scope (~promise:
plain load of _owner, future.h:600-603, also under the controlled scheduler with one resolver).
Sequential scenarios additionally: outcome "fthrow" (FactoryFail) = the factory given to `adapter << factory`
(call_fn_future_awaiter, future_conv both forms) throws instead of returning a future: the exception is the operation's
outcome (future::result_of); resolution context "assign" = another promise (empty / of another future) is
move-assigned into the promise variable that still holds the unresolved target (promise::operator=(promise&&) must
drop it: completion once with the no-value outcome, helper freed).
The sequential scenarios run from ordinary code (ctx "plain") and from inside a running coroutine (ctx "coro": the
helper coroutine of callback_await is queued and starts at Yield); callback_await's awaitable argument is passed as
a temporary, an lvalue and a moved named object (tracked: destruction / move poison it; ArgsAsPassed).

The specification describes the repaired behaviour of the void-source converters (FixVoidSrc = TRUE): they
deliver the source's exception / broken promise to the outer future, as the property demands."""
import contextlib
import json
import os
import re
from collections import deque

import vlib
from framework import graph_replay
from vlib import MachineryError

MEMBER = ("callfn",)
VOID_SRC_CONV = ("conv_mem_v", "conv_pp_v")
KEY_VOID_SRC = "future_conv_void_source_ignores_source_outcome"


def is_conv(ad):
    return ad.startswith("conv_")


def proj_common(st):
    par, s = st["par"], st["s"]
    ad = par["ad"]
    alive = s["round"] > 0 if (ad in MEMBER or is_conv(ad)) else s["hlive"] == 1
    if alive and s["slot"] != "none":
        src = {"slot": s["slot"], "armed": s["slot"] == "helper" and s["armed"], "tag": s["tag"], "v": s["payload"]}
    else:
        # the helper (and the future in it) is gone, or its awaitable is not built yet (helper only queued)
        src = {"slot": "gone", "armed": False, "tag": "none", "v": 0}
    stor = {}
    if par["alloc"] == "reusable":
        stor = {"cap": s["blk"] == 1}
    elif par["alloc"] == "mtsafe":
        stor = {"cap": s["blk"] == 1, "busy": s["busy"]}
    elif par["alloc"] == "counting":
        stor = {"a": s["stA"], "d": s["stD"], "bad": 0}
    out = {"round": s["round"], "src": src, "args": s["badargs"], "calls": s["calls"], "got": s["got"], "heap": s["heap"],
           "news": s["news"], "cb": s["cb"], "st": stor}
    if is_conv(ad):
        out["prom"] = s["prom"]
        out["outer"] = s["outer"]
        out["user"] = s["user"]
    return out


def proj_seq(st):
    return proj_common(st)


def proj_conc(st):
    out = proj_common(st)
    s = st["s"]
    out["owner"] = s["owner"]
    out["by"] = s["by"]
    pend = {"a": s["apc"]}
    pend.update(s["rpc"])
    out["pend"] = pend
    out["res"] = dict(s["rres"])
    return out


def header(mode, fine=False):
    def hdr(k, st0):
        par = st0["par"]
        h = {"mode": mode, "fine": fine, "ctx": par["ctx"], "argk": par["argk"], "ad": par["ad"], "alloc": par["alloc"], "cv": par["cv"], "reg": par["reg"],
             "tovoid": par["tovoid"], "k": k}
        if mode == "conc":
            h["rk"] = dict(st0["s"]["rk"])
            h["cx"] = dict(st0["s"]["cx"])
        return h
    return hdr


def cover_by_init(per_init_cap):
    """Edge cover of a forest of small DAGs (one per initial state = per parameter combination): every
    initial state gets its own root-to-terminal paths, so a cap on the number of paths thins out the
    interleavings of every combination instead of dropping combinations."""
    def cover(g, rng, max_paths=None, full=True, max_len=400, want_terminal=True):
        out = {n: [(l, d) for (l, d) in es if d != n] for n, es in g.edges.items()}
        total = sum(len(v) for v in out.values())
        covered = set()
        paths = []
        for init in g.init:
            npaths = 0
            while per_init_cap is None or npaths < per_init_cap:
                cur, steps, progressed = init, [], False
                while out[cur] and len(steps) < max_len:
                    unc = [i for i in range(len(out[cur])) if (cur, i) not in covered]
                    if unc:
                        i = rng.choice(unc)
                        covered.add((cur, i))
                        progressed = True
                        steps.append(out[cur][i])
                        cur = out[cur][i][1]
                        continue
                    # nearest node below with an uncovered out-edge
                    prev = {cur: None}
                    dq = deque([cur])
                    target = None
                    while dq and target is None:
                        n = dq.popleft()
                        for i, (l, d) in enumerate(out[n]):
                            if d not in prev:
                                prev[d] = (n, i)
                                if any((d, j) not in covered for j in range(len(out[d]))):
                                    target = d
                                    break
                                dq.append(d)
                    if target is None:
                        # nothing new below: finish at a terminal state
                        i = rng.randrange(len(out[cur]))
                        steps.append(out[cur][i])
                        cur = out[cur][i][1]
                        continue
                    seg = []
                    n = target
                    while prev[n] is not None:
                        p, i = prev[n]
                        seg.append(out[p][i])
                        n = p
                    seg.reverse()
                    steps += seg
                    cur = target
                if not progressed and npaths > 0:
                    break
                paths.append((init, steps))
                npaths += 1
                if not progressed:
                    break
        return paths, len(covered), total
    return cover


@contextlib.contextmanager
def swapped_cover(fn):
    """graph_replay looks vlib.cover_paths up at call time; swapped for the duration of our calls only"""
    old = vlib.cover_paths
    vlib.cover_paths = fn
    try:
        yield
    finally:
        vlib.cover_paths = old


def key_fn(sid, line, txt):
    """stable key of a divergence: the void-source converter defect is recognised by what diverged"""
    m = re.search(r"^BEGIN \S+ (\{.*\})$", txt, re.M)
    ad = ""
    if m:
        try:
            ad = json.loads(m.group(1)).get("ad", "")
        except ValueError:
            pass
    if ad in VOID_SRC_CONV:
        me = re.search(r'expected=.*?"outer":\{"st":"(excsrc|canceled)"', line)
        mg = re.search(r'got=.*?"outer":\{"st":"(\w+)"', line)
        if me and mg and mg.group(1) not in ("excsrc", "canceled", "pending"):
            return KEY_VOID_SRC
    if line == "crash":
        return "crash:Adapters:%s" % ad
    return "diverge:Adapters:%s:%s" % (ad, re.sub(r"^DIVERGE \S+ ", "", line)[:60])


SEQ_ACTIONS = ["Register", "Resolve", "Yield", "UserResolve"]
CONC_ACTIONS = ["Start", "Check", "Cas", "Fence", "Claim", "Swap", "UserResolve"]
FINE_ACTIONS = ["FStart", "FCheck", "PostCheck", "FCas", "PostCas", "FFence", "PostFence", "FClaim", "PostClaim", "FSwap",
                "PostSwap", "UserResolve"]


def expect_violation(ctx, cfg, invariant, what):
    """property self-test: a variant of the specification that describes a seeded defect must be rejected"""
    sd = os.path.join(vlib.VERIF, "spec", "Adapters")
    res = vlib.run_tlc(sd, "Adapters", os.path.join(sd, cfg), "C18_" + cfg[:-4], workers=2, coverage=False)
    if res.violated_name != invariant:
        raise MachineryError("property self-test: %s (%s) does not violate %s: %s"
                             % (cfg, what, invariant, (res.violation or res.error or "")[-400:]))
    ctx.extra.setdefault("unrepaired_variants_rejected", []).append(
        {"variant": what, "violated": res.violated_name, "trace_len": len(res.trace), "states": res.distinct})


def run(ctx):
    import time
    t0 = [time.monotonic()]

    def lap(name):   # development aid only (reporting, never part of the verdict)
        if os.environ.get("VERIF_C18_TIMES"):
            now = time.monotonic()
            print("C18 phase %s: %.1f s" % (name, now - t0[0]))
            t0[0] = now
    rp = vlib.compile_harness(os.path.join(vlib.VERIF, "harness/adapters_replay.cpp"), "adapters_replay",
                              sanitize=not ctx.quick)
    kw = {"workers": 4}
    lap("compile")
    # every (adapter x outcome x sequential timing x allocator) combination, two (thorough: three) operations per scenario
    with swapped_cover(cover_by_init(None)):
        graph_replay(ctx, "Adapters", "Adapters", "Adapters_seq.cfg" if ctx.quick else "Adapters_seq3.cfg", "seq", rp,
                     proj_seq, header_fn=header("seq"),
                     must_take=SEQ_ACTIONS, key_fn=key_fn, tlc_kw=kw)
    lap("seq")
    # concurrent timing, one resolver: full edge cover (small)
    with swapped_cover(cover_by_init(None)):
        graph_replay(ctx, "Adapters", "Adapters", "Adapters_conc.cfg", "conc", rp, proj_conc, header_fn=header("conc"),
                     must_take=CONC_ACTIONS, key_fn=key_fn, tlc_kw=kw)
    lap("conc")
    # concurrent timing, two competing resolvers: capped per combination in quick
    with swapped_cover(cover_by_init(6 if ctx.quick else None)):
        graph_replay(ctx, "Adapters", "Adapters", "Adapters_race.cfg" if ctx.quick else "Adapters_race_full.cfg", "race", rp,
                     proj_conc, header_fn=header("conc"),
                     must_take=CONC_ACTIONS, key_fn=key_fn, tlc_kw=kw)
    lap("race")
    # finest grain (vsched yield_after): the atomic operation and the plain code after it are separate steps, so
    # plain code on the wrong side of an atomic operation (a node published before it is armed) is exposed
    with swapped_cover(cover_by_init(None)):
        graph_replay(ctx, "Adapters", "Adapters", "Adapters_fine.cfg" if ctx.quick else "Adapters_fine_full.cfg", "fine", rp,
                     proj_conc, header_fn=header("conc", fine=True),
                     must_take=FINE_ACTIONS, key_fn=key_fn, tlc_kw=kw, max_paths=None)
    if not ctx.quick:
        # finest grain x every execution context (one resolver: a promise destroyed by its scope has one user)
        with swapped_cover(cover_by_init(None)):
            graph_replay(ctx, "Adapters", "Adapters", "Adapters_fine_ctx.cfg", "finectx", rp,
                         proj_conc, header_fn=header("conc", fine=True),
                         must_take=FINE_ACTIONS, key_fn=key_fn, tlc_kw=kw, max_paths=None)
    lap("fine")
    # property self-tests: specification variants that describe known / seeded defects must be rejected
    expect_violation(ctx, "Adapters_pinned.cfg", "ConvertedValueOrException", "FixVoidSrc=FALSE")
    expect_violation(ctx, "Adapters_armlate.cfg", "PublishedResumable", "ArmLate={discard}")
    expect_violation(ctx, "Adapters_argsbyref.cfg", "ArgsAsPassed", "ArgsByRef=TRUE")
    expect_violation(ctx, "Adapters_unwind.cfg", "CallbackOnce", "SkipUnwinding={mkprom}")
    lap("selftests")
    ctx.assume("compare_exchange_weak does not fail spuriously (x86-64 lock cmpxchg); weak CAS is executed as strong "
               "under the controlled scheduler")
    ctx.assume("scheduling points of the concurrent replays are the atomic operations on the awaited future's slot and "
               "on its promise's owner word plus the subscribe fence; operations on objects used by one thread at a "
               "time (outer future and parked promise of a converter, storage busy flag, promise hand-over) run "
               "inside the step")
    ctx.assume("adapters are invoked from ordinary code and (sequential timings) from inside a running coroutine whose "
               "ready queue runs at explicit Yield steps; the concurrent timings are invoked from plain threads; user "
               "callbacks and converters do not throw out of the callback except the converters' modelled exception")
    ctx.assume("execution contexts: registration and resolution in ordinary control flow, in an RAII guard's destructor "
               "during stack unwinding and inside a catch handler; a promise that is destroyed instead of called (end of "
               "scope / local destroyed by unwinding; ~promise is a load, not an exchange) is used by that one thread "
               "only.  quick tier: all contexts in the sequential scenarios and with one resolver at the atomic grain; two "
               "competing resolvers in ordinary control flow (thorough: also guard)")
    ctx.assume("sequentially consistent interleavings; memory-order effects of the future protocol are C03's subject")
