"""C13 -- generator: the consumer sees exactly the yielded sequence, in every access style.

spec/Generator/Generator.tla enumerates (body script, consumer script) pairs lazily; every root-to-terminal path
of the dumped state graph is one pair with its execution and is replayed on the real generator<V> / generator<V,A>
(V, A: tracked payload types) by harness/generator_replay.cpp (each path in several consumer implementations)."""
import json
import os
import re

import vlib
from framework import graph_replay

# internal specification actions are part of the public call that contains them
MERGE = r"(BodyResume|BodyStep|FinalSuspend|YieldSuspend|UnblockSync|UnblockFuture|ResumeAwt|SyncReturn)$"
KEEP = ("alive", "bscript", "bst", "cscript", "got", "it", "loc", "obs", "par")
THROWS = ("throw", "thr_nomore", "thr_cancel", "thr_notready", "thr_nolonger", "thr_nonstd")
SYNC_STEPS = ("yield", "yt", "yv", "ym", "ynull", "return") + THROWS
KEY_POSTINC = "iterator_postincrement_moves_item"     # known finding, fixed in /repo 97856c3


def proj(st):
    d = {k: st[k] for k in KEEP}
    if st["alive"]:
        p = dict(st["pr"])
        # _ret is only dereferenceable while the body is parked at the co_yield it belongs to
        if p["ret"] != 0 and st["bst"] != "yield":
            p["ret"] = -1
        d["pr"] = p
    else:
        d["pr"] = {}     # the record died with the coroutine frame
    # C20: as long as the body is synchronous no access allocates (operator new calls made inside the accesses,
    # counted by the replayer; the coroutine frames are created outside)
    if all(k in SYNC_STEPS for k in st["bscript"]):
        d["allocs"] = 0
    # payload: copy / move constructions of the yielded type so far, none at all of the argument type, the body's own
    # variable while it exists, and the public view gen.value() of the item the body is parked at
    pay = st["pay"]
    d["cp"] = pay["cp"]
    # the other generators replaced by object-level operations: RAII local constructed / destroyed, live parameters
    d["aux"] = {"ctor": pay["octor"], "dtor": pay["odtor"], "par": 0}
    d["aops"] = 0
    body_var = st["bst"] in ("yield", "await")
    d["var"] = {"id": pay["var"] if body_var else 0, "m": pay["moved"] if body_var else False}
    d["val"] = st["pr"]["ret"] if (st["alive"] and st["bst"] == "yield") else 0
    # the consumer's kept next() object: its cached flag _state ("stale": still true)
    d["nx"] = "item" if st["nx"] == "stale" else st["nx"]
    return d


def key_fn(sid, line, txt):
    """stable key of a divergence: it++ moving the item out of the yielded object (instead of copying it) is
    recognised by what diverged -- at a post-increment the implementation made no copy of the item (and the body's
    variable, if that was the item, is gutted)"""
    m = re.search(r'action=NextSync\("postinc"\) expected=(\{.*\}) got=(\{.*\})$', line)
    if m:
        try:
            e, g = json.loads(m.group(1)), json.loads(m.group(2))
            if g.get("cp", 0) < e.get("cp", 0):
                return KEY_POSTINC
        except ValueError:
            pass
    if line == "crash":
        return "crash:Generator"
    return "diverge:Generator:%s" % re.sub(r"^DIVERGE \S+ ", "", line)[:80]


def dag_cover_paths(g, rng, max_paths=None, full=True, max_len=400, want_terminal=True):
    """edge cover of an acyclic state graph by root-to-terminal paths, linear in the size of the
    result (vlib.cover_paths searches breadth-first for the nearest uncovered edge from every path
    start, which is quadratic on the tree-shaped graphs lazy program enumeration produces)"""
    outs = {n: [(l, d) for (l, d) in es if d != n] for n, es in g.edges.items()}
    total = sum(len(v) for v in outs.values())
    covered = set()
    clean = set()

    def dirty(n):
        # an uncovered edge is reachable from n (iterative DFS; `clean` only grows)
        stack = [(n, 0)]
        while stack:
            m, i = stack.pop()
            if m in clean:
                continue
            es = outs[m]
            found = False
            while i < len(es):
                if (m, i) not in covered:
                    return True
                d = es[i][1]
                if d not in clean:
                    stack.append((m, i + 1))
                    stack.append((d, 0))
                    found = True
                    break
                i += 1
            if not found:
                clean.add(m)
        return False

    paths = []
    inits = list(g.init)
    while len(covered) < total:
        if max_paths is not None and len(paths) >= max_paths:
            break
        cand = [r for r in inits if dirty(r)]
        if not cand:
            break
        cur = rng.choice(cand)
        init = cur
        steps = []
        while outs[cur] and len(steps) < max_len:
            es = outs[cur]
            unc = [i for i in range(len(es)) if (cur, i) not in covered]
            if unc:
                i = rng.choice(unc)
            else:
                dd = [i for i in range(len(es)) if dirty(es[i][1])]
                i = rng.choice(dd) if dd else 0
            covered.add((cur, i))
            steps.append(es[i])
            cur = es[i][1]
        paths.append((init, steps))
    return paths, len(covered), total


def replay(*a, **kw):
    """graph_replay with the linear path cover (framework.graph_replay looks cover_paths up in vlib at call time;
    the shared function is put back afterwards)"""
    saved = vlib.cover_paths
    vlib.cover_paths = dag_cover_paths
    try:
        return graph_replay(*a, **kw)
    finally:
        vlib.cover_paths = saved


PAYK = '{"yt", "yv", "ym", "return"}'
THROWK = ", ".join('"%s"' % k for k in THROWS)
S_KEPT = '{"sync", "coawait", "future", "kbool", "kco"}'
S_ALL = '{"sync", "coawait", "future", "begin", "inc", "postinc", "kbool", "kco"}'
PAYK_ASYNC = '{"yt", "yv", "ym", "apend", "return"}'
PAYK_ARG = '{"ynull", "yt", "yv", "ym", "return"}'

COMMON = ["NextSync", "NextFuture", "BodyResume", "BodyStep", "FinalSuspend", "YieldSuspend", "UnblockSync",
          "SyncReturn", "UnblockFuture", "ExternalResolve", "Destroy"]
ASYNC = ["NextAsync", "ResumeAwt"]


def alloc_replay(ctx):
    """C20 hook: stepping a SYNCHRONOUS generator allocates nothing of its own.  Synchronous bodies only (co_yield,
    co_yield nullptr, throw, return), every access style (next()/value(), iterator / range-for, gen() future polled,
    waited, awaited and consumed by a callback awaiter, co_await next(), next().subscribe()); the replayer counts the
    global operator new calls made inside the consumer's accesses (generator_replay.cpp: Win / Pause) and the
    projection fixes that running total at 0 in every state.  Capped edge cover, a few seconds of replay."""
    rp = vlib.compile_harness(vlib.VERIF + "/harness/generator_replay.cpp", "generator_replay", sanitize=not ctx.quick,
                              fallback_defines=["GEN_NO_PRIVATE"])
    nopriv = vlib.compile_harness.last_fallback
    if nopriv:
        ctx.assume("generator replay built WITHOUT the probes of the private hand-over record (the record's representation "
                   "changed and the full harness no longer compiles): public observations and allocations only")
    pj = (lambda st: dict(proj(st), pr={})) if nopriv else proj
    jobs = [("Generator_noarg.cfg", "gen_alloc", False, {"BodyKinds": '{"yield", "throw", "return"}'}),
            ("Generator_arg.cfg", "gen_alloc_arg", True, {"BodyKinds": '{"ynull", "yield", "throw", "return"}'})]
    for (cfg, tag, witharg, consts) in jobs:
        consts = dict(consts)
        consts["EarlyDestroy"] = "FALSE"
        if not ctx.quick:
            consts.update({"MaxBody": "5", "MaxAcc": "5"})

        def hdr(k, st0, witharg=witharg):
            return {"witharg": witharg, "modes": ["native", "coro", "cb"]}
        replay(ctx, "Generator", "Generator", cfg, tag, rp, pj, header_fn=hdr, merge_re=MERGE,
               must_take=["NextSync", "NextAsync", "NextFuture", "BodyStep", "YieldSuspend", "UnblockSync", "UnblockFuture",
                          "ResumeAwt", "FinalSuspend", "Destroy"],
               constants=consts, max_paths=2500 if ctx.quick else None, replay_timeout=900, tlc_kw={"workers": 4},
               key_fn=key_fn)
    ctx.assume("generator: allocations are the global operator new calls made by the consumer's thread inside an access of a "
               "generator whose body is synchronous; the generator's and the consumer coroutines' frames and the consumer's own "
               "future objects are created outside the accesses; an exception thrown by the body is allocated by the C++ runtime "
               "with malloc (__cxa_allocate_exception), not operator new, and is not counted")


def run(ctx):
    rp = vlib.compile_harness(vlib.VERIF + "/harness/generator_replay.cpp", "generator_replay", sanitize=not ctx.quick,
                              fallback_defines=["GEN_NO_PRIVATE"])
    nopriv = vlib.compile_harness.last_fallback
    if nopriv:
        ctx.assume("generator replay built WITHOUT the probes of the private hand-over record (the record's representation "
                   "changed and the full harness no longer compiles): public observations only")
    pj = (lambda st: dict(proj(st), pr={})) if nopriv else proj
    q = ctx.quick
    S3 = '{"sync", "coawait", "future"}'
    pay_thorough = {"BodyKinds": PAYK, "EarlyDestroy": "FALSE", "MaxAfterEnd": 0}
    # (cfg, tag, with argument, replay modes, constant overrides quick, constant overrides thorough); None = tier skips it
    jobs = [
        ("Generator_noarg.cfg", "noarg", False, ["native", "coro", "cb"], {},
         {"MaxBody": 5, "MaxAcc": 5, "MaxAfterEnd": 1}),
        ("Generator_noarg.cfg", "noarg_deep", False, ["native", "coro", "cb"], None,
         {"MaxBody": 6, "MaxAcc": 6, "MaxAfterEnd": 1, "Styles": S3, "BodyKinds": '{"yield", "apend", "throw", "return"}'}),
        ("Generator_arg.cfg", "arg", True, ["native", "coro", "cb"], {},
         {"MaxBody": 5, "MaxAcc": 5}),
        # payload dimension: the body yields temporaries computed from its variable, the variable itself (which it keeps
        # extending) and std::move(variable), in every mix, under every access style
        ("Generator_noarg.cfg", "payload", False, ["native", "coro", "cb"],
         {"BodyKinds": PAYK, "EarlyDestroy": "FALSE", "MaxAfterEnd": 0, "MaxAcc": 3},
         dict(pay_thorough, BodyKinds=PAYK_ASYNC)),
        ("Generator_arg.cfg", "payload_arg", True, ["native", "coro", "cb"],
         {"BodyKinds": PAYK_ARG, "EarlyDestroy": "FALSE", "MaxAfterEnd": 0, "MaxAcc": 3},
         dict(pay_thorough, BodyKinds=PAYK_ARG)),
        # operations on the generator OBJECT between accesses: move construction, move assignment onto an empty / never
        # started / parked / finished target, swap, destruction of the moved-from object, consumption through the new object
        ("Generator_noarg.cfg", "objops", False, ["native", "coro", "cb"],
         {"BodyKinds": '{"yield", "return"}', "Styles": '{"sync", "future", "coawait", "begin", "inc"}', "MaxBody": 3, "MaxAcc": 3,
          "MaxObj": 2, "EarlyDestroy": "FALSE", "MaxAfterEnd": 1},
         {"BodyKinds": '{"yield", "apend", "throw", "return"}', "MaxBody": 4, "MaxAcc": 3, "MaxObj": 2, "EarlyDestroy": "FALSE",
          "MaxAfterEnd": 1}),
        ("Generator_arg.cfg", "objops_arg", True, ["native", "coro", "cb"],
         {"BodyKinds": '{"ynull", "yield", "return"}', "MaxBody": 3, "MaxAcc": 3, "MaxObj": 1, "EarlyDestroy": "FALSE",
          "MaxAfterEnd": 1},
         {"BodyKinds": '{"ynull", "yield", "apend", "return"}', "MaxBody": 4, "MaxAcc": 3, "MaxObj": 2, "EarlyDestroy": "FALSE",
          "MaxAfterEnd": 1}),
        # what leaves the body: an application exception, each of the library's own exception types (the body stepped a
        # finished source once more, read a dropped future, ...), a type outside std::exception -- at every position, read
        # through every access style; ExceptionAtPosition: the access at that position reports THAT exception object
        ("Generator_noarg.cfg", "exckinds", False, ["native", "coro", "cb"],
         {"BodyKinds": '{"yield", %s, "return"}' % THROWK, "Styles": S_ALL, "MaxBody": 3, "MaxAcc": 3, "MaxAfterEnd": 1,
          "EarlyDestroy": "FALSE"},
         {"BodyKinds": '{"yield", "apend", %s, "return"}' % THROWK, "Styles": S_ALL, "MaxBody": 4, "MaxAcc": 4, "MaxAfterEnd": 1,
          "EarlyDestroy": "FALSE"}),
        ("Generator_arg.cfg", "exckinds_arg", True, ["native", "coro", "cb"],
         {"BodyKinds": '{"yield", %s, "return"}' % THROWK, "MaxBody": 2, "MaxAcc": 3, "MaxAfterEnd": 1, "EarlyDestroy": "FALSE"},
         {"BodyKinds": '{"yield", "ynull", "apend", %s, "return"}' % THROWK, "MaxBody": 3, "MaxAcc": 4, "MaxAfterEnd": 1,
          "EarlyDestroy": "FALSE"}),
        # ONE next() object kept by the consumer and reused: co_await of it again and again, conversion to bool then co_await,
        # co_await then conversion (a re-read), mixed with the styles that make a fresh object per access
        ("Generator_noarg.cfg", "kept", False, ["native", "coro", "cb"],
         {"BodyKinds": '{"yield", "apend", "throw", "return"}', "Styles": '{"sync", "future", "kbool", "kco"}', "MaxBody": 4,
          "MaxAcc": 4, "MaxAfterEnd": 1, "EarlyDestroy": "FALSE"},      # (with a fresh co_await next() in between: exckinds)
         {"BodyKinds": '{"yield", "apend", "throw", "thr_nomore", "return"}', "Styles": S_ALL, "MaxBody": 4, "MaxAcc": 5,
          "MaxAfterEnd": 1, "EarlyDestroy": "FALSE"}),
        ("Generator_thr.cfg", "thr", False, ["thr_late", "thr_early"], {},
         {"MaxAcc": 4, "MaxAfterEnd": 2}),
        # the kept next() object on a body that suspends: its conversion really blocks until another thread completes the
        # awaited operation; what leaves the body then leaves it on that other thread
        ("Generator_thr.cfg", "thr_kept", False, ["thr_late", "thr_early"], None,
         {"MaxAcc": 4, "MaxAfterEnd": 1, "Styles": S_KEPT,
          "BodyKinds": '{"yield", "apend", "throw", "thr_nomore", "thr_nonstd", "return"}'}),
        ("Generator_thr.cfg", "thrarg", True, ["thr_late", "thr_early"],
         {"WithArg": "TRUE", "Styles": S3, "BodyKinds": '{"yield", "ynull", "apend", "throw", "return"}'},
         {"WithArg": "TRUE", "Styles": S3, "BodyKinds": '{"yield", "ynull", "apend", "throw", "return"}', "MaxAcc": 4}),
    ]
    only = [t for t in os.environ.get("VERIF_C13_JOBS", "").split(",") if t]     # development aid: run these jobs only
    for (cfg, tag, witharg, modes, cq, ct) in jobs:
        consts = cq if q else ct
        if consts is None or (only and tag not in only):
            continue
        consts = {k: str(v) for k, v in consts.items()}
        pay = tag.startswith("payload")
        must = [a for a in COMMON + ASYNC if a != "ExternalResolve" or "apend" in consts.get("BodyKinds", "apend")]
        if tag.startswith("objops"):
            must = must + ["ObjOp"]
        cap = 6000 if (pay and q) else None

        def hdr(k, st0, witharg=witharg, modes=modes):
            return {"witharg": witharg, "modes": modes}
        res, g = replay(ctx, "Generator", "Generator", cfg, tag, rp, pj, header_fn=hdr, merge_re=MERGE,
                        must_take=must, constants=consts or None, max_paths=cap, replay_timeout=3000, tlc_kw={"workers": 4},
                        key_fn=key_fn)
        # vacuity guard for the forms a job exists for: every throw kind / both uses of the kept object were generated
        want = []
        if tag.startswith("exckinds"):
            want = ['BodyStep("%s")' % k for k in THROWS]
        elif tag == "kept":
            want = ['NextSync("kbool")', 'NextAsync("kco")']
        if g is not None and want:
            have = set(l for es in g.edges.values() for (l, d) in es)
            missing = [l for l in want if l not in have]
            if missing:
                raise vlib.MachineryError("vacuous model %s: steps never generated: %s" % (tag, missing))
    # self-test of the specification: with it++ modelled as it was before 97856c3 (moving the item out) TLC must report the
    # payload invariant violated -- otherwise "the body's variable stays intact" would be vacuous
    path = os.path.join(vlib.BUILD, "%s_postinc_selftest.cfg" % ctx.prop)
    vlib.write_cfg(path, open(os.path.join(vlib.VERIF, "spec/Generator/Generator_noarg.cfg")).read(),
                   {"PostIncMoves": "TRUE", "BodyKinds": PAYK, "EarlyDestroy": "FALSE"})
    res = vlib.run_tlc(os.path.join(vlib.VERIF, "spec/Generator"), "Generator", path, "%s_postinc_selftest" % ctx.prop, workers=2,
                       coverage=False)
    if not (res.violation and "PayloadIntact" in res.violation):
        raise vlib.MachineryError("specification self-test failed: PostIncMoves=TRUE does not violate PayloadIntact (%s)"
                                  % (res.violation or res.error or "no violation"))
    if not q and not only:
        # larger bounds on the specification alone (all invariants, no replay)
        for (cfg, tag) in (("Generator_noarg.cfg", "noarg_big"), ("Generator_arg.cfg", "arg_big")):
            path = os.path.join(vlib.BUILD, "%s_%s.cfg" % (ctx.prop, tag))
            vlib.write_cfg(path, open(os.path.join(vlib.VERIF, "spec/Generator", cfg)).read(),
                           {"MaxBody": "6", "MaxAcc": "6", "MaxAfterEnd": "1"})
            res = ctx.tlc("Generator", "Generator", path, tag, workers=4)
            if res.violation:
                ctx.tlc_violation(res, "Generator:" + tag)
    ctx.assume("payload: a tracked copyable value type (content, moved-from flag, copy/move/live counters; non-trivial but not "
               "allocating); the n-th co_yield yields content n, or var*10+n when it is computed from / is the body's own variable; "
               "access i passes a tracked argument with content 100+i; the k-th awaited operation completes with k; a value type "
               "that cannot be copied (where it++ legitimately moves the item out) is not exercised")
    ctx.assume("library preconditions respected by the history generator: no access while another one is outstanding, arguments "
               "are lvalues that outlive the access, ++ only on an iterator that is not at the end, it++ only on a dereferenceable "
               "iterator, the generator is destroyed only while parked (before first activation, at a co_yield, after the end)")
    ctx.assume("single-threaded histories never let a blocking access wait for an operation only the same thread could complete; "
               "blocking accesses on a pending body are replayed with a second thread under the controlled scheduler in two "
               "orders (consumer released before / after the completing thread has returned); finer interleavings inside "
               "future resolution belong to C02")
