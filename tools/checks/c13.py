"""C13 -- generator: the consumer sees exactly the yielded sequence, in every access style."""
import vlib
from framework import graph_replay

# internal specification actions are part of the public call that contains them
MERGE = r"(BodyResume|BodyStep|FinalSuspend|YieldSuspend|UnblockSync|UnblockFuture|ResumeAwt|SyncReturn)$"
KEEP = ("alive", "bscript", "bst", "cscript", "got", "it", "loc", "obs", "par")


def proj(st):
    d = {k: st[k] for k in KEEP}
    if st["alive"]:
        p = dict(st["pr"])
        # _ret is only dereferenceable while the body is parked at the co_yield it belongs to
        if p["ret"] != 0 and st["bst"] != "yield":
            p["ret"] = -1
        d["pr"] = p
    else:
        d["pr"] = {}     # the record died with the coroutine frame
    return d


COMMON = ["NextSync", "NextFuture", "BodyResume", "BodyStep", "FinalSuspend", "YieldSuspend", "UnblockSync",
          "SyncReturn", "UnblockFuture", "ExternalResolve", "Destroy"]
ASYNC = ["NextAsync", "ResumeAwt"]


def run(ctx):
    rp = vlib.compile_harness(vlib.VERIF + "/harness/generator_replay.cpp", "generator_replay", sanitize=not ctx.quick)
    q = ctx.quick
    # (cfg, tag, with argument, modes, must_take, deeper constants for the thorough tier, quick path cap)
    jobs = [
        ("Generator_noarg.cfg", "noarg", False, ["native", "coro"], COMMON + ASYNC,
         {"MaxBody": 5, "MaxAcc": 5}, 4000),
        ("Generator_arg.cfg", "arg", True, ["native", "coro"], COMMON + ASYNC,
         {"MaxBody": 5, "MaxAcc": 5}, 3000),
        ("Generator_thr.cfg", "thr", False, ["thr_late", "thr_early"], COMMON + ASYNC,
         {"MaxAcc": 4, "MaxAfterEnd": 2}, 1200),
        ("Generator_thr.cfg", "thrarg", True, ["thr_late", "thr_early"], COMMON + ASYNC,
         {"MaxAcc": 4}, 600),
    ]
    for (cfg, tag, witharg, modes, must, deep, cap) in jobs:
        consts = {}
        if tag == "thrarg":
            consts.update({"WithArg": "TRUE", "Styles": '{"sync", "coawait", "future"}',
                           "BodyKinds": '{"yield", "ynull", "apend", "throw", "return"}'})
        if not q:
            consts.update({k: str(v) for k, v in deep.items()})

        def hdr(k, st0, witharg=witharg, modes=modes):
            return {"witharg": witharg, "modes": modes}
        graph_replay(ctx, "Generator", "Generator", cfg, tag, rp, proj, header_fn=hdr, merge_re=MERGE,
                     must_take=must, constants=consts or None, max_paths=cap if q else None,
                     extra_random=300 if q else 0, replay_timeout=3000)
    ctx.assume("values are ints: the n-th co_yield yields n, the i-th access passes 100+i, the k-th awaited operation completes with k")
    ctx.assume("library preconditions respected by the history generator: no access while another one is outstanding, arguments "
               "are lvalues that outlive the access, ++ only on an iterator that is not at the end, it++ only on a dereferenceable "
               "iterator, the generator is destroyed only while parked (before first activation, at a co_yield, after the end)")
    ctx.assume("single-threaded histories never let a blocking access wait for an operation only the same thread could complete; "
               "blocking accesses on a pending body are replayed with a second thread under the controlled scheduler in two "
               "orders (consumer released before / after the completing thread has returned); finer interleavings inside "
               "future resolution belong to C02")
