"""C07 -- coroutine mutex: mutual exclusion and exactly-once grant."""
from checks import mutexlib as ml


def jobs_for(ctx):
    two = [["co", "co"], ["co", "bl"], ["bl", "bl"], ["co", "try"], ["bl", "try"]]
    three = [["co", "co", "co"], ["co", "co", "bl"], ["co", "bl", "bl"], ["co", "co", "try"], ["bl", "bl", "bl"], ["co", "bl", "try"]]
    four = [["co", "co", "co", "co"], ["co", "co", "bl", "try"], ["co", "bl", "bl", "co"]]
    if ctx.quick:
        return two + three[: 3] + [three[3 + ctx.seed % 3]]
    return two + three + four


def run(ctx):
    import os
    rp = ml.build(ctx)
    jobs = jobs_for(ctx)
    if ctx.quick:
        ctx.exhaustive = False
    # several mutex objects used at the same time, holder slots that are re-assigned, callback requests whose owner runs
    # nested in the hand-off (MutexMulti.tla; sequential, runs next to the finest-grain mixes)
    wait_multi = ml.start_multi(ctx, ml.MULTI_QUICK[:2] if ctx.quick else ml.MULTI_QUICK + ml.MULTI_MORE, nvariants=3 if ctx.quick else 5)
    if not os.environ.get("ONLY_ROUNDS"):
        ml.run_mixes(ctx, rp, jobs, max_paths=500 if ctx.quick else 20000)
    # several rounds per party (ownership and awaiter objects reused), run-queue hand-over, release on a helper thread
    ml.run_rounds_all(ctx, rp, ml.ROUNDS_QUICK if ctx.quick else ml.ROUNDS_QUICK + ml.ROUNDS_MORE, max_paths=400 if ctx.quick else 6000)
    # code -> spec: random schedules of mixes beyond the dumpable bound, validated as traces by TLC
    for k, cfg in enumerate(ml.EXPLORE_QUICK if ctx.quick else ml.EXPLORE_QUICK + ml.EXPLORE_MORE):
        ml.explore_validate(ctx, rp, cfg, "tv%d" % k, 60 if ctx.quick else 1000)
    wait_multi()
    ctx.assume("compare_exchange_weak does not fail spuriously (x86-64 lock cmpxchg); weak CAS is executed as strong under the controlled scheduler")
    ctx.assume("finest grain: one round per party for up to 4 parties (Mutex.tla), 2-3 rounds for 2-3 parties (MutexRounds.tla)")
