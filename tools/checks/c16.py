"""C16 -- publisher / subscriber: gap-free, ordered, duplicate-free stream per subscriber.

spec/Publisher/Publisher.tla models publisher<T>::queue at critical-section grain (registration array
with its free list, retained window, next() = advance_lk / advance_suspend_lk / get_value_lk as
separately scheduled steps, push_lk's wake-ups outside the lock).  TLC checks the C16 invariants
exhaustively for a sweep of (min,max,mode) settings; every edge of every state graph is replayed
on the real cocls::publisher<int>/subscriber<int> by harness/publisher_replay.cpp.

The specification describes the *repaired* behaviour (Fix* = TRUE); the unrepaired variants of the
defects found in the pinned tree are kept in the specification and must violate the properties
(self-test of the properties, thorough tier)."""
import os

import vlib
from framework import graph_replay
from vlib import MachineryError

U = 99   # MaxLen value standing for "unlimited"

INVARIANTS = ("TypeOK WindowShape WindowSufficient GapFreeInOrder NoDuplicate SkipMonotone EOSOnlyWhen "
              "CloseWakesAll NoLostWaiter PosConsistent FreeListSound")
PROPERTIES = "RecentIsNewest BehindSkipsOnlyDropped NotReadyOnlyWhen CopyIndependent GrowOnlyWhenFull"

ALL_STYLES = '{"split", "coro", "block", "poll"}'


def tla_set(xs):
    return "{" + ", ".join('"%s"' % x for x in xs) + "}"


def proj(st):
    regs = []
    for r in st["regs"]:
        regs.append({"pos": r["pos"], "used": r["used"], "kicked": r["kicked"] if r["used"] else False,
                     "awt": r["awt"] if r["used"] else 0})
    subs = {}
    for i, pc in enumerate(st["pc"]):
        if pc == "unborn":
            continue
        if pc in ("wfetch_c", "wfetch_b"):
            raise MachineryError("path ends inside a wake-up (merge failed)")
        subs[str(i + 1)] = {"pc": pc, "hnd": st["hnd"][i], "mode": st["mode"][i], "recv": st["recv"][i],
                            "res": st["res"][i], "wakes": st["wakes"][i]}
    return {"pos": st["pos"], "q": st["q"], "closed": st["closed"], "pubAlive": st["pubAlive"],
            "nextFree": st["nextFree"], "regs": regs, "subs": subs}


def consts(nsubs, mn, mx, modes, styles=ALL_STYLES, pub=4, batch=2, join=None, kick=1, copybusy=False, serial=True):
    return {"NSubs": nsubs, "MinLen": mn, "MaxLen": mx, "Modes": tla_set(modes), "Styles": styles,
            "MaxPub": pub, "MaxBatch": batch, "MaxJoin": join if join is not None else nsubs + 1, "MaxKick": kick,
            "Serial": "TRUE" if serial else "FALSE", "CopyBusy": "TRUE" if copybusy else "FALSE",
            "FixCloseRace": "TRUE", "FixGetValue": "TRUE", "FixBlocking": "TRUE", "FixCopyParked": "TRUE"}


def label(c):
    return "n%s_min%s_max%s_%s" % (c["NSubs"], c["MinLen"], "inf" if c["MaxLen"] == U else c["MaxLen"],
                                   "".join(m[0] for m in c["Modes"].strip("{}").replace('"', "").split(", ")))


MUST_TAKE = ["SubscribeRecent", "SubscribeAt", "Leave", "Ready", "Subscribe", "Fetch", "Poll", "NextWhole",
             "Wake", "WFetch", "PushCS", "Close", "KickCS"]


def replay_config(ctx, rp, c, tag, must=MUST_TAKE, max_paths=None, extra_random=0, key_fn=None):
    def hdr(k, st0, c=c):
        return {"min": c["MinLen"], "max": c["MaxLen"], "wake": "handle" if k % 2 else "fn",
                "single": ("rvalue", "lvalue", "range")[k % 3]}
    return graph_replay(ctx, "Publisher", "Publisher", "Publisher_seq.cfg", tag, rp, proj, header_fn=hdr,
                        merge_re=r"(Wake|WFetch)$", must_take=must, constants=c, max_paths=max_paths,
                        extra_random=extra_random, key_fn=key_fn, tlc_kw={"workers": 4})


def expect_violation(ctx, c, tag, what):
    """property self-test: the unrepaired variant of the specification must violate a C16 invariant"""
    sd = os.path.join(vlib.VERIF, "spec", "Publisher")
    cfg = os.path.join(vlib.BUILD, "C16_%s.cfg" % tag)
    os.makedirs(vlib.BUILD, exist_ok=True)
    base = "SPECIFICATION Spec\nINVARIANTS GapFreeInOrder NoDuplicate SkipMonotone EOSOnlyWhen\nPROPERTIES CopyIndependent\nCHECK_DEADLOCK FALSE\n"
    vlib.write_cfg(cfg, base, c)
    res = vlib.run_tlc(sd, "Publisher", cfg, "C16_" + tag, workers=4, coverage=False)
    if not res.violation:
        raise MachineryError("property self-test: specification variant '%s' does not violate any C16 property: %s"
                             % (what, (res.error or "")[-500:]))
    ctx.extra.setdefault("unrepaired_variants_rejected", []).append(
        {"variant": what, "violated": res.violated_name, "trace_len": len(res.trace), "states": res.distinct})


def run(ctx):
    rp = vlib.compile_harness(vlib.VERIF + "/harness/publisher_replay.cpp", "publisher_replay", sanitize=not ctx.quick)
    if ctx.quick:
        # one subscriber: every style, deep stream; (min,max,mode) sampled over the three modes
        solo = [(1, U, ["all"]), (1, 2, ["all"]), (2, 3, ["behind"]), (1, 1, ["recent"]), (2, U, ["recent"]), (1, 2, ["behind"])]
        for (mn, mx, modes) in solo:
            c = consts(1, mn, mx, modes, pub=4, batch=3, join=2)
            replay_config(ctx, rp, c, "solo_" + label(c), extra_random=100)
        # two subscribers: slowest-subscriber window, wake order, copy, free list
        duo = [(1, 2, ["all"], '{"split"}', 1), (1, U, ["all", "recent"], '{"coro", "poll"}', 0),
               (2, 2, ["behind"], '{"split", "block"}', 0)]
        for (mn, mx, modes, styles, kick) in duo:
            c = consts(2, mn, mx, modes, styles=styles, pub=3, batch=2, join=2, kick=kick)
            must = [a for a in MUST_TAKE if a not in ("SubscribeAt",)] + ["SubscribeCopy"]
            if "split" not in styles:
                must = [a for a in must if a not in ("Ready", "Subscribe", "Fetch")]
            if "poll" not in styles:
                must = [a for a in must if a != "Poll"]
            if "coro" not in styles and "block" not in styles:
                must = [a for a in must if a not in ("NextWhole", "WFetch")]
            if kick == 0:
                must = [a for a in must if a != "KickCS"]
            replay_config(ctx, rp, c, "duo_" + label(c), must=must, max_paths=4000)
    else:
        for mode in ("all", "behind", "recent"):
            for mn in (1, 2, 3, 4, 5):
                for mx in (1, 2, 3, 4, 5, U):
                    if mx < mn:
                        continue
                    c = consts(1, mn, mx, [mode], pub=5, batch=3, join=2)
                    replay_config(ctx, rp, c, "solo_" + label(c), extra_random=300)
        for (mn, mx) in ((1, 1), (1, 2), (2, 3), (1, U), (3, U)):
            for modes in (["all"], ["behind"], ["recent"], ["all", "recent"]):
                for styles, kick in (('{"split"}', 1), ('{"coro", "poll", "block"}', 0)):
                    c = consts(2, mn, mx, modes, styles=styles, pub=3, batch=2, join=3 if len(modes) == 1 else 2, kick=kick)
                    must = ["SubscribeRecent", "SubscribeCopy", "Leave", "PushCS", "Close", "Wake"]
                    replay_config(ctx, rp, c, "duo_" + label(c) + ("_s" if kick else "_w"), must=must)
    # three subscribers: registration array / free list / wake order
    c = consts(3, 1, 2, ["all"], styles='{"coro"}', pub=2, batch=2, join=4 if ctx.quick else 5, kick=0)
    replay_config(ctx, rp, c, "trio", must=["SubscribeRecent", "SubscribeCopy", "Leave", "NextWhole", "Wake", "WFetch", "PushCS", "Close"],
                  max_paths=3000 if ctx.quick else None)
    # a subscriber copied while it is parked (separate key: own defect of the pinned tree)
    c = consts(2, 1, U, ["all"], styles='{"split", "coro"}', pub=2, batch=1, join=2, kick=0, copybusy=True)
    replay_config(ctx, rp, c, "copybusy", must=["SubscribeCopy", "Wake"],
                  key_fn=lambda sid, line, txt: "publisher_copy_of_parked_subscriber")
    # interleavings of subscriber critical sections with the publisher's wake-up loop (design level)
    c = consts(2, 1, 2, ["all", "recent"], styles='{"split"}', pub=3, batch=2, join=2, kick=1, serial=False)
    cfg = os.path.join(vlib.BUILD, "C16_conc.cfg")
    vlib.write_cfg(cfg, open(os.path.join(vlib.VERIF, "spec/Publisher/Publisher_seq.cfg")).read(), c)
    res = ctx.tlc("Publisher", "Publisher", cfg, "conc", workers=4)
    if res.violation:
        ctx.tlc_violation(res, "Publisher:conc")
    if not ctx.quick:
        v = dict(consts(1, 1, U, ["all"], pub=3, batch=2, join=1))
        expect_violation(ctx, dict(v, FixCloseRace="FALSE"), "mut_closerace", "advance_suspend_lk returns early on _closed")
        expect_violation(ctx, dict(v, FixBlocking="FALSE"), "mut_blocking", "next_awt::operator bool goes through co_awaiter::wait()")
        expect_violation(ctx, dict(v, FixGetValue="FALSE"), "mut_getvalue_all", "get_value_lk does not drop a lagging all_values subscriber")
        expect_violation(ctx, dict(consts(1, 1, U, ["recent"], pub=3, batch=2, join=1), FixGetValue="FALSE"), "mut_getvalue_recent",
                         "get_value_lk (skip_to_recent) does not record the delivered position")
        expect_violation(ctx, dict(consts(1, 1, 2, ["behind"], pub=4, batch=3, join=1), FixGetValue="FALSE"), "mut_getvalue_behind",
                         "get_value_lk (skip_if_behind) does not record the delivered position")
        expect_violation(ctx, dict(consts(2, 1, U, ["all"], styles='{"split"}', pub=2, batch=1, join=2, kick=0, copybusy=True),
                                   FixCopyParked="FALSE"), "mut_copyparked", "copy of a parked subscriber takes the pre-incremented position")
    ctx.assume("threads are modelled at critical-section grain: the two critical sections of next() (advance_lk, "
               "advance_suspend_lk), the wake-up and get_value_lk are separately scheduled steps replayed single-threaded "
               "through the awaiter's public await_ready/await_suspend/await_resume; std::mutex is trusted to make each "
               "critical section atomic")
    ctx.assume("a blocking next() that has to wait is replayed in a real helper thread; its internal interleavings are those "
               "of the awaited form, which are explored step by step")
    ctx.assume("no publish after close(); a subscriber is not used after its first end of stream; subscribe-at positions "
               "are 0.._pos-1; a subscriber is copied only between two next() calls or while parked, never after it was "
               "kicked/dropped; a thread blocked in next() is not destroyed")
    ctx.assume("joining at a position that is no longer retained yields end of stream at once in all_values mode "
               "(documented, publisher.h:306-309) -- counted as 'fallen behind'")
    ctx.assume("next_ready() cannot report end of stream (documented, publisher.h:486-489): a false result is allowed when the "
               "subscriber is caught up, kicked, dropped, or at the end of a closed stream")
