"""C16 -- publisher / subscriber: gap-free, ordered, duplicate-free stream per subscriber.

spec/Publisher/Publisher.tla models publisher<T>::queue at critical-section grain (registration array
with its free list, retained window, next() = advance_lk / advance_suspend_lk / get_value_lk as
separately scheduled steps, push_lk's wake-ups outside the lock).  TLC checks the C16 invariants
exhaustively for a sweep of (min,max,mode) settings; every edge of every state graph is replayed
on the real cocls::publisher<int>/subscriber<int> by harness/publisher_replay.cpp.

The specification describes the *repaired* behaviour (Fix* = TRUE); the unrepaired variants of the
defects found in the pinned tree are kept in the specification and must violate the properties
(self-test of the properties, thorough tier).

edge_replay(): the degenerate forms of the same calls on small, completely covered graphs (Publisher_edge.cfg):
publish(begin,end) with an empty range (a step without any effect: nobody is woken), batches longer than the window
maximum, min = max, publish on a closed publisher, subscribe at a position not published yet.

conc_replay(): spec/Publisher/PublisherConc.tla wraps the same critical sections into threads (publisher
thread; one thread per subscriber using blocking next(), next_ready() or a coroutine that the publisher
resumes on its own thread); its behaviours are replayed by harness/publisher_conc_replay.cpp on real
threads under the controlled scheduler at lock grain (virtual std::mutex), which binds the lock
discipline: which state changes happen inside which critical section, nothing guarded is touched
outside, wake-ups happen after the unlock.  Also called from C03."""
import contextlib
import os
import time
from collections import deque

import vlib
from framework import graph_replay
from vlib import MachineryError

U = 99   # MaxLen value standing for "unlimited"

INVARIANTS = ("TypeOK WindowShape WindowSufficient GapFreeInOrder NoDuplicate SkipMonotone EOSOnlyWhen "
              "CloseWakesAll NoLostWaiter PosConsistent FreeListSound")
PROPERTIES = "RecentIsNewest BehindSkipsOnlyDropped NotReadyOnlyWhen CopyIndependent GrowOnlyWhenFull"

ALL_STYLES = '{"split", "coro", "loop", "block", "poll"}'


def tla_set(xs):
    return "{" + ", ".join('"%s"' % x for x in xs) + "}"


def has_woken_bit():
    """the registration of the tree under test has the `_woken` bit (repair of the copy-of-woken defect): then the
    replayers project it and every configuration compares it (a tree without the bit is told apart by what a copy does)"""
    try:
        return "_woken" in open(os.path.join(vlib.REPO, "src/cocls/publisher.h")).read()
    except OSError:
        return False


def reg_proj(r, woken):
    d = {"pos": r["pos"], "used": r["used"], "kicked": r["kicked"], "awt": r["awt"]}
    if woken:
        d["woken"] = r["woken"]
    return d


def proj(st, woken=None):
    woken = has_woken_bit() if woken is None else woken
    regs = []
    for r in st["regs"]:
        regs.append(reg_proj(r, woken))
    subs = {}
    for i, pc in enumerate(st["pc"]):
        if pc == "unborn":
            continue
        if pc in ("wfetch_c", "wfetch_l", "wfetch_b") or st["plan"]["st"] == "due":
            raise MachineryError("path ends inside a wake-up (merge failed)")
        subs[str(i + 1)] = {"pc": pc, "hnd": st["hnd"][i], "mode": st["mode"][i], "recv": st["recv"][i],
                            "res": st["res"][i], "wakes": st["wakes"][i]}
    return {"pos": st["pos"], "q": st["q"], "closed": st["closed"], "pubAlive": st["pubAlive"],
            "nextFree": st["nextFree"], "regs": regs, "subs": subs}


def consts(nsubs, mn, mx, modes, styles=ALL_STYLES, pub=4, batch=2, join=None, kick=1, at=None, copybusy=False,
           serial=True, copywoken=False, founders=None, minbatch=1, pubclosed=False, ahead=0):
    at = list(range(0, pub + 1)) if at is None else at
    return {"NSubs": nsubs, "MinLen": mn, "MaxLen": mx, "Modes": tla_set(modes), "Styles": styles,
            "MaxPub": pub, "MaxBatch": batch, "MaxJoin": join if join is not None else nsubs + 1, "MaxKick": kick,
            "MinBatch": minbatch, "PubClosed": "TRUE" if pubclosed else "FALSE", "MaxAhead": ahead,
            "AtPos": "{" + ", ".join(str(x) for x in at) + "}",
            "Serial": "TRUE" if serial else "FALSE", "CopyBusy": "TRUE" if copybusy else "FALSE",
            "CopyWoken": "TRUE" if copywoken else "FALSE",
            "Founders": "{" + ", ".join(str(x) for x in (founders or range(1, nsubs + 1))) + "}",
            "FixCloseRace": "TRUE", "FixGetValue": "TRUE", "FixBlocking": "TRUE", "FixCopyParked": "TRUE",
            "FixCopyOfWoken": "TRUE"}


def label(c):
    return "n%s_min%s_max%s_%s" % (c["NSubs"], c["MinLen"], "inf" if c["MaxLen"] == U else c["MaxLen"],
                                   "".join(m[0] for m in c["Modes"].strip("{}").replace('"', "").split(", ")))


def fast_cover_paths(g, rng, max_paths=None, full=True, max_len=400, want_terminal=True, selfloops=False):
    """Edge cover by root-to-terminal paths in O(total path length): shortest prefix from an initial
    state to a node that still has an uncovered out-edge, then a greedy run over uncovered edges
    (bounded local search when stuck), then the shortest way to a terminal state.
    selfloops: also the calls that leave the state as it is (an empty batch, a repeated poll) are steps to replay."""
    out = {n: [(l, d) for (l, d) in es if selfloops or d != n] for n, es in g.edges.items()}
    total = sum(len(v) for v in out.values())
    parent, depth, order = {}, {}, []
    dq = deque()
    for i in g.init:
        parent[i] = None
        depth[i] = 0
        dq.append(i)
    while dq:
        n = dq.popleft()
        order.append(n)
        for idx, (l, d) in enumerate(out[n]):
            if d not in parent:
                parent[d] = (n, idx)
                depth[d] = depth[n] + 1
                dq.append(d)
    rev = {}
    for n, es in out.items():
        for idx, (l, d) in enumerate(es):
            rev.setdefault(d, []).append((n, idx))
    term_next = {}
    seen = set()
    for n in out:
        if all(d == n for (l, d) in out[n]):
            seen.add(n)
            dq.append(n)
    while dq:
        n = dq.popleft()
        for (p, idx) in rev.get(n, []):
            if p not in seen:
                seen.add(p)
                term_next[p] = idx
                dq.append(p)
    unc = {n: set(range(len(out[n]))) for n in order}
    ncov = [0]
    paths = []

    def local_search(src, limit):
        prev = {src: None}
        q2 = deque([src])
        while q2 and len(prev) < limit:
            n = q2.popleft()
            if unc[n]:
                path = []
                while prev[n] is not None:
                    p, idx = prev[n]
                    path.append((p, idx))
                    n = p
                path.reverse()
                return path
            for idx, (l, d) in enumerate(out[n]):
                if d not in prev:
                    prev[d] = (n, idx)
                    q2.append(d)
        return None

    def build(u):
        pre = []
        n = u
        while parent[n] is not None:
            p, idx = parent[n]
            pre.append((p, idx))
            n = p
        init = n
        pre.reverse()
        steps = []
        cur = [init]

        def take(n, idx):
            if idx in unc[n]:
                unc[n].discard(idx)
                ncov[0] += 1
            steps.append(out[n][idx])
            cur[0] = out[n][idx][1]
        for (n, idx) in pre:
            take(n, idx)
        while len(steps) < max_len:
            c = cur[0]
            if unc[c]:
                take(c, rng.choice(sorted(unc[c])))
                continue
            f = local_search(c, 48)
            if not f:
                break
            for (n, idx) in f:
                take(n, idx)
        if want_terminal:
            while out[cur[0]] and cur[0] in term_next and len(steps) < max_len + 200:
                take(cur[0], term_next[cur[0]])
        paths.append((init, steps))

    targets = list(order)
    if max_paths is not None:
        rng.shuffle(targets)
    for u in targets:
        while unc[u]:
            if max_paths is not None and len(paths) >= max_paths:
                return paths, ncov[0], total
            build(u)
    return paths, ncov[0], total


@contextlib.contextmanager
def fast_cover(selfloops=False):
    """vlib.cover_paths searches the nearest uncovered edge by a BFS per step, which is quadratic on the
    wide and shallow Publisher graphs (13 minutes for 4*10^4 edges); graph_replay looks the function up
    in the vlib module at call time, so it is swapped for the duration of our calls only."""
    old = vlib.cover_paths
    vlib.cover_paths = (lambda g, rng, **kw: fast_cover_paths(g, rng, selfloops=True, **kw)) if selfloops else fast_cover_paths
    try:
        yield
    finally:
        vlib.cover_paths = old


MUST_TAKE = ["SubscribeRecent", "SubscribeAt", "Leave", "Ready", "Subscribe", "Fetch", "Poll", "NextWhole",
             "Wake", "WFetch", "PushCS", "Close", "KickCS", "KickGone"]


def replay_config(ctx, rp, c, tag, must=MUST_TAKE, max_paths=None, extra_random=0, key_fn=None, cfg="Publisher_seq.cfg",
                  woken=None):
    def hdr(k, st0, c=c):
        return {"min": c["MinLen"], "max": c["MaxLen"], "wake": "handle" if k % 2 else "fn",
                "single": ("rvalue", "lvalue", "range")[k % 3], "block": ("bool", "iter")[(k // 2) % 2]}
    with fast_cover():
        return graph_replay(ctx, "Publisher", "Publisher", cfg, tag, rp, (lambda st: proj(st, woken)), header_fn=hdr,
                            merge_re=r"(Wake|WFetch|WakeCopy)$", must_take=must, constants=c, max_paths=max_paths,
                            extra_random=extra_random, key_fn=key_fn, tlc_kw={"workers": 4},
                            replay_timeout=180 if ctx.quick else 900)


EDGE_MUST = ["SubscribeRecent", "SubscribeAt", "Leave", "Ready", "Subscribe", "Fetch", "Poll", "NextWhole", "Wake", "WFetch",
             "PushCS", "Close"]


def edge_replay(ctx, rp):
    """degenerate forms of publish and subscribe-at (Publisher_edge.cfg): publish(begin,end) with an EMPTY range in every
    state (a step that must leave everything as it is, in particular every kind of parked subscriber parked), batches up
    to one more than the window maximum, min = max, publish on a closed publisher, subscribe at a position not published
    yet (and, as before, not retained any more); the range is handed over as vector / list / pointer pair.  The graphs
    are small and covered completely, self-loops (calls without effect) included."""
    if ctx.quick:
        configs = [("a", consts(1, 2, 2, ["all", "behind"], pub=3, batch=3, join=2, kick=0, at=[0, 2, 3], minbatch=0,
                               pubclosed=True, ahead=1)),
                   ("r", consts(1, 1, 1, ["recent"], pub=3, batch=2, join=1, kick=0, at=[0, 2, 3], minbatch=0,
                               pubclosed=True, ahead=1))]
    else:
        configs = [("a", consts(1, 2, 2, ["all", "behind", "recent"], pub=4, batch=3, join=2, kick=1, minbatch=0,
                               pubclosed=True, ahead=1)),
                   ("r", consts(1, 1, 1, ["all", "behind", "recent"], pub=3, batch=2, join=2, kick=1, minbatch=0,
                               pubclosed=True, ahead=1)),
                   ("u", consts(1, 1, U, ["all", "behind", "recent"], pub=3, batch=3, join=1, kick=0, minbatch=0,
                               pubclosed=True, ahead=2)),
                   ("d", consts(2, 1, 2, ["all"], styles='{"split", "coro", "block"}', pub=2, batch=2, join=2, kick=0, at=[0],
                               minbatch=0, pubclosed=True, ahead=0))]
    for (name, c) in configs:
        def hdr(k, st0, c=c):
            return {"min": c["MinLen"], "max": c["MaxLen"], "wake": "handle" if k % 2 else "fn",
                    "single": ("rvalue", "lvalue", "range")[k % 3], "block": ("bool", "iter")[(k // 2) % 2],
                    "batch": ("vector", "list", "array")[(k // 3) % 3]}
        styles = c["Styles"]
        must = [m for m in EDGE_MUST if not (m == "Poll" and "poll" not in styles)
                and not (m in ("NextWhole", "WFetch") and not any(x in styles for x in ("coro", "loop", "block")))]
        with fast_cover(selfloops=True):
            res, g = graph_replay(ctx, "Publisher", "Publisher", "Publisher_edge.cfg", "edge_" + name, rp, proj, header_fn=hdr,
                                  merge_re=r"(Wake|WFetch|WakeCopy)$", must_take=must, constants=c,
                                  tlc_kw={"workers": 4}, replay_timeout=180 if ctx.quick else 900)
        if g is None:
            continue
        # vacuity guard: the empty batch was a step of its own under every kind of parked subscriber, publish was called on
        # a closed publisher, somebody joined at a position not published yet
        seen = set()
        for n, es in g.edges.items():
            for (l, d) in es:
                if l.startswith("PushCS(0)") and d == n:
                    seen.update("empty:" + x for x in g.state(n)["pc"] if x.startswith("parked"))
                elif l.startswith("PushCS(") and "closed = TRUE" in g.state_text[n]:
                    seen.add("closed")
                elif l.startswith("SubscribeAt(") and int(l.split(",")[1]) >= g.state(n)["pos"]:
                    seen.add("ahead")
        want = {"closed", "empty:parked"} | ({"ahead"} if c["MaxAhead"] else set())
        want |= {"empty:parked_" + x[0] for x in ("coro", "loop", "block") if x in styles}
        if want - seen:
            raise MachineryError("edge configuration %s is vacuous: %s not reached" % (name, sorted(want - seen)))
        res.model["edge_forms"] = sorted(seen)
    ctx.assume("publish on a closed publisher appends values (nobody can be parked on a closed queue); there a closed stream is "
               "not polled with next_ready() (a poll swallows the end of stream and leaves the position past the end); a "
               "subscriber that joined at a position not published yet does not call next() before the stream has reached "
               "that position, unless the publisher is closed or it was kicked")


def expect_violation(ctx, c, tag, what):
    """property self-test: the unrepaired variant of the specification must violate a C16 invariant"""
    sd = os.path.join(vlib.VERIF, "spec", "Publisher")
    cfg = os.path.join(vlib.BUILD, "C16_%s.cfg" % tag)
    os.makedirs(vlib.BUILD, exist_ok=True)
    base = "SPECIFICATION Spec\nINVARIANTS GapFreeInOrder NoDuplicate SkipMonotone EOSOnlyWhen\nPROPERTIES CopyIndependent\nCHECK_DEADLOCK FALSE\n"
    vlib.write_cfg(cfg, base, c)
    res = vlib.run_tlc(sd, "Publisher", cfg, "C16_" + tag, workers=4, coverage=False)
    if not res.violation:
        raise MachineryError("property self-test: specification variant '%s' does not violate any C16 property: %s"
                             % (what, (res.error or "")[-500:]))
    ctx.extra.setdefault("unrepaired_variants_rejected", []).append(
        {"variant": what, "violated": res.violated_name, "trace_len": len(res.trace), "states": res.distinct})


def must_for(styles, kick, at, copy=True):
    must = ["SubscribeRecent", "Leave", "PushCS", "Close", "Wake"]
    if at:
        must.append("SubscribeAt")
    if copy:
        must.append("SubscribeCopy")
    if "split" in styles:
        must += ["Ready", "Subscribe", "Fetch"]
    if "poll" in styles:
        must.append("Poll")
    if "coro" in styles or "block" in styles or "loop" in styles:
        must += ["NextWhole", "WFetch"]
    if kick:
        must += ["KickCS", "KickGone"]
    return must


# ----------------------------------------------------------------------------------------------------------
# real threads at lock grain (spec/Publisher/PublisherConc.tla, harness/publisher_conc_replay.cpp)
# ----------------------------------------------------------------------------------------------------------
CONC_INVARIANTS = INVARIANTS + " ThreadsOK NobodyForgotten"


def conc_proj(st, woken=None):
    """expected projection of a PublisherConc state: queue state as in proj(), what every subscriber's caller has
    seen so far, and the pending operation of every thread after the code without visible effect has run"""
    regs = [reg_proj(r, has_woken_bit() if woken is None else woken) for r in st["regs"]]
    subs, pend = {}, {}
    pco, pdel = st["pco"], st["pdel"]

    def pub_pend(pc_, note):
        return {"idle": "idle", "wake": "notify" if note else "unlocked", "co": "lock", "tail": "lock"}[pc_]
    pend["P"] = pub_pend(st["ppc"], st["pnote"])
    if st.get("_twopub"):
        pend["Q"] = pub_pend(st["p2pc"], st["p2note"])
    for i, pc in enumerate(st["pc"]):
        s = i + 1
        call = st["call"][i]
        tailp = st["tailp"][i]
        if tailp:           # between the unlock of get_value and the return of next()
            pd = "unlocked"
        elif call == "none":
            pd = "idle"
        elif call == "poll":
            pd = "lock"
        elif call == "block":
            pd = "wait" if pc == "parked" else "lock"
        else:   # a coroutine: parked -> its thread has returned; resumed by the publisher -> runs on the publisher thread
            pd = "idle" if pc == "parked" or pco == s or pdel == s else "lock"
        pend[str(s)] = pd
        if pc == "unborn":
            continue
        recv = st["recv"][i]
        eos = pc == "eos"
        res = st["res"][i]
        if pdel == s or tailp:   # get_value done, its result has not reached the caller yet
            if pc == "idle" and res != "notready":
                recv = recv[:-1]
            eos = False
            res = "none"
        subs[str(s)] = {"hnd": st["hnd"][i], "mode": st["mode"][i], "recv": recv, "res": res, "eos": eos}
    return {"pos": st["pos"], "q": st["q"], "closed": st["closed"], "pubAlive": st["pubAlive"], "stale": 0,
            "nextFree": st["nextFree"], "regs": regs, "subs": subs, "pend": pend}


def conc_consts(nsubs, mn, mx, modes, cstyles, pub, batch, join, kick, at=(), copybusy=True, copywoken=False, founders=None,
                twopub=False):
    c = consts(nsubs, mn, mx, modes, styles='{"split"}', pub=pub, batch=batch, join=join, kick=kick, at=list(at),
               copybusy=copybusy, serial=False, copywoken=copywoken, founders=founders)
    c["CStyles"] = tla_set(cstyles)
    c["TwoPub"] = "TRUE" if twopub else "FALSE"
    return c


def _raw(text, var):
    """value text of a variable in TLC's rendering of a state"""
    i = text.find("/\\ %s = " % var)
    if i < 0:
        return ""
    j = text.find("\n", i)
    return text[i + len(var) + 6: j if j >= 0 else len(text)]


def conc_targets(g, per_target=12):
    """paths through the interleavings the threaded replay exists for, added to the (capped) edge cover:
    T1  a publish that trims the window while a subscriber thread stands between the unlock of get_value and the
        return of next() and the value it fetched is among the trimmed ones (a copy made after the unlock reads a
        destroyed element);
    T2  a critical section of one publishing thread while the other one is in its wake-up loop with waiters left
        (before its first resume / between two resumes)."""
    out = {n: [(l, d) for (l, d) in es if d != n] for n, es in g.edges.items()}
    parent = {}
    dq = deque()
    for i in g.init:
        parent[i] = None
        dq.append(i)
    while dq:
        n = dq.popleft()
        for idx, (l, d) in enumerate(out[n]):
            if d not in parent:
                parent[d] = (n, idx)
                dq.append(d)
    rev = {}
    for n, es in out.items():
        for idx, (l, d) in enumerate(es):
            rev.setdefault(d, []).append((n, idx))
    term_next, seen = {}, set()
    for n in out:
        if not out[n]:
            seen.add(n)
            dq.append(n)
    while dq:
        n = dq.popleft()
        for (pn, idx) in rev.get(n, []):
            if pn not in seen:
                seen.add(pn)
                term_next[pn] = idx
                dq.append(pn)
    found = {"T1": [], "T2a": [], "T2b": [], "T2c": []}
    for n, es in out.items():
        txt = g.state_text[n]
        tail = "TRUE" in _raw(txt, "tailp")
        pwake = _raw(txt, "ppc") == '"wake"' and _raw(txt, "wakeq") != "<<>>"
        qwake = _raw(txt, "p2pc") == '"wake"' and _raw(txt, "wq2") != "<<>>"
        if not (tail or pwake or qwake):
            continue
        for idx, (l, d) in enumerate(es):
            if tail and (l.startswith("PPush") or l.startswith("P2Push")) and len(found["T1"]) < 4 * per_target:
                s0, s1 = g.state(n), g.state(d)
                oldest = s1["pos"] - len(s1["q"])
                if any(t and r and r[-1] < oldest for t, r in zip(s0["tailp"], s0["recv"])):
                    found["T1"].append((n, idx))
            if pwake and l.startswith("P2") and l[:6] in ("P2Push", "P2Clos"):
                key = "T2b" if _raw(txt, "pnote") == "TRUE" else "T2a"
                if len(found[key]) < per_target:
                    found[key].append((n, idx))
            if qwake and (l.startswith("PPush") or l.startswith("PClose")) and len(found["T2c"]) < per_target:
                found["T2c"].append((n, idx))
    paths = []
    for key in sorted(found):
        for (n, idx) in found[key][:per_target]:
            pre = []
            x = n
            while parent[x] is not None:
                pn, pi = parent[x]
                pre.append(out[pn][pi])
                x = pn
            pre.reverse()
            steps = pre + [out[n][idx]]
            cur = out[n][idx][1]
            while out[cur] and cur in term_next and len(steps) < 300:
                e = out[cur][term_next[cur]]
                steps.append(e)
                cur = e[1]
            paths.append((x, steps))
    return paths, {k: len(v) for k, v in found.items()}


@contextlib.contextmanager
def conc_cover(stats):
    """edge cover (capped) plus the targeted paths"""
    old = vlib.cover_paths

    def cover(g, rng, max_paths=None, **kw):
        paths, covered, total = fast_cover_paths(g, rng, max_paths=max_paths, **kw)
        extra, n = conc_targets(g)
        stats.update(n)
        return extra + paths, covered, total
    vlib.cover_paths = cover
    try:
        yield
    finally:
        vlib.cover_paths = old


def conc_replay(ctx, tag="conc", max_paths_quick=700, max_paths_thorough=8000):
    """publishing threads against subscriber threads on REAL threads under the controlled scheduler (the queue's
    std::mutex is virtual): every critical section is one step; the wake-up loop outside the lock is one step per
    resumed waiter; what follows the unlock of get_value up to the return of next() is a step of its own.  TLC checks
    the C16 invariants on the thread-structured model; every step of the replay compares the queue's internal state,
    every thread's pending operation and what every subscriber received; every step that is not a critical section
    must leave the mutex-guarded state untouched; the published items poison themselves when destroyed, so a value
    copied out of the window after the unlock is seen.  Also used by C03 (lock discipline).
    A step of the replay costs several thread hand-overs (~0.3 ms), so the path sets are capped in both tiers: TLC
    explores the models completely, the replay covers the edges reached by max_paths_* edge-seeking paths plus paths
    aimed at the interleavings the replay exists for (conc_targets)."""
    rpc = vlib.compile_harness(vlib.VERIF + "/harness/publisher_conc_replay.cpp", "publisher_conc_replay",
                               extra_flags=["-rdynamic"], sanitize=False)
    # (name, constants, cfg)
    CFG, CFG2 = "PublisherConc.cfg", "PublisherConc_twopub.cfg"
    if ctx.quick:
        configs = [("a", conc_consts(2, 1, 2, ["all"], ["block", "coro"], 1, 1, 2, 0), CFG),
                   # finite window, a subscriber exactly that far behind: the retained element is trimmed under a reader
                   ("r", conc_consts(1, 1, 1, ["all", "recent"], ["block", "poll", "coro"], 2, 2, 1, 1), CFG),
                   # two publishing threads against two blocked subscriber threads
                   ("p", conc_consts(2, 1, 2, ["all"], ["block"], 2, 1, 2, 0, copybusy=False, twopub=True), CFG2)]
    else:
        configs = [("a", conc_consts(2, 1, 2, ["all"], ["block", "poll", "coro"], 2, 1, 2, 0), CFG),
                   ("b", conc_consts(2, 1, 1, ["recent"], ["block", "coro"], 2, 2, 2, 1, copybusy=False), CFG),
                   ("c", conc_consts(1, 2, 2, ["behind"], ["block", "poll", "coro"], 4, 3, 2, 1), CFG),
                   ("r", conc_consts(1, 1, 1, ["all", "recent"], ["block", "poll", "coro"], 3, 2, 2, 1), CFG),
                   # three subscriber threads (mixed wake-up list: coroutine, then blocked threads); all join first
                   ("e", conc_consts(3, 1, 2, ["all"], ["block", "coro"], 1, 1, 3, 0, copybusy=False), CFG2),
                   ("p", conc_consts(2, 1, 2, ["all"], ["block"], 3, 2, 2, 0, copybusy=False, twopub=True), CFG2),
                   # two publishing threads, finite window, one subscriber that also polls, kick, leave/rejoin
                   ("q", conc_consts(1, 1, 1, ["all", "recent"], ["block", "poll"], 3, 1, 2, 1, copybusy=False, twopub=True), CFG)]
    # a thread copies a subscriber in the window between the publisher's critical section that collected its awaiter and
    # the original's get_value (own key: remainder of the copy-of-parked defect)
    configs.append(("w", conc_consts(2, 1, U, ["all"], ["block", "coro"], 1 if ctx.quick else 2, 1, 2, 0, copywoken=True,
                                     founders=[1]), CFG))
    for (name, c, cfg) in configs:
        n = c["NSubs"]
        two = c["TwoPub"] == "TRUE"
        threads = ["P"] + (["Q"] if two else []) + [str(i) for i in range(1, n + 1)]

        def hdr(k, st0, c=c, threads=threads):
            return {"min": c["MinLen"], "max": c["MaxLen"], "threads": threads}

        def cproj(st, two=two):
            st = dict(st)
            st["_twopub"] = two
            return conc_proj(st)
        m = ["TJoinRecent", "TReady", "TSubscribe", "TFetch", "TTail", "PPush", "PClose", "PWake", "PTail"]
        if cfg == CFG:
            m.append("TLeave")
        if "coro" in c["CStyles"]:
            m.append("PFetch")
        if "poll" in c["CStyles"]:
            m += ["TPollReady", "TPollFetch"]
        if c["MaxKick"]:
            m.append("PKick")
        if n > 1 and c["CopyBusy"] == "TRUE":
            m.append("TJoinCopy")
        if two:
            m += ["P2Push", "P2Close", "P2Wake", "P2Tail"]
        window = name == "w"
        stats = {}
        with conc_cover(stats):
            res, g = graph_replay(ctx, "Publisher", "PublisherConc", cfg, "%s_%s" % (tag, name), rpc, cproj,
                                  header_fn=hdr, must_take=m, constants=c,
                                  max_paths=max_paths_quick if ctx.quick else max_paths_thorough,
                                  tlc_kw={"workers": 4}, replay_timeout=180 if ctx.quick else 1800,
                                  key_fn=(lambda sid, line, txt: "publisher_copy_of_woken_subscriber") if window else None)
        res.model["targeted_paths"] = dict(stats)
        if name == "r" and not stats.get("T1"):
            raise MachineryError("threaded replay %s: no path trims the window under a reader (vacuous)" % name)
        if name == "p" and not (stats.get("T2a") and stats.get("T2b")):
            raise MachineryError("threaded replay %s: no critical section of the second publisher inside the first one's loop" % name)
    ctx.assume("publisher on real threads: scheduling points are lock operations, the code after each unlock where it matters "
               "(wake-up loop per waiter, return path of next()), controlled waits and sync_awaiter's notify; other atomic "
               "operations are not scheduling points (the awaiter/sync_awaiter protocol itself is decided by C01/C02); at most two "
               "publishing threads, one thread per subscriber; with two publishing threads only blocking/polled next()")


def run(ctx):
    rp = vlib.compile_harness(vlib.VERIF + "/harness/publisher_replay.cpp", "publisher_replay", sanitize=not ctx.quick)
    t0 = time.time()
    if ctx.quick:
        # one subscriber: every style; (min,max,mode) sampled over the three modes, incl. unlimited
        solo = [(1, U, "all", 4, 3, {}), (1, 2, "all", 4, 2, {}), (2, 3, "behind", 4, 2, {}), (1, 1, "recent", 4, 2, {}),
                (2, U, "recent", 3, 3, {})]
        duo = [(1, 2, ["all"], '{"split"}', 1, 2, [0]), (1, U, ["all", "recent"], '{"loop", "poll"}', 0, 2, [0]),
               (2, 2, ["behind"], '{"split", "block"}', 0, 2, [])]
        cap = 2500
    else:
        # every (min,max) in 1..5 + unlimited, all three modes: enough publishes to fall more than max behind
        solo = []
        for mode in ("all", "behind", "recent"):
            for mn in (1, 2, 3, 4, 5):
                for mx in (1, 2, 3, 4, 5, U):
                    if mx >= mn:
                        solo.append((mn, mx, mode, 5 if mx == U else mx + 1, 3,
                                     dict(styles='{"split", "poll"}', join=1, at=[0])))
            # every style of calling next(), re-subscription, all subscribe-at positions
            for (mn, mx) in ((1, 1), (1, 2), (2, 3), (1, U), (3, U)):
                solo.append((mn, mx, mode, 4, 3 if mx == 2 else 2, {}))
        duo = [(1, 1, ["all"], '{"split"}', 1, 2, [0]), (1, 2, ["behind"], '{"coro", "loop", "poll", "block"}', 0, 2, [0]),
               (1, 2, ["all", "recent"], '{"split"}', 1, 2, [0]), (2, 3, ["recent"], '{"coro", "loop", "poll", "block"}', 0, 2, [0]),
               (1, U, ["all"], '{"coro", "loop", "poll", "block"}', 0, 2, [0]), (1, 2, ["all"], '{"split"}', 0, 3, [0])]
        cap = None
    for k, (mn, mx, mode, pub, batch, kw) in enumerate(solo):
        c = consts(1, mn, mx, [mode], pub=pub, batch=batch, **dict(dict(join=2), **kw))
        must = must_for(kw["styles"], 1, kw["at"], copy=False) if kw else MUST_TAKE
        replay_config(ctx, rp, c, "solo%d_" % k + label(c), must=must, extra_random=50 if ctx.quick else 100)
    vlib.log("  C16 solo configurations done: %.0fs" % (time.time() - t0))
    # degenerate forms: empty batch, batch longer than the maximum, min = max, publish on a closed publisher, subscribe ahead
    edge_replay(ctx, rp)
    vlib.log("  C16 degenerate publish/subscribe forms done: %.0fs" % (time.time() - t0))
    # two subscribers: slowest-subscriber window, wake order, copy, free list
    for k, (mn, mx, modes, styles, kick, pub, at) in enumerate(duo):
        c = consts(2, mn, mx, modes, styles=styles, pub=pub, batch=2, join=2, kick=kick, at=at)
        replay_config(ctx, rp, c, "duo%d_" % k + label(c), must=must_for(styles, kick, at), max_paths=cap)
    vlib.log("  C16 duo configurations done: %.0fs" % (time.time() - t0))
    # three subscribers: registration array / free list / wake order
    c = consts(3, 1, 2, ["all"], styles='{"loop"}' if ctx.quick else '{"loop", "coro"}', pub=1, batch=1, join=4, kick=0, at=[])
    replay_config(ctx, rp, c, "trio", must=must_for('{"loop"}', 0, []), max_paths=cap)
    # a subscriber copied while it is parked (separate key: own defect of the pinned tree)
    c = consts(2, 1, U, ["all"], styles='{"split", "coro"}', pub=2, batch=1, join=2, kick=0, at=[], copybusy=True)
    replay_config(ctx, rp, c, "copybusy", must=["SubscribeCopy", "Wake"], max_paths=cap,
                  key_fn=lambda sid, line, txt: "publisher_copy_of_parked_subscriber")
    # a subscriber copied after push_lk collected its awaiter and before it fetched its value: by a waiter resumed earlier
    # in the same wake-up loop (its resumption handler makes the copy), or simply before the woken original goes on
    c = consts(3, 1, U, ["all"], styles='{"split"}' if ctx.quick else '{"split", "coro"}', pub=1 if ctx.quick else 2, batch=1,
               join=3, kick=0 if ctx.quick else 1, at=[], copybusy=True, copywoken=True, founders=[1, 2])
    replay_config(ctx, rp, c, "copywoken", must=["PlanCopy", "WakeCopy", "SubscribeCopy", "Wake", "PushCS", "Close"],
                  max_paths=2000 if ctx.quick else 30000, cfg="Publisher_copywoken.cfg",
                  key_fn=lambda sid, line, txt: "publisher_copy_of_woken_subscriber")
    # interleavings of subscriber critical sections with the publisher's wake-up loop (design level)
    c = consts(2, 1, 2, ["all"] if ctx.quick else ["all", "recent"], styles='{"split"}', pub=2 if ctx.quick else 3, batch=2, join=2,
               kick=1, at=[0], serial=False)
    cfg = os.path.join(vlib.BUILD, "C16_conc.cfg")
    vlib.write_cfg(cfg, open(os.path.join(vlib.VERIF, "spec/Publisher/Publisher_seq.cfg")).read(), c)
    res = ctx.tlc("Publisher", "Publisher", cfg, "conc", workers=4)
    if res.violation:
        ctx.tlc_violation(res, "Publisher:conc")
    vlib.log("  C16 trio/copy/conc done: %.0fs" % (time.time() - t0))
    if not ctx.quick:
        v = dict(consts(1, 1, U, ["all"], pub=3, batch=2, join=1))
        expect_violation(ctx, dict(v, FixCloseRace="FALSE"), "mut_closerace", "advance_suspend_lk returns early on _closed")
        expect_violation(ctx, dict(v, FixBlocking="FALSE"), "mut_blocking", "next_awt::operator bool goes through co_awaiter::wait()")
        expect_violation(ctx, dict(v, FixGetValue="FALSE"), "mut_getvalue_all", "get_value_lk does not drop a lagging all_values subscriber")
        expect_violation(ctx, dict(consts(1, 1, U, ["recent"], pub=3, batch=2, join=1), FixGetValue="FALSE"), "mut_getvalue_recent",
                         "get_value_lk (skip_to_recent) does not record the delivered position")
        expect_violation(ctx, dict(consts(1, 1, 2, ["behind"], pub=4, batch=3, join=1), FixGetValue="FALSE"), "mut_getvalue_behind",
                         "get_value_lk (skip_if_behind) does not record the delivered position")
        expect_violation(ctx, dict(consts(2, 1, U, ["all"], styles='{"split"}', pub=2, batch=1, join=2, kick=0, at=[], copybusy=True),
                                   FixCopyParked="FALSE"), "mut_copyparked", "copy of a parked subscriber takes the pre-incremented position")
        expect_violation(ctx, dict(consts(3, 1, U, ["all"], styles='{"split"}', pub=1, batch=1, join=3, kick=0, at=[], copybusy=True,
                                          copywoken=True, founders=[1, 2]), FixCopyOfWoken="FALSE"), "mut_copywoken",
                         "copy of a subscriber whose awaiter was collected for a wake-up takes the pre-incremented position")
    # publisher thread against subscriber threads on real threads at lock grain
    conc_replay(ctx)
    vlib.log("  C16 threaded lock-grain replay done: %.0fs" % (time.time() - t0))
    ctx.assume("threads are modelled at critical-section grain: the two critical sections of next() (advance_lk, "
               "advance_suspend_lk), the wake-up and get_value_lk are separately scheduled steps replayed single-threaded "
               "through the awaiter's public await_ready/await_suspend/await_resume; std::mutex is trusted to make each "
               "critical section atomic")
    ctx.assume("a blocking next() that has to wait is replayed in a real helper thread; its internal interleavings are those "
               "of the awaited form, which are explored step by step")
    ctx.assume("no publish after close(); a subscriber is not used after its first end of stream; subscribe-at positions "
               "are 0.._pos-1; a subscriber is copied only between two next() calls or while parked, never after it was "
               "kicked/dropped; a thread blocked in next() is not destroyed")
    ctx.assume("joining at a position that is no longer retained yields end of stream at once in all_values mode "
               "(documented, publisher.h:306-309) -- counted as 'fallen behind'")
    ctx.assume("next_ready() cannot report end of stream (documented, publisher.h:486-489): a false result is allowed when the "
               "subscriber is caught up, kicked, dropped, or at the end of a closed stream")
