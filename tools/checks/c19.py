"""C19 -- coroutine storage policies give every frame exclusive, correctly freed memory.

spec/Storage/Storage.tla (one module; the policy, whether promise_extra_storage<T, policy> is layered over it, and
its initial size parameter are chosen in the initial state) is checked exhaustively for every policy (all
create/complete sequences of three frame-size classes, overlapping lifetimes where the policy permits them; storage
objects constructed / moved / move-assigned / destroyed and the external buffer resized / shrunk / emptied / swapped
by its owner between frames; the memory of the caller -- the buffer's vector, placement_alloc's buffer -- at addresses
that are and are not multiples of 16, every frame's address range inside the area its policy owns; under the
attached-object layer completions in which the destructor of the attached object is a step of its own during which
other frames are created and completed on the same storage) and for two threads on one
reusable_storage_mtsafe (scheduling points: the atomic operations on _busy; in a second configuration
also every operator new/delete call of the storage).  Every edge of every state graph is replayed on
the real policies by harness/storage_replay.cpp (quick: smaller bounds, no sanitizers; thorough: deeper
bounds, ASan/UBSan -- the replayer's arena poisons everything outside the requested block sizes).

Storage_<policy>.cfg are single-policy configurations for running TLC by hand; the check uses
Storage_seq.cfg (all policies), Storage_mt2.cfg and Storage_mt2alloc.cfg."""
import json
import os
import re
import vlib
from framework import graph_replay, replay_tlc_trace

SPEC = "Storage"
PEND = {"idle": "idle", "new_heap": "new", "new_shared": "new", "del_old": "delete", "del_after": "delete",
        "delete": "delete", "store": "store"}
FRKEYS = ("c", "o", "live", "where", "slot", "blk", "at", "tr", "eo", "asz", "dz", "ct", "dt")
OBJKEYS = ("st", "ptr", "cap", "inv", "fac")
WORKERS = 2

NSLOTS = 6
ALL = '{"default", "reusable", "mtsafe", "stack", "placement", "buffer"}'


_memo = {}     # id(state dict of the graph being replayed) -> projection (cleared per graph: run_cfg)


def proj(st):
    r = _memo.get(id(st))
    if r is None:
        r = _memo[id(st)] = _proj(st)
    return r


def _proj(st):
    """what harness/storage_replay.cpp reports after every step (the ghosts `sh` and `dbl` stay in the model;
    the replayer's own checks -- overlap on raw addresses, canaries, block sizes, double free -- must
    report nothing: bad = [])"""
    fr = st["fr"] if isinstance(st["fr"], list) else []
    pc = st["pc"]
    return {
        "heap": list(st["heap"]),
        "fr": [{k: f[k] for k in FRKEYS} for f in fr],
        "objs": [{k: o[k] for k in OBJKEYS} for o in st["objs"]], "busy": st["busy"],
        "news": st["news"], "dels": st["dels"], "torn": st["torn"],
        "prep": list(st["prep"]) if isinstance(st["prep"], list) else [], "nthrow": st["nthrow"],
        "pend": {t: PEND[r["at"]] for t, r in pc.items()},
        "bad": [],
    }


def proj_alloc(st):
    """reduced observation (header obs=alloc, used by C20): the storage's heap traffic only"""
    fr = st["fr"] if isinstance(st["fr"], list) else []
    return {"news": st["news"], "dels": st["dels"], "live": sum(1 for x in st["heap"] if x),
            "where": [f["where"] for f in fr], "bad": []}


def header(mode, grain, obs="full"):
    """Shape family of the scenario's coroutines (the model is the same for all, sizes are abstract): 0 bodies with
    local arrays, 1 the same + 8 bytes (the other residue of the frame size modulo 16), 2/3 the library's
    callback_await_coro created through callback_await_alloc<Policy> (the with_allocator path scheduler.h uses) with a
    callback of three sizes (+ 8).  Two-thread scenarios use 0/1 (the future of 2/3 has scheduling points of its own),
    scenarios under the attached-object layer 0 and 3 (one size of each residue, both creation paths: halves the build)."""
    def hdr(k, st0):
        # ex: promise_extra_storage<T, policy>; copy: placement / buffer / stack storages only refer to memory, every
        # other creation of the scenario goes through a copy of the storage object
        return {"policy": st0["env"]["pol"], "ex": st0["env"]["ex"], "mode": mode, "grain": grain,
                "kill": "destroy" if k % 3 == 2 else "finish", "copy": k % 5 in (1, 3),
                "init": st0["env"]["init"], "boff": st0["env"]["boff"], "nslots": NSLOTS, "obs": obs,
                "fam": k % 2 if mode == "mt" else (0, 3)[k % 2] if st0["env"]["ex"] else k % 4}
    return hdr


def run_cfg(ctx, rp, tag, cfg, consts, mode, must, max_paths=None, obs="full", extra_random=0):
    grain = consts["Grain"].strip('"')
    consts = dict(consts)
    consts["NSlots"] = NSLOTS
    _memo.clear()
    return graph_replay(ctx, SPEC, SPEC, cfg, tag, rp, proj_alloc if obs == "alloc" else proj,
                        header_fn=header(mode, grain, obs), constants=consts,
                        must_take=must, max_paths=max_paths, extra_random=extra_random, tlc_kw={"workers": WORKERS})


def build(ctx, name, sanitize, defines=None):
    """the replayer; when stack_storage's private members are no longer what the probes expect, a build without those
    probes (its bookkeeping is then not cross-checked against the harness's own; everything else is observed the same)"""
    rp = vlib.compile_harness(os.path.join(vlib.VERIF, "harness/storage_replay.cpp"), name, sanitize=sanitize,
                              defines=defines, fallback_defines=["STORAGE_NO_STACK_PRIVATE"])
    if vlib.compile_harness.last_fallback:
        ctx.extra["storage_replay_without_stack_storage_probes"] = True
        ctx.assume("storage replay built WITHOUT the probes of stack_storage's private members (_alloc_size / _alloc_ptr: "
                   "their representation changed and the full harness no longer compiles): the size a storage asks for "
                   "(operator size_t), where its frames are placed and the shared state are still observed")
    return rp


def probe_throw(rp):
    rc, out = vlib.run_cmd([rp, "--probe-throw"], timeout=60)
    m = re.search(r"^THROW (\S+)", out, re.M)
    if rc != 0 or not m:
        raise vlib.MachineryError("cannot determine what promise_extra_storage::alloc does when the factory throws: " + out[-500:])
    return m.group(1)   # released | kept | lost | replaced (anything but `kept`: the replay against the repaired model tells)


def probe_grow(rp):
    rc, out = vlib.run_cmd([rp, "--probe-grow"], timeout=60)
    m = re.search(r"^GROW (\S+)", out, re.M)
    if rc != 0 or not m:
        raise vlib.MachineryError("cannot determine how reusable_storage::alloc grows: " + out[-500:])
    return m.group(1)   # delete_new | new_delete | unknown (neither: the replay will tell)


def alloc_replay(ctx):
    """C20 hook: coroutine frames "disappear under a non-heap storage policy" -- after warm-up the reusing policies
    make no further operator new call.  A small slice of Storage.tla (stack_storage in learning mode: shared state 0,
    then second and later uses; reusable_storage and reusable_storage_mtsafe: every order of up to 4 frames of three
    sizes, BIG-small-BIG included, two live at a time where permitted) is checked by TLC (WarmNoAlloc,
    CompleteNoAlloc, HeapFallbackFreedOnce) and every edge is replayed on the real policies with the heap traffic as
    the compared observation: operator new / delete calls made by the storage so far, blocks alive, and whether
    each frame lies in a heap block.  The coroutines alternate between four shape families: frame sizes that are
    and are not multiples of 16, each as a plain with_allocator coroutine and as the library's callback_await_coro
    created through callback_await_alloc<Policy> (the path scheduler.h takes with stack_storage).
    Violations are registered in ctx (they appear under the calling property)."""
    # own binary (a C19 run may be building its replayer at the same time), reduced to the three reusing policies and
    # without sanitizers in both tiers: the observation is a count, and the build is most of this function's cost
    rp = build(ctx, "storage_replay_" + ctx.prop.lower(), False, defines=["STORAGE_REPLAY_REUSING_ONLY"])
    rc, out = vlib.run_cmd([rp, "--sizes"], timeout=60)
    if rc != 0:
        raise vlib.MachineryError("frame sizes of the body shapes cannot be classified: " + out[-500:])
    sizes = [l for l in out.splitlines() if l.startswith("SIZES")]
    ctx.extra["storage_frame_sizes"] = sizes
    fixed = probe_grow(rp) != "delete_new"
    c = {"Policies": '{"stack", "reusable", "mtsafe"}', "ExPolicies": "{}", "MaxCreate": 4, "MaxOverlap": 2,
         "Grain": '"call"', "Fixed": "TRUE" if fixed else "FALSE", "StackInits": "{0}", "BufferInits": "{0}",
         "PlaceInits": "{300}", "MaxMoves": 0, "MaxOwner": 0, "MaxPrep": 2, "MaxThrows": 0, "ThrowFixed": "TRUE",
         "AreaOffs": "{0}", "MaxDtor": 0, "MaxFail": 0}
    # the shape family follows the scenario number: the random walks on top of the edge cover put every short
    # history under several families
    run_cfg(ctx, rp, "stor_alloc", "Storage_seq.cfg", c, "seq", ["Create", "Complete", "Teardown"], obs="alloc",
            extra_random=800)
    ctx.assume("storage policies: heap traffic is every global operator new / delete call made inside the creation, "
               "completion and destruction of coroutines on stack_storage (one storage object and alloca buffer per call, "
               "shared state starting at 0), reusable_storage and reusable_storage_mtsafe (one thread); frame sizes are the "
               "compiler's for 12 shapes: " + "; ".join(x[6:] for x in sizes))


def run(ctx):
    rp = build(ctx, "storage_replay", not ctx.quick)
    rc, out = vlib.run_cmd([rp, "--sizes"], timeout=60)
    if rc != 0:
        raise vlib.MachineryError("frame sizes of the body shapes cannot be classified: " + out[-500:])
    ctx.extra["observed_frame_sizes"] = [l for l in out.splitlines() if l.startswith("SIZES")]

    # Both orders in which reusable_storage::alloc can grow (release the old block first / publish the new
    # block first) are correct for one thread; the model follows the order the code uses (constant
    # Fixed).  For two threads only "new block first" is correct -- decided below.
    order = probe_grow(rp)
    fixed = order != "delete_new"
    FX = "TRUE" if fixed else "FALSE"
    ctx.extra["reusable_storage_grow_order"] = order
    # When the factory of the attached object throws, promise_extra_storage::alloc has to give the memory back to its
    # base policy.  If the code does not, the creations with a throwing factory are left out of the state graphs that
    # are replayed and the model of the code's behaviour is decided separately below (like the grow order).
    thr = probe_throw(rp)
    ctx.extra["extra_factory_throw_block"] = thr
    throw_ok = thr != "kept"

    # 1. every policy, one thread: all create/complete sequences (the policy and its initial size
    #    parameter are chosen in the initial state)
    #    each policy also as base of promise_extra_storage<T, policy>; reusable_storage objects constructed, moved,
    #    move-assigned and destroyed between frames; the owner of reusable_buffer_storage's vector resizing, shrinking,
    #    clearing, moving out and swapping it between frames
    #    the caller's memory (vector of reusable_buffer_storage, buffer of placement_alloc) at addresses 0 and 8 mod 16;
    #    under the layer one completion per history (thorough: two) whose ~T is a step during which frames are created
    #    and completed
    inits = {"StackInits": "{0, 200}" if ctx.quick else "{0, 200, 201}", "BufferInits": "{0, 200}",
             "PlaceInits": "{300}" if ctx.quick else "{300, 200}", "AreaOffs": "{0, 8}", "AlignUp": "FALSE",
             "DtorFirst": "TRUE"}
    c = {"Policies": ALL, "ExPolicies": ALL, "MaxCreate": 4 if ctx.quick else 5, "MaxCreateEx": 3 if ctx.quick else 4,
         "MaxOverlap": 3, "Grain": '"call"', "Fixed": FX, "MaxMoves": 2 if ctx.quick else 3, "MaxOwner": 2 if ctx.quick else 3,
         "MaxPrep": 2, "MaxThrows": 1 if throw_ok else 0, "ThrowFixed": "TRUE", "MaxDtor": 1 if ctx.quick else 2,
         "MaxDtorMoves": 0 if ctx.quick else 1, "MaxFail": 1}
    c.update(inits)
    run_cfg(ctx, rp, "seq", "Storage_seq.cfg", c, "seq",
            ["Create", "CreateB", "Complete", "Teardown", "NewObj", "MoveCtor", "MoveAssign", "Drop",
             "OwnerResize", "OwnerShrink", "OwnerClear", "OwnerMoveOut", "OwnerSwap", "Prepare", "CreateP",
             "DtorBegin", "DtorEnd", "CreateFail"]
            + (["CreateThrow"] if throw_ok else []))
    sdir = os.path.join(vlib.VERIF, "spec", SPEC)
    seqbase = open(os.path.join(sdir, "Storage_seq.cfg")).read()
    # not vacuous: the model of "block handed back to the base policy, THEN ~T" must be rejected by Exclusive (a frame
    # created while ~T runs gets the block the dying object lives in), the model of "address rounded up to 16 without
    # reserving room" by LargeEnough
    for name, consts, inv in (("dtor_after", {"DtorFirst": "FALSE", "Policies": '{"mtsafe"}', "ExPolicies": '{"mtsafe"}'}, "Exclusive"),
                              ("align_up", {"AlignUp": "TRUE", "Policies": '{"buffer", "placement"}', "ExPolicies": "{}"}, "LargeEnough")):
        pre = os.path.join(vlib.BUILD, "%s_%s_prefix.cfg" % (ctx.prop, name))
        txt = re.sub(r"^INVARIANTS.*$", "INVARIANTS " + inv, seqbase, flags=re.M)
        txt = re.sub(r"^PROPERTIES.*$", "", txt, flags=re.M)
        consts.update({"Fixed": FX, "NSlots": NSLOTS, "MaxMoves": 0, "MaxOwner": 0, "MaxThrows": 0})
        vlib.write_cfg(pre, txt, consts)
        r = vlib.run_tlc(sdir, SPEC, pre, "%s_%s_prefix" % (ctx.prop, name), workers=1, coverage=False)
        if not r.violation:
            raise vlib.MachineryError("Storage.%s accepts the model %s: vacuous" % (inv, consts))
        ctx.extra[name + "_model_rejected_by"] = r.violation
    if throw_ok:
        # not vacuous: the model of "the block stays where it is" must be rejected
        pre = os.path.join(vlib.BUILD, "%s_throw_prefix.cfg" % ctx.prop)
        vlib.write_cfg(pre, seqbase, {"ThrowFixed": "FALSE", "Fixed": FX})
        r = vlib.run_tlc(sdir, SPEC, pre, "%s_throw_prefix" % ctx.prop, workers=WORKERS, coverage=False)
        if not r.violation:
            raise vlib.MachineryError("Storage properties accept a factory exception that leaves the block behind: vacuous")
        ctx.extra["block_kept_on_throw_model_rejected_by"] = r.violation
    else:
        # The code keeps the block.  The model of that violates the property (a heap block nobody releases; the
        # thread-safe storage stays busy).  Decide on the real code: replay the counterexamples.
        for pol, invariant in (("default", "HeapFallbackFreedOnce"), ("mtsafe", "BusyMeansInUse")):
            demo = os.path.join(vlib.BUILD, "%s_throw_%s.cfg" % (ctx.prop, pol))
            txt = re.sub(r"^INVARIANTS.*$", "INVARIANTS " + invariant, seqbase, flags=re.M)
            txt = re.sub(r"^PROPERTIES.*$", "", txt, flags=re.M)
            vlib.write_cfg(demo, txt, {"ThrowFixed": "FALSE", "Fixed": FX, "Policies": '{"%s"}' % pol,
                                       "ExPolicies": '{"%s"}' % pol, "MaxMoves": 0, "NSlots": NSLOTS, "MaxDtor": 0,
                                       "MaxFail": 0})
            res = ctx.tlc(SPEC, SPEC, demo, "throw_cex_" + pol, workers=1)
            if not res.violation:
                raise vlib.MachineryError("block-kept model expected to violate %s" % invariant)
            hdr = {"policy": pol, "ex": True, "copy": False, "mode": "seq", "grain": "call", "kill": "finish",
                   "init": 0, "boff": 0, "nslots": NSLOTS, "fam": 0, "obs": "full"}
            followed, out, text = replay_tlc_trace(ctx, res, rp, _proj, hdr, "throw_" + pol)
            if not followed and re.search(r"^DIVERGE \S+ step=%d action=\S+ heap blocks still allocated after the storage "
                                          r"was destroyed" % (len(res.trace) - 2), out, re.M):
                followed = True     # every step matched; the replayer's own end-of-scenario check found the block
            ctx.extra["block_kept_on_throw_counterexample_followed_by_code_" + pol] = followed
            if followed:
                what = ("a heap block that is never released" if pol == "default" else
                        "reusable_storage_mtsafe busy for ever (every later frame goes to the heap)")
                ctx.violation("extra_factory_throw_block_not_released",
                              "promise_extra_storage<T, %s>: when the user's factory throws, alloc (coro_storage.h:228-233) "
                              "lets the exception out without giving the memory it got from its base policy back: %s.  "
                              "TLC counterexample (%d step(s): %s) followed step by step by the real code." % (
                                  "default_storage" if pol == "default" else "reusable_storage_mtsafe", what,
                                  len(res.trace) - 1, ", ".join(l for l, _ in res.trace[1:])),
                              text + "#" + out.replace("\n", "\n#") + "\n")
            else:
                ctx.violation("diverge:Storage:throw_cex_" + pol, "implementation diverges from the block-kept model of a "
                              "throwing factory: " + out[-600:], text + "#" + out.replace("\n", "\n#") + "\n")
    if not ctx.quick:
        # longer create/complete sequences of the plain policies (no layer, no moves, no owner actions)
        c = {"Policies": ALL, "ExPolicies": "{}", "MaxCreate": 6, "MaxCreateEx": 0, "MaxOverlap": 3, "Grain": '"call"',
             "Fixed": FX, "MaxMoves": 0, "MaxOwner": 0, "MaxPrep": 0, "MaxThrows": 0, "ThrowFixed": "TRUE", "MaxDtor": 0, "MaxFail": 0}
        c.update(inits)
        run_cfg(ctx, rp, "seq_deep", "Storage_seq.cfg", c, "seq", ["Create", "Complete", "Teardown"])

    # 2. two threads on one reusable_storage_mtsafe, scheduling points = atomic operations on _busy
    c = {"MaxCreate": 4 if ctx.quick else 5, "MaxOverlap": 3, "Classes": "{1, 2, 3}", "Grain": '"atomic"', "Fixed": FX}
    run_cfg(ctx, rp, "mt2", "Storage_mt2.cfg", c, "mt", ["Create", "Complete", "Store", "Teardown"])

    # 3. ... and every operator new / operator delete call of the storage
    sd = os.path.join(vlib.VERIF, "spec", SPEC)
    base = open(os.path.join(sd, "Storage_mt2alloc.cfg")).read()
    if fixed:
        variants = [("mt2alloc", {"MaxCreate": 4, "Classes": "{1, 2}" if ctx.quick else "{1, 2, 3}"})]
        if not ctx.quick:
            variants.append(("mt2alloc5", {"MaxCreate": 5, "Classes": "{1, 2}"}))
        for tag, extra in variants:
            c = {"MaxOverlap": 3, "Grain": '"alloc"', "Fixed": "TRUE"}
            c.update(extra)
            run_cfg(ctx, rp, tag, "Storage_mt2alloc.cfg", c, "mt", ["Create", "Complete", "New", "Del", "Store", "Teardown"])
        # the properties are not vacuous: the model of "release first" must be rejected
        pre = os.path.join(vlib.BUILD, "%s_prefix.cfg" % ctx.prop)
        vlib.write_cfg(pre, base, {"Fixed": "FALSE"})
        r = vlib.run_tlc(sd, SPEC, pre, "%s_prefix" % ctx.prop, workers=WORKERS, coverage=False)
        if not r.violation:
            raise vlib.MachineryError("Storage properties accept the release-first model (Fixed = FALSE): vacuous")
        ctx.extra["release_first_model_rejected_by"] = r.violation
    else:
        # The code releases the old block first.  The model of that order violates the property (a
        # heap-fallback block can get the address _ptr still holds; dealloc then takes it for the shared
        # block).  Decide on the real code: replay the counterexample that ends in two live frames in
        # one block.
        demo = os.path.join(vlib.BUILD, "%s_demo.cfg" % ctx.prop)
        txt = re.sub(r"^INVARIANTS.*$", "INVARIANTS Exclusive", base, flags=re.M)
        txt = re.sub(r"^PROPERTIES.*$", "", txt, flags=re.M)
        vlib.write_cfg(demo, txt, {"Fixed": "FALSE"})
        res = ctx.tlc(SPEC, SPEC, demo, "mt2alloc_cex", workers=1)
        if not res.violation:
            raise vlib.MachineryError("release-first model expected to violate Exclusive at allocator grain")
        hdr = {"policy": "mtsafe", "ex": False, "copy": False, "mode": "mt", "grain": "alloc", "kill": "finish", "init": 0,
               "boff": 0, "nslots": NSLOTS, "fam": 0, "obs": "full"}
        followed, out, text = replay_tlc_trace(ctx, res, rp, _proj, hdr, "mt2alloc")
        if not followed:
            # In the last state the model has two live frames in one block; the replayer then reports, from
            # raw addresses, the overlap (and the destroyed canary) in `bad`, which the projection of a
            # model state never contains.  Followed = every step matched and the last one differs in `bad`
            # only, by an overlap.
            m = re.search(r"^DIVERGE \S+ step=(\d+) action=\S+ expected=(\{.*\}) got=(\{.*\})$", out, re.M)
            if m and int(m.group(1)) == len(res.trace) - 2:
                exp, got = json.loads(m.group(2)), json.loads(m.group(3))
                gb = got.pop("bad", [])
                exp.pop("bad", None)
                followed = exp == got and any(x.startswith("overlap:") for x in gb)
        ctx.extra["release_first_counterexample_followed_by_code"] = followed
        if followed:
            ctx.violation("mtsafe_stale_ptr_block_shared",
                          "reusable_storage_mtsafe hands its block to two simultaneously live frames (and leaks a "
                          "heap-fallback block): reusable_storage::alloc releases the old block before it replaces "
                          "_ptr (coro_storage.h:50-51); a fallback block allocated by the other thread in between can "
                          "get that address, and its dealloc (coro_storage.h:169 `ptr == me->_ptr`) clears _busy "
                          "instead of freeing it.  TLC counterexample (%d steps, allocator that reuses the freed "
                          "address) followed step by step by the real code." % (len(res.trace) - 1),
                          text + "#" + out.replace("\n", "\n#") + "\n")
        else:
            # the implementation does not follow the model of its own grow order: report as divergence
            ctx.violation("diverge:Storage:mt2alloc_cex", "implementation diverges from the release-first model of "
                          "Storage at allocator grain: " + out[-600:], text + "#" + out.replace("\n", "\n#") + "\n")

    ctx.assume("frame sizes are compiler-determined: four families of three shapes (bodies with local arrays of 16/256/1024 "
               "bytes, the same + 8 bytes, and callback_await_alloc's coroutine with callbacks of those sizes) are observed "
               "and classified small/medium/large, scenarios alternate between the families; sizes in between are not "
               "quantified over")
    ctx.assume("reusable_storage, placement_alloc and reusable_buffer_storage serve one live frame at a time and "
               "placement_alloc's buffer is large enough (documented preconditions): no overlapping lifetimes are "
               "generated for them (one live frame per storage OBJECT); default, mtsafe and stack (one storage object + "
               "alloca buffer per call, as scheduler.h uses it) are exercised with up to 3 overlapping frames")
    ctx.assume("promise_extra_storage<T, Base> is a layer over every policy as Base (16-byte T; stack_storage, placement_alloc "
               "and reusable_buffer_storage through a default constructible derived class, since the layer default-constructs "
               "its base); every Base is wrapped in a recording class that observes the sizes its alloc / dealloc get; one "
               "thread; two of the four shape families")
    ctx.assume("storage objects are constructed, move-constructed, move-assigned (both directions, self) and destroyed only "
               "while no frame is alive, for the classes whose objects carry state and are movable at HEAD: reusable_storage "
               "and promise_extra_storage over reusable_storage / default_storage (a storage whose factory was moved out is "
               "not used again); reusable_storage_mtsafe is neither copyable nor movable; placement_alloc, "
               "reusable_buffer_storage and stack_storage objects only refer to memory: scenarios alternately create through "
               "a copy of the object (copy ASSIGNMENT of placement_alloc to another buffer is not exercised)")
    ctx.assume("stack_storage objects are also prepared ahead of their use (constructed from the shared state and given "
               "the alloca block they ask for; up to 2, at most one frame before the first preparation, at most 3 frames "
               "in such a history) and used later, repeatedly once their block is free again; concurrent preparation "
               "from two threads (scheduler::start on one scheduler) is not exercised")
    ctx.assume("error path: operator new itself throws std::bad_alloc inside the policy's alloc, once per history (at most one "
               "frame before it, at most 2 in such a history; plain bodies): default_storage, the growth of reusable_storage, "
               "the heap fallback of reusable_storage_mtsafe (while another frame holds its block) and of stack_storage, the "
               "reallocation of the buffer's vector -- nothing may change; NOT exercised: reusable_storage_mtsafe growing "
               "while not busy (at the pinned tree the exchange has set _busy and nothing clears it: the storage would "
               "stay on the heap path for ever)")
    ctx.assume("error path: the factory of the attached object throws during one creation per history (at most one frame "
               "before it, at most 2 in such a history; plain with_allocator coroutines only -- callback_await_coro is "
               "noexcept, a throwing allocation there terminates the process by design); operator new failing: see above")
    ctx.assume("destructor of the attached object (code of the user inside promise_extra_storage::dealloc): one completion per "
               "history (thorough: two, not nested) in which ~T creates and completes coroutines -- on the same storage where the "
               "base policy permits a second live frame (default, mtsafe, stack), on a second storage object (reusable; thorough tier) -- "
               "in every order the model allows, frames outliving the destructor included; plain with_allocator coroutines "
               "(a callback_await_coro resumed inside a destructor is only queued by the thread's coro_queue); such histories "
               "have no (thorough: at most one) storage-object operation before that completion and no owner action, prepared storage or "
               "throwing factory; a creation on a reusable_storage_mtsafe by ANOTHER thread while ~T runs passes through the "
               "same states of the storage as the creation by the destructor itself and is not replayed with two threads")
    ctx.assume("memory of the caller: the vector of reusable_buffer_storage (an allocator of the harness gives it exactly the "
               "bytes it asks for) and the buffer of placement_alloc begin at addresses 0 and 8 mod 16 (the frames of the "
               "harness need no more than 8-byte alignment; other residues would be misaligned accesses); stack_storage gets "
               "16-aligned blocks as alloca returns them; every frame's address is observed relative to the first byte of the "
               "area its policy owns for it (heap block, vector elements, alloca block, placement buffer)")
    ctx.assume("the owner of reusable_buffer_storage's vector uses it only while no frame is alive (documented): resize to "
               "a frame-class size, shrink_to_fit, clear+shrink_to_fit, move out, swap with a fresh vector; std::vector "
               "reallocation (new block, then old released; exact size when growing by more than a factor 2) is libstdc++'s")
    ctx.assume("the global allocator is modelled as 'lowest free slot' (the replayer runs the library on such an "
               "allocator): blocks never overlap each other and a freed address is reused at once; other reuse "
               "orders are not explored")
    ctx.assume("two-thread interleavings are taken at the atomic operations on _busy and (second configuration) at "
               "operator new/delete calls; memory orders and the unsynchronised plain read of _ptr in dealloc are "
               "C03 matters")
    ctx.assume("static_storage does not satisfy the Storage concept (non-static dealloc) and cannot be used with "
               "with_allocator: not covered; reusable_buffer_storage is instantiated with a std::vector of 16-byte "
               "items (frame sizes that are 8 mod 16 -- half of the shape families -- need the rounding up to whole items; "
               "n items are compared as the size of the request that needs n)")
