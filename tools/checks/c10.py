"""C10 -- bounded queue (cocls::limited_queue): back-pressure without losing or duplicating items."""
import os
import threading

import vlib
from framework import graph_replay

SPEC = "LimitedQueue"
ACTIONS = ["PushCS", "PushResolve", "PopCS", "PopCompletePush", "UnblockPushCS", "UnblockPushResolve",
           "UnblockPopCS", "UnblockPopResolve", "Destroy"]
SEQ_ACTIONS = ACTIONS + ["PushThrowCS"]
MERGE = r"(PushResolve|PopCompletePush|UnblockPushResolve|UnblockPopResolve)$"
WORKERS = 4


FORMS = ["one", "two", "copy", "move"]   # LimitedQueue.tla: Forms / FormOf(n), harness: FORMS[(n + shift) % 4]


def item_of(n, shift):
    """Item(n): what a direct T(args...) gives for the API form the n-th push uses (constructor that
    built the original, its arguments, copy constructions on the way)"""
    form = FORMS[(n + shift) % 4]
    if form == "one":      # q.push(n)
        return {"a": n, "b": 0, "copies": 0, "form": "1"}
    if form == "two":      # q.push(n, n+50)
        return {"a": n, "b": n + 50, "copies": 0, "form": "2"}
    if form == "copy":     # Item x(n, n+50); q.push(x)
        return {"a": n, "b": n + 50, "copies": 1, "form": "2"}
    return {"a": n, "b": 0, "copies": 0, "form": "1"}   # Item x(n); q.push(std::move(x))


def make_proj(form_shift):
    def proj(st):
        """specification state -> what the replayer observes on the real limited_queue"""
        npush = st["npush"]
        shift = (form_shift + st["limit"]) % 4     # FormOf(n) == Forms[((n + limit + FormShift) % 4) + 1]
        live = [0] * (npush + 1)
        for v in st["items"]:
            live[v] += 1
        for b in st["blocked"]:
            live[b["v"]] += 1
        for f in st["fut"]:
            if f["st"] == "val":
                live[f["v"]] += 1
        ret = st["ret"]
        return {
            "destroyed": st["destroyed"],
            "limit": st["limit"],
            "items": [item_of(v, shift) for v in st["items"]],
            "waiters": list(st["waiters"]),
            "blocked": [{"item": item_of(b["v"], shift), "push": b["push"]} for b in st["blocked"]],
            "fut": [{"st": f["st"], "item": item_of(f["v"], shift) if f["st"] == "val" else None} for f in st["fut"]],
            "pfut": list(st["pfut"]),
            "live": live[1:],          # places holding each pushed value: queue, blocked, delivered
            "size": len(st["items"]),  # limited_queue::size()
            "npush": npush,
            "npop": st["npop"],
            "nthrow": st["nthrow"],
            "ret": dict(ret) if isinstance(ret, dict) else {},
        }
    return proj


def cproj(st):
    """projection for the multi-thread replay (int items): per-thread fields, and a push future that the
    implementation only creates in its return statement (hand-over) is not observable before"""
    pfut = list(st["pfut"])
    for t, pc in st["pc"].items():
        if pc == "push_resolve":
            pfut[st["hold"][t]["push"] - 1] = "unborn"
    ret = st["ret"]
    return {
        "destroyed": st["destroyed"],
        "limit": st["limit"],
        "items": list(st["items"]),
        "waiters": list(st["waiters"]),
        "blocked": [{"v": b["v"], "push": b["push"]} for b in st["blocked"]],
        "fut": [{"st": f["st"], "v": f["v"]} for f in st["fut"]],
        "pfut": pfut,
        "npush": st["npush"],
        "npop": st["npop"],
        "ret": dict(ret) if isinstance(ret, dict) else {},
        "pend": {t: ("idle" if pc == "idle" else "resolve") for t, pc in st["pc"].items()},
    }


def conc_replay(ctx, rpc_job):
    """interleavings of producer and consumer threads at critical-section grain, replayed on real threads: the
    queue's std::mutex is virtual (interposed pthread layer), so each critical section and the code that follows
    its unlock (hand-over, completion of the admitted push, unblock resolutions) are separately scheduled; a
    call that takes the lock a second time, or changes the queue after its unlock, diverges"""
    rpc = rpc_job.result()
    threads = ["p1", "p2", "c1", "c2"]
    deep = None if ctx.quick else {"ExtraPush": 3, "ExtraPop": 2}
    graph_replay(ctx, SPEC, SPEC, "LimitedQueue_conc_replay.cfg", "conc_replay", rpc, cproj,
                 header_fn=lambda k, st0: {"threads": threads, "limit": st0["limit"]}, must_take=ACTIONS,
                 max_paths=5000 if ctx.quick else None, extra_random=300 if ctx.quick else 3000,
                 constants=deep, tlc_kw={"workers": WORKERS})
    if ctx.quick:
        ctx.exhaustive = False
    ctx.assume("multi-thread replay at lock grain: atomic operations are not scheduling points (the promise/future "
               "protocol itself is decided by C01/C02); futures polled, no coroutines")


KEY_THROW_ORPHAN = "throwing_push_orphans_waiting_pop"   # known_findings.jsonl, fixed by /repo 3c3638a


def key_fn(sid, line, txt):
    """violation key; a divergence at a throwing push made while a pop was waiting, in which a waiter
    disappeared, gets the key under which that defect is filed"""
    import json
    import re
    m = re.match(r"DIVERGE \S+ step=\d+ action=PushThrowCS\(\w+\) expected=(.*) got=(\{.*\})$", line.strip())
    if m:
        try:
            exp, got = json.loads(m.group(1)), json.loads(m.group(2))
            if exp["waiters"] and len(got["waiters"]) < len(exp["waiters"]):
                return KEY_THROW_ORPHAN
        except Exception:
            pass
    return "diverge:%s:%s" % (SPEC, re.sub(r"^DIVERGE \S+ ", "", line)[:80])


class Background:
    """runs fn() on a thread; result() joins and re-raises"""
    def __init__(self, fn):
        self.out = self.exc = None

        def body():
            try:
                self.out = fn()
            except BaseException as e:   # noqa: B902 -- handed to the main thread
                self.exc = e
        self.th = threading.Thread(target=body, daemon=True)
        self.th.start()

    def result(self):
        self.th.join()
        if self.exc is not None:
            raise self.exc
        return self.out


def run(ctx):
    sd = os.path.join(vlib.VERIF, "spec", SPEC)
    # development aid (mutation runs): C10_PARTS=seq,concreplay restricts the check to the named parts
    parts = set(os.environ.get("C10_PARTS", "seq,conc,concreplay,prefix").split(","))
    if parts != {"seq", "conc", "concreplay", "prefix"}:
        ctx.exhaustive = False
        ctx.assume("partial run: C10_PARTS=" + ",".join(sorted(parts)))
    # the TLC-only run of the large concurrent model (2.) works in the background while the graphs of 1. are
    # replayed; it does not touch ctx (accounted for below)
    conc = None if ctx.quick else {"ExtraPop": 3, "MaxUnblockPush": 2}
    conc_cfg = os.path.join(sd, "LimitedQueue_conc.cfg")
    if conc:
        os.makedirs(vlib.BUILD, exist_ok=True)
        base = open(conc_cfg).read()
        conc_cfg = os.path.join(vlib.BUILD, "%s_conc.cfg" % ctx.prop)
        vlib.write_cfg(conc_cfg, base, conc)
    conc_job = Background(lambda: vlib.run_tlc(sd, SPEC, conc_cfg, "%s_conc" % ctx.prop, workers=WORKERS, timeout=3000)
                          if "conc" in parts else None)
    rpc_job = Background(lambda: vlib.compile_harness(vlib.VERIF + "/harness/limited_queue_conc_replay.cpp",
                                                      "limited_queue_conc_replay", extra_flags=["-rdynamic"],
                                                      sanitize=False))
    # thorough: ASan/UBSan and the library's own asserts on (e.g. "Destroy of pending future")
    rp = vlib.compile_harness(vlib.VERIF + "/harness/limited_queue_replay.cpp", "limited_queue_replay",
                              sanitize=not ctx.quick, ndebug=ctx.quick)

    # 1. every history of one client over push/pop/unblock_push/unblock_pop/destroy within the bounds,
    #    limits 1..4, every edge of the state graph replayed on the real limited_queue<Item> and on
    #    limited_queue<Item, access-checking containers, misuse-checking lock> (Item records how it was built,
    #    counts its instances and throws on demand), pushes through every public form, consumers and producers
    #    polling or awaiting in coroutines
    names = [("plain", "checked"), ("poll", "coro"), ("poll", "coro")]
    # thorough bounds: limit+4 pushes, limit+2 pops, 2+2 unblocks, 1 throwing push
    deep = {} if ctx.quick else {"ExtraPush": 4, "MaxUnblockPop": 2}
    # limits 1..4 in one graph (the constructor picks the limit in Init); the rotation of the API forms over the
    # pushes differs per limit and per seed, so every form meets the room, hand-over and blocked branch
    form_shift = ctx.seed % 4

    def hdr(k, st0):
        # quick: one variant per scenario, rotating over the 8 combinations; thorough: that variant and
        # its complement, so every edge runs with both queue types, polled and awaited on both sides
        bits = [(k >> i) & 1 for i in range(3)]
        vs = ["/".join(names[i][bits[i]] for i in range(3))]
        if not ctx.quick:
            vs.append("/".join(names[i][1 - bits[i]] for i in range(3)))
        return {"limit": st0["limit"], "shift": (form_shift + st0["limit"]) % 4, "variants": vs}
    consts = dict(deep)
    consts["FormShift"] = form_shift
    if "seq" in parts:
        graph_replay(ctx, SPEC, SPEC, "LimitedQueue_seq.cfg", "seq", rp, make_proj(form_shift),
                     header_fn=hdr, merge_re=MERGE, must_take=SEQ_ACTIONS, constants=consts, key_fn=key_fn,
                     extra_random=500 if ctx.quick else 5000, tlc_kw={"workers": WORKERS}, replay_timeout=3000)

    # 2. all interleavings of 2 producer + 2 consumer threads at critical-section grain, limits 1..4 (TLC only)
    res = conc_job.result()
    if res is None:
        pass
    elif res.error and not res.violation:
        raise vlib.MachineryError("TLC failed on LimitedQueue (%s):\n%s" % (conc_cfg, res.error))
    else:
        ctx.states += res.distinct
        ctx.transitions += res.generated
        ctx.models.append({"module": SPEC, "cfg": os.path.basename(conc_cfg), "distinct": res.distinct,
                           "generated": res.generated, "depth": res.depth, "wall_s": round(res.wall, 1),
                           "violation": res.violation,
                           "coverage": {k: "%d:%d" % v for k, v in sorted(res.coverage.items())}})
        ctx.check_coverage(res, ACTIONS, "LimitedQueue/conc")
        if res.violation:
            ctx.tlc_violation(res, "LimitedQueue:LimitedQueue_conc.cfg")

    # 3. the same grain on real threads
    if "concreplay" in parts:
        conc_replay(ctx, rpc_job)

    # 4. the properties are not vacuous: the model of the code before fca2138 (item enqueued *and*
    #    parked) must be rejected
    if "prefix" in parts:
        base = open(os.path.join(sd, "LimitedQueue_seq.cfg")).read()
        pre = os.path.join(vlib.BUILD, "%s_prefix.cfg" % ctx.prop)
        vlib.write_cfg(pre, base, {"Fixed": "FALSE"})
        r = vlib.run_tlc(sd, SPEC, pre, "%s_prefix" % ctx.prop, workers=2, coverage=False)
        if not r.violation:
            raise vlib.MachineryError("LimitedQueue properties accept the pre-fix model (Fixed = FALSE): vacuous")
        ctx.extra["prefix_model_rejected_by"] = r.violation
        # ... and so must the model of the code before 3c3638a (a throwing push orphans the waiting pop)
        vlib.write_cfg(pre, base, {"FixedThrow": "FALSE"})
        r = vlib.run_tlc(sd, SPEC, pre, "%s_prefix" % ctx.prop, workers=2, coverage=False)
        if not r.violation:
            raise vlib.MachineryError("LimitedQueue properties accept the model of the code before 3c3638a "
                                      "(FixedThrow = FALSE): vacuous")
        ctx.extra["orphaning_throw_model_rejected_by"] = r.violation

    ctx.assume("interleavings of 2 producer + 2 consumer threads are decided on the specification at critical-section "
               "grain; the implementation is bound to that grain (a) by single-threaded replays of every edge with "
               "instrumented containers/lock (the library's Queue/Lock template parameters) reporting any access to "
               "queue state outside the lock and any coroutine resumed under it, and (b) by replaying the interleavings of "
               "a smaller 2+2 thread configuration (limits 1..2) on real threads with the queue's mutex virtualised: one "
               "scheduled step per critical section and per post-unlock resolution; the large concurrent model "
               "(limits 1..4) is TLC only")
    ctx.assume("item type of the single-client replay: a class that records its constructor, arguments and copy "
               "constructions, counts live instances and throws on demand; pushes rotate over the forms push(a), push(a,b), "
               "push(const T&), push(T&&); the number of MOVE constructions an item goes through is not compared (it is fixed by "
               "std::pair/std::deque internals, not by queue.h); the multi-thread replay uses int items; limits 1..4; limit 0 "
               "(no push can ever complete) excluded; limited_queue<void> does not instantiate (std::pair<void,...>)")
    ctx.assume("throwing construction: one push per history whose item constructor throws (first constructor to run during the "
               "call), in the room, blocked and hand-over branch; constructors throwing inside pop (move of the delivered item) "
               "or in the extra move of the hand-over branch are not modelled")
    ctx.assume("futures are abstracted to pending|value|exception|canceled with a single resolver each "
               "(justified by C01/C02); the replay uses the real futures; a future awaited by at most one coroutine")
    ctx.assume("bounds: at most limit+3 pushes, limit+2 pops, 2 unblock_push, 1 unblock_pop, 1 throwing push per history in "
               "quick (limit+4, limit+2, 2, 2, 1 in thorough); concurrent model: limit+3 pushes, limit+2 (thorough limit+3) "
               "pops, 1 (thorough 2) unblock_push, 1 unblock_pop, no throwing push")
