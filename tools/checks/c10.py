"""C10 -- bounded queue (cocls::limited_queue): back-pressure without losing or duplicating items."""
import os

import vlib
from framework import graph_replay

SPEC = "LimitedQueue"
ACTIONS = ["PushCS", "PushResolve", "PopCS", "PopCompletePush", "UnblockPushCS", "UnblockPushResolve",
           "UnblockPopCS", "UnblockPopResolve", "Destroy"]
MERGE = r"(PushResolve|PopCompletePush|UnblockPushResolve|UnblockPopResolve)$"
WORKERS = 4
LIMITS = (1, 2, 3, 4)


def proj(st):
    """specification state -> what the replayer observes on the real limited_queue"""
    npush = st["npush"]
    live = [0] * (npush + 1)
    for v in st["items"]:
        live[v] += 1
    for b in st["blocked"]:
        live[b["v"]] += 1
    for f in st["fut"]:
        if f["st"] == "val":
            live[f["v"]] += 1
    ret = st["ret"]
    return {
        "destroyed": st["destroyed"],
        "limit": st["limit"],
        "items": list(st["items"]),
        "waiters": list(st["waiters"]),
        "blocked": [{"v": b["v"], "push": b["push"]} for b in st["blocked"]],
        "fut": [{"st": f["st"], "v": f["v"]} for f in st["fut"]],
        "pfut": list(st["pfut"]),
        "live": live[1:],          # places holding each pushed value: queue, blocked, delivered
        "size": len(st["items"]),  # limited_queue::size()
        "npush": npush,
        "npop": st["npop"],
        "ret": dict(ret) if isinstance(ret, dict) else {},
    }


def cproj(st):
    """projection for the multi-thread replay: per-thread fields, and a push future that the
    implementation only creates in its return statement (hand-over) is not observable before"""
    d = proj(st)
    del d["live"], d["size"]
    pfut = list(d["pfut"])
    for t, pc in st["pc"].items():
        if pc == "push_resolve":
            pfut[st["hold"][t]["push"] - 1] = "unborn"
    d["pfut"] = pfut
    d["pend"] = {t: ("idle" if pc == "idle" else "resolve") for t, pc in st["pc"].items()}
    return d


def conc_replay(ctx):
    """interleavings of producer and consumer threads at critical-section grain, replayed on real threads: the
    queue's std::mutex is virtual (interposed pthread layer), so each critical section and the code that follows
    its unlock (hand-over, completion of the admitted push, unblock resolutions) are separately scheduled; a
    call that takes the lock a second time, or changes the queue after its unlock, diverges"""
    rpc = vlib.compile_harness(vlib.VERIF + "/harness/limited_queue_conc_replay.cpp", "limited_queue_conc_replay",
                               extra_flags=["-rdynamic"], sanitize=False)
    threads = ["p1", "p2", "c1", "c2"]
    deep = None if ctx.quick else {"ExtraPush": 3, "ExtraPop": 2}
    graph_replay(ctx, SPEC, SPEC, "LimitedQueue_conc_replay.cfg", "conc_replay", rpc, cproj,
                 header_fn=lambda k, st0: {"threads": threads, "limit": st0["limit"]}, must_take=ACTIONS,
                 max_paths=5000 if ctx.quick else None, extra_random=300 if ctx.quick else 3000,
                 constants=deep, tlc_kw={"workers": WORKERS})
    if ctx.quick:
        ctx.exhaustive = False
    ctx.assume("multi-thread replay at lock grain: atomic operations are not scheduling points (the promise/future "
               "protocol itself is decided by C01/C02); futures polled, no coroutines")


def run(ctx):
    # thorough: ASan/UBSan and the library's own asserts on (e.g. "Destroy of pending future")
    rp = vlib.compile_harness(vlib.VERIF + "/harness/limited_queue_replay.cpp", "limited_queue_replay",
                              sanitize=not ctx.quick, ndebug=ctx.quick)
    sd = os.path.join(vlib.VERIF, "spec", SPEC)

    # 1. every history of one client over push/pop/unblock_push/unblock_pop/destroy within the bounds,
    #    limits 1..4, every edge of the state graph replayed on the real limited_queue<int> and on
    #    limited_queue<instance-counting item, access-checking containers, misuse-checking lock>,
    #    consumers and producers polling or awaiting in coroutines
    def hdr(k, st0):
        # quick: one variant per scenario, rotating over the 8 combinations; thorough: that variant and
        # its complement, so every edge runs with both item types, polled and awaited on both sides
        names = [("int", "tracked"), ("poll", "coro"), ("poll", "coro")]
        bits = [(k >> i) & 1 for i in range(3)]
        vs = ["/".join(names[i][bits[i]] for i in range(3))]
        if not ctx.quick:
            vs.append("/".join(names[i][1 - bits[i]] for i in range(3)))
        return {"limit": st0["limit"], "variants": vs}
    deep = {} if ctx.quick else {"ExtraPush": 4, "ExtraPop": 3, "MaxUnblockPush": 3, "MaxUnblockPop": 2}
    for limit in LIMITS:
        # one TLC run per limit (small graphs, per-limit evidence)
        consts = dict(deep)
        consts["Limits"] = "{%d}" % limit
        graph_replay(ctx, SPEC, SPEC, "LimitedQueue_seq.cfg", "seq_l%d" % limit, rp, proj,
                     header_fn=hdr, merge_re=MERGE, must_take=ACTIONS, constants=consts,
                     extra_random=200 if ctx.quick else 2000, tlc_kw={"workers": WORKERS})

    # 2. all interleavings of 2 producer + 2 consumer threads at critical-section grain, limits 1..4 (TLC only)
    conc = None if ctx.quick else {"ExtraPop": 3, "MaxUnblockPush": 2}
    cfg = os.path.join(sd, "LimitedQueue_conc.cfg")
    if conc:
        base = open(cfg).read()
        cfg = os.path.join(vlib.BUILD, "%s_conc.cfg" % ctx.prop)
        vlib.write_cfg(cfg, base, conc)
    res = ctx.tlc(SPEC, SPEC, cfg, "conc", workers=WORKERS, timeout=3000)
    ctx.check_coverage(res, ACTIONS, "LimitedQueue/conc")
    if res.violation:
        ctx.tlc_violation(res, "LimitedQueue:LimitedQueue_conc.cfg")

    # 3. the same grain on real threads
    conc_replay(ctx)

    # 4. the properties are not vacuous: the model of the code before fca2138 (item enqueued *and*
    #    parked) must be rejected
    base = open(os.path.join(sd, "LimitedQueue_seq.cfg")).read()
    pre = os.path.join(vlib.BUILD, "%s_prefix.cfg" % ctx.prop)
    vlib.write_cfg(pre, base, {"Fixed": "FALSE"})
    r = vlib.run_tlc(sd, SPEC, pre, "%s_prefix" % ctx.prop, workers=2, coverage=False)
    if not r.violation:
        raise vlib.MachineryError("LimitedQueue properties accept the pre-fix model (Fixed = FALSE): vacuous")
    ctx.extra["prefix_model_rejected_by"] = r.violation

    ctx.assume("interleavings of 2 producer + 2 consumer threads are decided on the specification at critical-section "
               "grain; the implementation is bound to that grain (a) by single-threaded replays of every edge with "
               "instrumented containers/lock (the library's Queue/Lock template parameters) reporting any access to "
               "queue state outside the lock and any coroutine resumed under it, and (b) by replaying the interleavings of "
               "a smaller 2+2 thread configuration (limits 1..2) on real threads with the queue's mutex virtualised: one "
               "scheduled step per critical section and per post-unlock resolution; the large concurrent model "
               "(limits 1..4) is TLC only")
    ctx.assume("item types int and an instance-counting class; limits 1..4; limit 0 (no push can ever complete) excluded; "
               "limited_queue<void> does not instantiate (std::pair<void,...>) and is not covered")
    ctx.assume("futures are abstracted to pending|value|exception|canceled with a single resolver each "
               "(justified by C01/C02); the replay uses the real futures; a future awaited by at most one coroutine")
    ctx.assume("bounds: at most limit+3 pushes, limit+2 pops, 2 unblock_push, 2 unblock_pop per history in quick "
               "(limit+4, limit+3, 3, 2 in thorough); concurrent model: limit+3 pushes, limit+2 (thorough limit+3) pops, "
               "1 (thorough 2) unblock_push, 1 unblock_pop")
