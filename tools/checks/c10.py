"""C10 -- bounded queue (cocls::limited_queue): back-pressure without losing or duplicating items."""
import os

import vlib
from framework import graph_replay

SPEC = "LimitedQueue"
ACTIONS = ["PushCS", "PushResolve", "PopCS", "PopCompletePush", "UnblockPushCS", "UnblockPushResolve",
           "UnblockPopCS", "UnblockPopResolve", "Destroy"]
MERGE = r"(PushResolve|PopCompletePush|UnblockPushResolve|UnblockPopResolve)$"
WORKERS = 4
LIMITS = (1, 2, 3, 4)


def proj(st):
    """specification state -> what the replayer observes on the real limited_queue"""
    npush = st["npush"]
    live = [0] * (npush + 1)
    for v in st["items"]:
        live[v] += 1
    for b in st["blocked"]:
        live[b["v"]] += 1
    for f in st["fut"]:
        if f["st"] == "val":
            live[f["v"]] += 1
    ret = st["ret"]
    return {
        "destroyed": st["destroyed"],
        "limit": st["limit"],
        "items": list(st["items"]),
        "waiters": list(st["waiters"]),
        "blocked": [{"v": b["v"], "push": b["push"]} for b in st["blocked"]],
        "fut": [{"st": f["st"], "v": f["v"]} for f in st["fut"]],
        "pfut": list(st["pfut"]),
        "live": live[1:],          # places holding each pushed value: queue, blocked, delivered
        "size": len(st["items"]),  # limited_queue::size()
        "npush": npush,
        "npop": st["npop"],
        "ret": dict(ret) if isinstance(ret, dict) else {},
    }


def run(ctx):
    rp = vlib.compile_harness(vlib.VERIF + "/harness/limited_queue_replay.cpp", "limited_queue_replay",
                              sanitize=not ctx.quick)
    sd = os.path.join(vlib.VERIF, "spec", SPEC)

    # 1. every history of one client over push/pop/unblock_push/unblock_pop/destroy, limits 1..4
    #    (the limit is picked in Init), replayed on the real limited_queue<int> / <tracked item>,
    #    consumers and producers polling or awaiting in coroutines
    def hdr(k, st0):
        if ctx.quick:
            return {"limit": st0["limit"], "mode": "coro" if k % 2 else "poll", "pmode": "coro" if (k // 2) % 2 else "poll",
                    "item": "tracked" if (k // 4) % 2 else "int"}
        return {"limit": st0["limit"], "mode": "all", "pmode": "all", "item": "all"}
    deep = {} if ctx.quick else {"ExtraPush": 4, "ExtraPop": 3, "MaxUnblockPush": 3, "MaxUnblockPop": 2}
    for limit in LIMITS:
        # one TLC run per limit: the path cover wants a single initial state
        consts = dict(deep)
        consts["Limits"] = "{%d}" % limit
        graph_replay(ctx, SPEC, SPEC, "LimitedQueue_seq.cfg", "seq_l%d" % limit, rp, proj, header_fn=hdr,
                     merge_re=MERGE, must_take=ACTIONS, constants=consts, extra_random=200 if ctx.quick else 2000,
                     tlc_kw={"workers": WORKERS})

    # 2. all interleavings of 2 producer + 2 consumer threads at critical-section grain (design level)
    conc = None if ctx.quick else {"ExtraPop": 3, "MaxUnblockPush": 2}
    cfg = os.path.join(sd, "LimitedQueue_conc.cfg")
    if conc:
        base = open(cfg).read()
        cfg = os.path.join(vlib.BUILD, "%s_conc.cfg" % ctx.prop)
        vlib.write_cfg(cfg, base, conc)
    res = ctx.tlc(SPEC, SPEC, cfg, "conc", workers=WORKERS, timeout=3000)
    ctx.check_coverage(res, ACTIONS, "LimitedQueue/conc")
    if res.violation:
        ctx.tlc_violation(res, "LimitedQueue:LimitedQueue_conc.cfg")

    # 3. the properties are not vacuous: the model of the code before fca2138 (item enqueued *and*
    #    parked) must be rejected
    base = open(os.path.join(sd, "LimitedQueue_seq.cfg")).read()
    pre = os.path.join(vlib.BUILD, "%s_prefix.cfg" % ctx.prop)
    vlib.write_cfg(pre, base, {"Fixed": "FALSE"})
    r = vlib.run_tlc(sd, SPEC, pre, "%s_prefix" % ctx.prop, workers=2, coverage=False)
    if not r.violation:
        raise vlib.MachineryError("LimitedQueue properties accept the pre-fix model (Fixed = FALSE): vacuous")
    ctx.extra["prefix_model_rejected_by"] = r.violation

    ctx.assume("interleavings of producer/consumer threads are decided on the specification (critical-section grain: "
               "every access to the queue state is under _mx; promise resolutions outside the lock are separate "
               "actions); the implementation is bound to it by single-threaded replays of every specification edge")
    ctx.assume("item type int and an instance-counting item type; limits 1..4; limit 0 (no progress possible) excluded")
    ctx.assume("futures are abstracted to pending|value|exception|canceled with a single resolver each "
               "(justified by C01/C02); the replay uses the real futures")
