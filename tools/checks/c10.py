"""C10 -- bounded queue (cocls::limited_queue): back-pressure without losing or duplicating items."""
import os

import vlib
from framework import graph_replay

SPEC = "LimitedQueue"
ACTIONS = ["PushCS", "PushResolve", "PopCS", "PopCompletePush", "UnblockPushCS", "UnblockPushResolve",
           "UnblockPopCS", "UnblockPopResolve", "Destroy"]
MERGE = r"(PushResolve|PopCompletePush|UnblockPushResolve|UnblockPopResolve)$"
WORKERS = 4
LIMITS = (1, 2, 3, 4)


def fast_cover_paths(g, rng, max_paths=None, full=True, max_len=400, want_terminal=True):
    """Drop-in replacement for vlib.cover_paths for *acyclic* state graphs (every LimitedQueue action
    increases a counter, leaves a resolution state or destroys the queue).  Same contract: a set of
    root-to-terminal paths covering every edge, each path preferring uncovered edges.  vlib.cover_paths
    runs a breadth-first search from the root for every path (quadratic: 200 s for 3*10^4 edges) and
    stops early when one of several initial states has its sub-graph covered; here the distance to the
    nearest uncovered edge is maintained incrementally (amortised near-linear)."""
    out = {n: [(l, d) for (l, d) in es if d != n] for n, es in g.edges.items()}
    # acyclic?  (iterative DFS, colours) -- otherwise use the shared implementation
    colour = {}
    for root in out:
        if root in colour:
            continue
        stack = [(root, 0)]
        colour[root] = 1
        while stack:
            n, i = stack.pop()
            if i < len(out[n]):
                stack.append((n, i + 1))
                d = out[n][i][1]
                c = colour.get(d, 0)
                if c == 1:
                    return _orig_cover_paths(g, rng, max_paths=max_paths, full=full, max_len=max_len,
                                             want_terminal=want_terminal)
                if c == 0:
                    colour[d] = 1
                    stack.append((d, 0))
            else:
                colour[n] = 2
    total = sum(len(v) for v in out.values())
    uncovered = {n: list(range(len(es))) for n, es in out.items()}   # indices of uncovered out-edges
    pred = {}
    for n, es in out.items():
        for (_, d) in es:
            pred.setdefault(d, []).append(n)
    # du[n]: distance from n to the nearest node (n included) that has an uncovered out-edge; INF when
    # everything below n is covered.  Kept exact: it only grows, and growth is propagated to predecessors.
    INF = 1 << 30
    du = {n: (0 if es else INF) for n, es in out.items()}

    def node_done(n):
        # the last uncovered edge of n was taken
        work = [n]
        while work:
            m = work.pop()
            if uncovered[m]:
                continue
            best = min((du[d] for (_, d) in out[m]), default=INF)
            v = best + 1 if best < INF else INF
            if v != du[m]:
                du[m] = v
                work.extend(pred.get(m, ()))

    # distance to the nearest terminal state (acyclic: memoised depth-first)
    dist_term = {}
    for root in out:
        stack = [root]
        while stack:
            m = stack[-1]
            if m in dist_term:
                stack.pop()
                continue
            todo = [d for (_, d) in out[m] if d not in dist_term]
            if todo:
                stack.extend(todo)
            else:
                dist_term[m] = 1 + min(dist_term[d] for (_, d) in out[m]) if out[m] else 0
                stack.pop()

    paths = []
    ncov = 0
    inits = [i for i in g.init]
    while inits:
        if max_paths is not None and len(paths) >= max_paths:
            break
        inits = [i for i in inits if du[i] < INF]
        if not inits:
            break
        init = rng.choice(inits)
        cur = init
        steps = []
        while True:
            unc = uncovered[cur]
            if unc:
                # prefer an uncovered edge below which more is to be covered (the path stays productive)
                good = [j for j in range(len(unc)) if du[out[cur][unc[j]][1]] < INF]
                j = rng.choice(good) if good else rng.randrange(len(unc))
                unc[j], unc[-1] = unc[-1], unc[j]
                i = unc.pop()
                ncov += 1
                e = out[cur][i]
                if not unc:
                    node_done(cur)
            else:
                if du[cur] >= INF:
                    break
                # towards the nearest node with an uncovered edge
                e = rng.choice([x for x in out[cur] if du[x[1]] == du[cur] - 1])
            steps.append(e)
            cur = e[1]
        # everything below cur is covered; extend to a terminal state along a shortest way
        while want_terminal and out[cur]:
            e = min(out[cur], key=lambda x: dist_term[x[1]])
            steps.append(e)
            cur = e[1]
        paths.append((init, steps))
    return paths, ncov, total


_orig_cover_paths = vlib.cover_paths


def covered_graph_replay(*a, **kw):
    """graph_replay with the linear path cover (framework.graph_replay looks the function up in vlib)"""
    vlib.cover_paths = fast_cover_paths
    try:
        return graph_replay(*a, **kw)
    finally:
        vlib.cover_paths = _orig_cover_paths


def proj(st):
    """specification state -> what the replayer observes on the real limited_queue"""
    npush = st["npush"]
    live = [0] * (npush + 1)
    for v in st["items"]:
        live[v] += 1
    for b in st["blocked"]:
        live[b["v"]] += 1
    for f in st["fut"]:
        if f["st"] == "val":
            live[f["v"]] += 1
    ret = st["ret"]
    return {
        "destroyed": st["destroyed"],
        "limit": st["limit"],
        "items": list(st["items"]),
        "waiters": list(st["waiters"]),
        "blocked": [{"v": b["v"], "push": b["push"]} for b in st["blocked"]],
        "fut": [{"st": f["st"], "v": f["v"]} for f in st["fut"]],
        "pfut": list(st["pfut"]),
        "live": live[1:],          # places holding each pushed value: queue, blocked, delivered
        "size": len(st["items"]),  # limited_queue::size()
        "npush": npush,
        "npop": st["npop"],
        "ret": dict(ret) if isinstance(ret, dict) else {},
    }


def run(ctx):
    # thorough: ASan/UBSan and the library's own asserts on (e.g. "Destroy of pending future")
    rp = vlib.compile_harness(vlib.VERIF + "/harness/limited_queue_replay.cpp", "limited_queue_replay",
                              sanitize=not ctx.quick, ndebug=ctx.quick)
    sd = os.path.join(vlib.VERIF, "spec", SPEC)

    # 1. every history of one client over push/pop/unblock_push/unblock_pop/destroy within the bounds,
    #    limits 1..4, every edge of the state graph replayed on the real limited_queue<int> and on
    #    limited_queue<instance-counting item, access-checking containers, misuse-checking lock>,
    #    consumers and producers polling or awaiting in coroutines
    def hdr(k, st0):
        # quick: one variant per scenario, rotating over the 8 combinations; thorough: that variant and
        # its complement, so every edge runs with both item types, polled and awaited on both sides
        names = [("int", "tracked"), ("poll", "coro"), ("poll", "coro")]
        bits = [(k >> i) & 1 for i in range(3)]
        vs = ["/".join(names[i][bits[i]] for i in range(3))]
        if not ctx.quick:
            vs.append("/".join(names[i][1 - bits[i]] for i in range(3)))
        return {"limit": st0["limit"], "variants": vs}
    deep = {} if ctx.quick else {"ExtraPush": 4, "ExtraPop": 3, "MaxUnblockPush": 3, "MaxUnblockPop": 2}
    for limit in LIMITS:
        # one TLC run per limit: the path cover wants a single initial state
        consts = dict(deep)
        consts["Limits"] = "{%d}" % limit
        covered_graph_replay(ctx, SPEC, SPEC, "LimitedQueue_seq.cfg", "seq_l%d" % limit, rp, proj,
                             header_fn=hdr, merge_re=MERGE, must_take=ACTIONS, constants=consts,
                             extra_random=200 if ctx.quick else 2000, tlc_kw={"workers": WORKERS})

    # 2. all interleavings of 2 producer + 2 consumer threads at critical-section grain (design level)
    conc = None if ctx.quick else {"ExtraPop": 3, "MaxUnblockPush": 2}
    cfg = os.path.join(sd, "LimitedQueue_conc.cfg")
    if conc:
        base = open(cfg).read()
        cfg = os.path.join(vlib.BUILD, "%s_conc.cfg" % ctx.prop)
        vlib.write_cfg(cfg, base, conc)
    res = ctx.tlc(SPEC, SPEC, cfg, "conc", workers=WORKERS, timeout=3000)
    ctx.check_coverage(res, ACTIONS, "LimitedQueue/conc")
    if res.violation:
        ctx.tlc_violation(res, "LimitedQueue:LimitedQueue_conc.cfg")

    # 3. the properties are not vacuous: the model of the code before fca2138 (item enqueued *and*
    #    parked) must be rejected
    base = open(os.path.join(sd, "LimitedQueue_seq.cfg")).read()
    pre = os.path.join(vlib.BUILD, "%s_prefix.cfg" % ctx.prop)
    vlib.write_cfg(pre, base, {"Fixed": "FALSE"})
    r = vlib.run_tlc(sd, SPEC, pre, "%s_prefix" % ctx.prop, workers=2, coverage=False)
    if not r.violation:
        raise vlib.MachineryError("LimitedQueue properties accept the pre-fix model (Fixed = FALSE): vacuous")
    ctx.extra["prefix_model_rejected_by"] = r.violation

    ctx.assume("interleavings of producer/consumer threads are decided on the specification at critical-section grain "
               "(2 producers + 2 consumers, TLC only); the implementation is bound to that grain by single-threaded "
               "replays of every specification edge, with instrumented containers/lock (the library's Queue/Lock "
               "template parameters) reporting any access to queue state outside the lock and any coroutine resumed "
               "under it; no real-thread schedule is executed for this property")
    ctx.assume("item types int and an instance-counting class; limits 1..4; limit 0 (no push can ever complete) excluded; "
               "limited_queue<void> does not instantiate (std::pair<void,...>) and is not covered")
    ctx.assume("futures are abstracted to pending|value|exception|canceled with a single resolver each "
               "(justified by C01/C02); the replay uses the real futures; a future awaited by at most one coroutine")
    ctx.assume("bounds: at most limit+3 pushes, limit+2 pops, 2 unblock_push, 2 unblock_pop per history in quick "
               "(limit+4, limit+3, 3, 2 in thorough); concurrent model: limit+3 pushes, limit+2 (thorough limit+3) pops, "
               "1 (thorough 2) unblock_push, 1 unblock_pop")
