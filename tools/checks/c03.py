"""C03 -- cross-thread operations are data-race free and publish results safely.

The memory order of every atomic site of the lock-free protocols is *extracted from the running code*
(the instrumented atomics log site, operation and the order arguments passed by the call site while
the Future/Mutex schedules are replayed and while harness/mo_probe.cpp drives the storage and generator
sites), turned into the CONSTANTS of the weak-memory models spec/WMM/*WMM.tla, and TLC decides
DataRaceFree / PublishesSafely over all executions of the view-based C++11 model."""
import os
import re

import vlib
from vlib import MachineryError
from framework import graph_replay
from checks import futurelib as fl
from checks import mutexlib as ml

# constant -> (operation, label of the atomic object (registered by the harness) or None, regex on the enclosing
# function of the call site or None, discriminator).  Sites are identified by the OBJECT they operate on wherever the
# harness can name it (robust against renamed functions); the function name is only used where the object lives
# inside a coroutine frame or on a waiter's stack.
SITES = {
    "MO_resolve": ("xchg", "future.slot", None),
    "MO_ready": ("load", "future.slot", r"::ready\(\)"),      # pending()/initialized() also load the slot (relaxed, no publication)
    "MO_sub": ("cas", "future.slot", None),
    "MO_fence": ("fence", None, r"subscribe|awaiter"),
    "MO_flag_store": ("store", "-", r"sync_awaiter"),
    "MO_flag_wait": ("wait", "-", r"co_awaiter<"),
    "MO_try": ("cas", "mutex.requests", r"ready\(|try_lock"),
    "MO_msub": ("cas", "mutex.requests", r"subscribe\("),
    "MO_bq": ("xchg", "mutex.requests", None),
    "MO_ucas": ("cas", "mutex.requests", r"unlock"),
    "MO_busy_xchg": ("xchg", "mtsafe_storage", None),
    "MO_busy_store": ("store", "mtsafe_storage", None),
    "MO_block_reset": ("store", "-", r"promise_type::next_sync"),
    "MO_block_set": ("store", "-", r"promise_type::unblock_sync"),
    "MO_block_wait": ("wait", "-", r"promise_type::next_sync"),
}


def fail_order(mo, given):
    if given != "none":
        return given
    return {"acq_rel": "acquire", "release": "relaxed"}.get(mo, mo)


def read_tables(paths):
    rows = set()
    for p in paths:
        if not os.path.exists(p):
            raise MachineryError("memory-order table %s was not written" % p)
        for line in open(p):
            parts = line.rstrip("\n").split("\t")
            if len(parts) == 5:
                rows.add(tuple(parts))
        os.remove(p)
    return rows


def bind(rows):
    """-> dict constant -> order (CAS sites give X and X_fail)"""
    out = {}
    for const, (op, label, rx) in SITES.items():
        found = {(r[3], r[4]) for r in rows if r[0] == op and (label is None or r[1] == label) and (rx is None or re.search(rx, r[2]))}
        if not found and const == "MO_fence":
            # no fence is executed at all on the refused-subscription path: model it as absent
            out[const] = "relaxed"
            continue
        if not found:
            raise MachineryError("unbound site: no executed %s on %s matching /%s/ (needed for %s)" % (op, label, rx, const))
        if len(found) > 1:
            raise MachineryError("ambiguous site %s: %s" % (const, sorted(found)))
        mo, mof = next(iter(found))
        if op == "cas":
            if const == "MO_sub":
                out["MO_sub_ok"] = mo
                out["MO_sub_fail"] = fail_order(mo, mof)
            else:
                out[const] = mo
                out[const + "_fail"] = fail_order(mo, mof)
        else:
            out[const] = mo
    return out


MODELS = [
    # (module, base cfg, constants used, extra constants, scenario name)
    ("FutureWMM", "FutureWMM_base.cfg", ["MO_resolve", "MO_ready", "MO_sub_ok", "MO_sub_fail", "MO_fence", "MO_flag_store", "MO_flag_wait"],
     {"Blocking": "TRUE"}, "future-blocking-waiter"),
    ("FutureWMM", "FutureWMM_base.cfg", ["MO_resolve", "MO_ready", "MO_sub_ok", "MO_sub_fail", "MO_fence", "MO_flag_store", "MO_flag_wait"],
     {"Blocking": "FALSE"}, "future-coroutine-waiter"),
    ("MutexWMM", "MutexWMM_base.cfg", ["MO_try", "MO_try_fail", "MO_msub", "MO_msub_fail", "MO_bq", "MO_ucas", "MO_ucas_fail", "MO_flag_store", "MO_flag_wait"],
     {"Blocking": "TRUE"}, "mutex-blocking-contender"),
    ("MutexWMM", "MutexWMM_base.cfg", ["MO_try", "MO_try_fail", "MO_msub", "MO_msub_fail", "MO_bq", "MO_ucas", "MO_ucas_fail", "MO_flag_store", "MO_flag_wait"],
     {"Blocking": "FALSE"}, "mutex-coroutine-contender"),
    ("StorageWMM", "StorageWMM_base.cfg", ["MO_busy_xchg", "MO_busy_store"], {}, "reusable_storage_mtsafe"),
    ("GenBlockWMM", "GenBlockWMM_base.cfg", ["MO_block_reset", "MO_block_set", "MO_block_wait"], {}, "generator-block-flag"),
]


def run(ctx):
    rpf = fl.build(ctx)
    rpm = ml.build(ctx)
    probe = vlib.compile_harness(os.path.join(vlib.VERIF, "harness/mo_probe.cpp"), "mo_probe")
    tables = []
    # 1. control skeleton bound by replay (same replays as C01/C02/C07), sites logged meanwhile
    fjobs = [(["val"], ["bl", "co"]), (["exc", "drop"], ["co", "bl"]), (["val", "dtor"], ["cb", "hv"])]
    mjobs = [["co", "bl"], ["co", "co"], ["bl", "try"]]
    if not ctx.quick:
        fjobs += [(["final"], ["bl", "co", "cb"]), (["mdes"], ["bl", "bl"])]
        mjobs += [["co", "bl", "co"]]
    for k, (r, w) in enumerate(fjobs):
        consts, rk, wk = fl.mix_constants(r, w)
        t = os.path.join(vlib.BUILD, "C03_mot_f%d.txt" % k)
        tables.append(t)
        graph_replay(ctx, "Future", "Future", "Future_base.cfg", "f%d" % k, rpf,
                     lambda st, rk=rk, wk=wk: fl.proj(fl.fix_empty(dict(st)), rk, wk),
                     header_fn=lambda i, st0, rk=rk, wk=wk: {"R": rk, "W": wk}, constants=consts,
                     max_paths=300 if ctx.quick else None, tlc_kw={"workers": 4}, env={"VSCHED_MOTABLE": t})
    for k, mix in enumerate(mjobs):
        consts, pk = ml.mix_constants(mix)
        t = os.path.join(vlib.BUILD, "C03_mot_m%d.txt" % k)
        tables.append(t)
        graph_replay(ctx, "Mutex", "Mutex", "Mutex_base.cfg", "m%d" % k, rpm, lambda st, pk=pk: ml.proj(st, pk),
                     header_fn=lambda i, st0, pk=pk: ml.header(pk, i), constants=consts,
                     max_paths=300 if ctx.quick else 5000, tlc_kw={"workers": 4}, env={"VSCHED_MOTABLE": t})
    if ctx.violations:
        return
    t = os.path.join(vlib.BUILD, "C03_mot_probe.txt")
    tables.append(t)
    rc, out = vlib.run_cmd([probe], timeout=120, env={"VSCHED_MOTABLE": t})
    if rc != 0 or "PROBE ok" not in out:
        ctx.violation("mo_probe", "storage/generator probe scenario failed under the controlled scheduler: " + out[-500:],
                      "#mo_probe\n" + out[-2000:], kind="txt")
        return
    rows = read_tables(tables)
    mos = bind(rows)
    ctx.extra["memory_orders_extracted_from_code"] = mos
    # 2. weak-memory models with the extracted orders
    sd = os.path.join(vlib.VERIF, "spec", "WMM")
    for (module, base, used, extra, scen) in MODELS:
        consts = {k: '"%s"' % mos[k] for k in used}
        consts.update(extra)
        cfg = os.path.join(vlib.BUILD, "C03_%s_%s.cfg" % (module, scen))
        vlib.write_cfg(cfg, open(os.path.join(sd, base)).read(), consts)
        res = ctx.tlc("WMM", module, cfg, "wmm_" + scen, workers=4, coverage=False)
        if res.violation:
            desc = ""
            if res.trace:
                desc = str(res.trace[-1][1].get("racedesc", ""))
            txt = "# %s scenario %s with memory orders extracted from the code:\n# %s\n" % (module, scen, consts)
            ctx.tlc_violation(res, module + ":" + scen, key="wmm:%s:%s:%s" % (scen, res.violated_name, desc), replay_extra=txt)
        ctx.sample({"model": module, "scenario": scen, "orders": {k: mos[k] for k in used}, "distinct_states": res.distinct})
    # 3. lock-based components: the shape of every critical section (which state changes happen under the lock, which
    # lock operations a call performs, nothing guarded touched after the unlock) is bound by the multi-thread replays at
    # lock grain of the queue and of the thread pool (interposed std::mutex / condition_variable)
    from checks import c09, c11
    c09.conc_replay(ctx, tag="lockq", max_paths_quick=600)
    rpp = vlib.compile_harness(os.path.join(vlib.VERIF, "harness/pool_replay.cpp"), "pool_replay", extra_flags=["-rdynamic"])
    # ("d:stop": a second client thread calling stop() -- two overlapping stop() calls, see c11.split_script)
    for k, (script, nw) in enumerate([(["co", "fn", "stop"], 1), (["det", "stop", "fn", "co"], 2), (["fn", "wst", "co"], 2),
                                      (["co", "stop", "d:stop"], 1)]):
        c11.run_script(ctx, rpp, script, nw, "lockp%d" % k, 300 if ctx.quick else 3000)
    # scheduler in thread mode (client thread vs. the scheduler's own worker; virtual clock): same argument
    from checks import c12thread
    rps = c12thread.build()
    for k, sc in enumerate(c12thread.SCRIPTS[3:6] if ctx.quick else c12thread.SCRIPTS[1:] + c12thread.SCRIPTS_MORE[:2]):
        c12thread.run_script(ctx, rps, sc, "locks%d" % k, True, 300 if ctx.quick else 3000)
    # scheduler + thread_pool (scheduler mutex held while the pool mutex is taken): SchedulerPool.tla
    from checks import c12pool
    c12pool.pool_mode(ctx, scripts=c12pool.SCRIPTS[:3] if ctx.quick else None, max_paths=100 if ctx.quick else None)
    # publisher: publishing/closing/kicking on one thread against subscriber threads (PublisherConc.tla at lock grain)
    from checks import c16
    c16.conc_replay(ctx, tag="lockpub", max_paths_quick=500)
    # generator_aggregator's internal queue: sources pushing from their own threads against the aggregate's pop (AggregatorConc.tla)
    from checks import c14
    c14.conc_replay(ctx, tag="lockagg", max_paths_quick=400, sources=(2,))
    ctx.assume("view-based RA+relaxed model (no load-buffering / out-of-thin-air executions), writes appended to the modification order, <= 7 messages per location, 2 threads per scenario")
    ctx.assume("plain accesses are where the WMM scenario programs place them (transcribed from the code); compiler transformations are trusted")
    ctx.assume("lock-based components: queue, thread_pool and scheduler (thread mode) are bound by lock-grain replay (a moved/removed/added lock "
               "operation or a guarded state change after the unlock diverges); publisher: publishing, closing and kicking on one thread against "
               "subscriber threads (blocking, polled and coroutine next(), construction/copy/destruction) is bound by the lock-grain replay of "
               "PublisherConc.tla (a guarded access moved out of the lock, a method that lost its lock_guard, a wake-up inside the lock, an added or "
               "removed critical section diverge); data-race freedom of the guarded state then follows from the mutex")
