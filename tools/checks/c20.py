"""C20 -- the core synchronisation primitives never allocate.

The `allocs` / `frames` observations of the Future and Mutex replays: every operator new executed by a
party thread inside library calls is counted by the replaced global operator new; the specification
allows none (Future: allocs = 0 in every state; Mutex: only the coroutine frames the user creates)."""
from checks import futurelib as fl
from checks import mutexlib as ml


def run(ctx):
    rpf = fl.build(ctx)
    rpm = ml.build(ctx)
    # creating, resolving, awaiting (coroutine / blocking / callback) and destroying future/promise pairs;
    # up to three ready coroutines carried by the suspend point returned from the resolution
    fjobs = [(["val"], ["co", "co", "co"]), (["exc", "dtor"], ["co", "bl"]), (["drop"], ["cb", "hv", "bl"]),
             (["val", "val"], ["co", "cb"]), (["final"], ["co", "co", "bl"]), (["mdes"], ["bl", "cb"])]
    mjobs = [["co", "co"], ["co", "bl"], ["co", "co", "co"], ["co", "bl", "try"], ["bl", "bl"], ["bl", "try"]]
    if not ctx.quick:
        fjobs += [(r, w) for r in (["val"], ["exc"], ["drop"], ["dtor"]) for w in fl.waiter_mixes(3) if len(w) == 3][:40]
        mjobs += [["co", "co", "co", "co"], ["bl", "bl", "co"], ["co", "co", "bl", "try"]]
    else:
        ctx.exhaustive = False
    fl.run_mixes(ctx, rpf, fjobs, max_paths=300 if ctx.quick else None)
    fm = ctx.extra.get("mixes", [])
    # the same protocol over a 64-byte tracked payload (does not fit the small buffers of type-erasing wrappers; copies
    # are counted: constructed in place, read by reference - the library never needs to copy it), every API form, and the
    # value resolver going through promise::bind(args...)()
    rpb = fl.build_big(ctx)
    fl.run_mixes(ctx, rpb, fjobs[:3] if ctx.quick else fjobs[:12], max_paths=200 if ctx.quick else None, tagp="b")
    fl.run_mixes(ctx, rpb, [(["val"], ["co"]), (["val"], ["bl", "cb"]), (["val"], [])] + ([] if ctx.quick else [(["val"], ["co", "co", "co"]), (["val"], ["hv", "bl"])]),
                 max_paths=200 if ctx.quick else None, tagp="bind", bind=True)
    ml.run_mixes(ctx, rpm, mjobs, max_paths=300 if ctx.quick else 20000)
    ctx.extra["mixes"] = {"future": fm, "mutex": ctx.extra.get("mixes", [])}
    # stepping a synchronous generator in every access style (Generator.tla restricted to synchronous bodies): the
    # replayer counts operator new inside each consumer access; the specification fixes the total at 0
    from checks import c13
    c13.alloc_replay(ctx)
    # frames under a non-heap storage policy (Storage.tla slice: warm-up sequences of stack / reusable / mtsafe storages)
    from checks import c19
    c19.alloc_replay(ctx)
    # async results: a tracked owning result type through every delivery form (Async.tla PayloadIntact): no copy, no allocation
    from checks import c04
    c04.alloc_replay(ctx)
    # carrying up to three ready coroutines in a suspend point: SuspendPoint.tla's InlineNoAlloc, replayed
    try:
        from checks import c06
        if hasattr(c06, "alloc_replay"):
            c06.alloc_replay(ctx)
    except ImportError:
        pass
    ctx.assume("value types int and a 64-byte trivially destructible tracked object (neither allocates); std::make_exception_ptr of the test exception is the caller's allocation")
    ctx.assume("the lazily constructed thread-local ready queue (std::deque, once per thread) is not attributed to any operation: threads touch it before measurement")
    ctx.assume("more than three coroutine waiters released by one resolution (suspend point heap growth) is outside the property's 'up to three' clause and not exercised here")
