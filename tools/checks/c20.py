"""C20 -- the core synchronisation primitives never allocate.

The `allocs` / `frames` observations of the Future and Mutex replays: every operator new executed by a
party thread inside library calls is counted by the replaced global operator new; the specification
allows none (Future: allocs = 0 in every state; Mutex: only the coroutine frames the user creates)."""
from checks import futurelib as fl
from checks import mutexlib as ml


def run(ctx):
    # the future replayer over int, a 64-byte copy-counted object, and a move-only instance-counted object that is OVER-ALIGNED
    # (alignas(64) > __STDCPP_DEFAULT_NEW_ALIGNMENT__: a heap copy of it would go through the aligned forms of operator new; the
    # replaced global operator new counts every form - plain, array, aligned, nothrow)
    fb = fl.build_all(ctx, ["int", "big", "trk64"])
    rpf = fb["int"]
    rpm = ml.build(ctx)
    # creating, resolving, awaiting (coroutine / blocking / callback) and destroying future/promise pairs;
    # up to three ready coroutines carried by the suspend point returned from the resolution
    fjobs = [(["val"], ["co", "co", "co"]), (["exc", "dtor"], ["co", "bl"]), (["drop"], ["cb", "hv", "bl"]),
             (["val", "val"], ["co", "cb"]), (["final"], ["co", "co", "bl"]), (["mdes"], ["bl", "cb"])]
    mjobs = [["co", "co"], ["co", "bl"], ["co", "co", "co"], ["co", "bl", "try"], ["bl", "bl"], ["bl", "try"]]
    if not ctx.quick:
        fjobs += [(r, w) for r in (["val"], ["exc"], ["drop"], ["dtor"]) for w in fl.waiter_mixes(3) if len(w) == 3][:40]
        mjobs += [["co", "co", "co", "co"], ["bl", "bl", "co"], ["co", "co", "bl", "try"]]
    else:
        ctx.exhaustive = False
    fl.run_mixes(ctx, rpf, fjobs, max_paths=300 if ctx.quick else None)
    fm = ctx.extra.get("mixes", [])
    # the same protocol over a 64-byte tracked payload (does not fit the small buffers of type-erasing wrappers; copies
    # are counted: constructed in place, read by reference - the library never needs to copy it), every API form, and the
    # value resolver going through promise::bind(args...)()
    rpb = fb["big"]
    mp = 200 if ctx.quick else None
    more = [{"rp": rpb, "r": r, "w": w, "tag": "b%d" % k, "max_paths": mp} for k, (r, w) in enumerate(fjobs[:3] if ctx.quick else fjobs[:12])]
    bindjobs = [(["val"], ["co"]), (["val"], ["bl", "cb"]), (["val"], [])] + ([] if ctx.quick else [(["val"], ["co", "co", "co"]), (["val"], ["hv", "bl"])])
    more += [{"rp": rpb, "r": r, "w": w, "tag": "bind%d" % k, "max_paths": mp, "bind": True} for k, (r, w) in enumerate(bindjobs)]
    # the over-aligned move-only object: resolution by every value-taking call form (operator(), set_value, async::start(promise),
    # co_return of a started coroutine, bind(x)()), waiting and reading by every kind of waiter: allocs stays 0 on every step, and so
    # do the instance counts (one stored instance when a value won, none otherwise)
    tjobs = [(["val"], ["co", "co", "co"]), (["val", "val"], ["co", "cb"]), (["val", "exc"], ["bl", "hv"]), (["final"], ["co", "bl"])]
    if not ctx.quick:
        tjobs += [(["val", "dtor"], ["cb", "bl", "co"]), (["val", "drop", "mdes"], ["co"]), (["val"], ["hv", "hv", "bl"]), (["val", "ovw"], ["co", "cb"])]
    more += [{"rp": fb["trk64"], "r": r, "w": w, "tag": "t%d" % k, "max_paths": mp, "trk": True} for k, (r, w) in enumerate(tjobs)]
    more += [{"rp": fb["trk64"], "r": r, "w": w, "tag": "tbind%d" % k, "max_paths": mp, "trk": True, "bind": True}
             for k, (r, w) in enumerate(bindjobs[:2] if ctx.quick else bindjobs)]
    fl.run_jobs(ctx, more, par=8)
    fm = fm + ctx.extra.get("more_mixes", [])
    ml.run_mixes(ctx, rpm, mjobs, max_paths=300 if ctx.quick else 20000)
    ctx.extra["mixes"] = {"future": fm, "mutex": ctx.extra.get("mixes", [])}
    # stepping a synchronous generator in every access style (Generator.tla restricted to synchronous bodies): the
    # replayer counts operator new inside each consumer access; the specification fixes the total at 0
    from checks import c13
    c13.alloc_replay(ctx)
    # frames under a non-heap storage policy (Storage.tla slice: warm-up sequences of stack / reusable / mtsafe storages)
    from checks import c19
    c19.alloc_replay(ctx)
    # async results: a tracked owning result type through every delivery form (Async.tla PayloadIntact): no copy, no allocation
    from checks import c04
    c04.alloc_replay(ctx)
    # carrying up to three ready coroutines in a suspend point: SuspendPoint.tla's InlineNoAlloc, replayed
    try:
        from checks import c06
        if hasattr(c06, "alloc_replay"):
            c06.alloc_replay(ctx)
    except ImportError:
        pass
    ctx.assume("value types int, a 64-byte trivially destructible tracked object and a move-only instance-counted alignas(64) object (none allocates); std::make_exception_ptr of the test exception is the caller's allocation")
    ctx.assume("the lazily constructed thread-local ready queue (std::deque, once per thread) is not attributed to any operation: threads touch it before measurement")
    ctx.assume("more than three coroutine waiters released by one resolution (suspend point heap growth) is outside the property's 'up to three' clause and not exercised here")
