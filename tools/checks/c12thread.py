"""C12, thread mode: spec/Scheduler/SchedulerThread.tla replayed on the real scheduler with its worker thread
(harness/sched_thread_replay.cpp).  Called from c12.py."""
import os

import vlib
from framework import graph_replay, replay_tlc_trace

INF = 1000
CPEND = {"begin": "pre:mark:begin", "op_lock": "pre:lock", "op_after": "post:unlock", "tick": "pre:mark:tick",
         "stop": "pre:mark:stop", "stop_lock": "pre:lock", "stop_after": "post:unlock", "fwait": "pre:wait", "done": "done"}
WPEND = {"none": "none", "start": "pre:start", "cb_lock": "pre:lock", "cb_after": "post:unlock", "lock1": "pre:lock", "relock": "pre:lock", "loop_unlock": "post:unlock",
         "exit_unlock": "post:unlock", "clock": "pre:mark:clock", "waiting": "pre:cond", "done": "done"}


def proj(st, script=None):
    cpc, wpc, mx = st["cpc"], st["wpc"], st["mx"]
    en = []
    timed_unnotified = wpc == "waiting" and not st["wnot"] and st["wdl"] < INF
    if cpc in ("begin", "op_after", "stop", "stop_after") or (cpc in ("op_lock", "stop_lock") and mx == "none") \
            or (cpc == "tick" and timed_unnotified) or (cpc == "fwait" and st["wfin"]):
        en.append("c")
    # (a worker parked after its last unlock counts as enabled for the scheduler even while ~stop_callback would block)
    if wpc in ("start", "loop_unlock", "exit_unlock", "clock", "cb_after") or (wpc in ("lock1", "relock", "cb_lock") and mx == "none") \
            or (wpc == "waiting" and mx == "none" and (st["wnot"] or (st["wdl"] < INF and st["now"] >= st["wdl"]))):
        en.append("w")
    fut = st["fut"]
    if isinstance(fut, list):
        fut = {str(i + 1): f for i, f in enumerate(fut)}
    fut = {k: dict(f) for k, f in fut.items()}
    if script is not None and cpc == "op_lock" and script[st["cpos"] - 1]["op"] == "S":
        # the future returned by sleep_until() is already under construction (observable as pending) while the
        # client is parked at the lock inside schedule()
        fut[str(st["nsl"] + 1)]["st"] = "pending"
    return {
        "now": st["now"],
        "ret": st["ret"],
        "pend": {"c": CPEND[cpc], "w": WPEND[wpc]},
        "enabled": en,
        "heap": [{"tp": e["tp"], "id": e["id"], "k": e["k"]} for e in st["heap"]],
        "fut": {k: {"st": f["st"], "wat": f["wat"] if f["st"] in ("done", "exc", "canceled") else 0} for k, f in fut.items()},
    }


def tla_script(script):
    recs = []
    for op in script:
        if op["op"] == "S":
            recs.append('[op |-> "S", tp |-> %d, id |-> %d]' % (op["tp"], op["id"]))
        elif op["op"] == "C":
            recs.append('[op |-> "C", id |-> %d]' % op["id"])
        else:
            recs.append('[op |-> "T"]')
    return "<<" + ", ".join(recs) + ">>"


def S(tp, i):
    return {"op": "S", "tp": tp, "id": i}


def C(i):
    return {"op": "C", "id": i}


T = {"op": "T"}

SCRIPTS = [
    [],
    [S(2, 1)],
    [S(2, 1), T],
    [S(2, 1), S(1, 2), T, T],
    [S(2, 1), C(1)],
    [S(2, 1), T, S(1, 2)],
    [S(1, 1), S(1, 2), T, C(2)],
    [S(2, 1), S(3, 1), C(1), T],
]
SCRIPTS_MORE = [
    [S(3, 1), S(2, 2), S(1, 3), T, T, T],
    [S(2, 1), C(2), T, C(1)],
    [S(1, 1), T, S(1, 2), S(3, 3), C(3)],
    [S(2, 1), S(2, 2), C(1), T, C(2)],
]
ACTIONS = ["CBegin", "CStop", "WStart", "WLock1", "WRelock", "WClock", "WExit"]


def build():
    return vlib.compile_harness(os.path.join(vlib.VERIF, "harness/sched_thread_replay.cpp"), "sched_thread_replay",
                                extra_flags=["-rdynamic"])


def run_script(ctx, rp, script, tag, stop_locks, max_paths):
    hdr = {"script": script, "slots": 3}
    return graph_replay(ctx, "Scheduler", "SchedulerThread", "SchedulerThread_base.cfg", tag, rp, lambda st: proj(st, script),
                        header_fn=lambda k, st0: hdr, defs={"Script": tla_script(script)},
                        constants={"MaxSleeps": "3", "StopLocks": "TRUE" if stop_locks else "FALSE"},
                        must_take=ACTIONS, max_paths=max_paths, tlc_kw={"workers": 4}, replay_timeout=240)


def thread_mode(ctx, stop_locks=True):
    rp = build()
    scripts = SCRIPTS + ([] if ctx.quick else SCRIPTS_MORE)
    for k, sc in enumerate(scripts):
        run_script(ctx, rp, sc, "thr%d" % k, stop_locks, 400 if ctx.quick else None)
        if len(ctx.violations) >= 3:
            break
    ctx.assume("thread mode: lock grain plus the worker's clock read as a scheduling point; virtual time advances only to the worker's "
               "deadline while nobody else can run or at an explicit client step; sleep futures are polled, not awaited")
