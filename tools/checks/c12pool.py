"""C12, thread-pool mode: spec/Scheduler/SchedulerPool.tla replayed on the real scheduler started in a real
thread_pool (harness/sched_pool_replay.cpp).  Called from c12.py (`pool_mode(ctx)`) and from c03.py as the
lock-discipline part for the two-mutex combination (scheduler mutex S, pool mutex P)."""
import os

import vlib
from framework import graph_replay

INF = 1000
CPEND = {"begin": "pre:mark:begin", "st_lock": "pre:lock:P", "st_after": "post:unlock:P", "st_rej": "post:unlock:P",
         "op_lock": "pre:lock:S", "op_after": "post:unlock:S", "tick": "pre:mark:tick", "j_lock": "pre:lock:P",
         "j_after": "post:unlock:P", "ps_lock": "pre:lock:P", "ps_after": "post:unlock:P", "stop": "pre:mark:stop",
         "cb_lock": "pre:lock:S", "cb_after": "post:unlock:S", "fwait": "pre:wait", "done": "done",
         "terminated": "pre:mark:terminated"}
WPEND = {"start": "pre:start", "loop_lock": "pre:lock:P", "pwaiting": "pre:cond:P", "job_run": "post:unlock:P",
         "exit_after": "post:unlock:P", "done": "done",
         "k_cb_lock": "pre:lock:S", "k_cb_after": "post:unlock:S", "k_lock1": "pre:lock:S", "k_unl": "post:unlock:S",
         "k_enq": "pre:lock:P", "k_enq_after": "post:unlock:P", "k_enq_rej": "post:unlock:P", "k_relock": "pre:lock:S",
         # the nested acquisitions: P is taken (any_enqueued / enqueue inside pool->resume) while S is held
         "k_clock": "pre:mark:clock+S", "k_rs_enq": "pre:lock:P+S", "k_rs_after": "post:unlock:P+S", "k_rs_rej": "post:unlock:P+S",
         "k_any": "pre:lock:P+S", "k_any_after": "post:unlock:P+S", "k_waiting": "pre:cond:S", "k_exit": "post:unlock:S"}
ALWAYS = {"start", "loop_lock", "job_run", "exit_after", "k_cb_after", "k_unl", "k_enq", "k_enq_after", "k_enq_rej", "k_clock",
          "k_rs_enq", "k_rs_after", "k_rs_rej", "k_any", "k_any_after", "k_exit"}
NEED_S = {"k_cb_lock", "k_lock1", "k_relock"}


def as_map(v):
    """a TLA function over 1..N is printed as a sequence, one with an empty domain as <<>>"""
    if isinstance(v, list):
        return {str(i + 1): x for i, x in enumerate(v)}
    return {str(k): x for k, x in v.items()}


def proj(st, script):
    cpc, pc, smx = st["cpc"], st["pc"], st["smx"]
    kwait = any(p == "k_waiting" for p in pc.values())
    timed_unnotified = kwait and not st["wnot"] and st["wdl"] < INF
    wake = st["wnot"] or (st["wdl"] < INF and st["now"] >= st["wdl"])
    en = []
    if cpc in ("begin", "st_lock", "st_after", "st_rej", "op_after", "j_lock", "j_after", "ps_lock", "ps_after", "stop", "cb_after") \
            or (cpc in ("op_lock", "cb_lock") and smx == "none") or (cpc == "tick" and timed_unnotified) \
            or (cpc == "fwait" and st["wfin"]) or (cpc == "ps_join" and st["sth"][0] in st["wdone"]):
        en.append("c")
    pend = {"c": "pre:join:" + st["sth"][0] if cpc == "ps_join" else CPEND[cpc]}
    for w, p in pc.items():
        pend[w] = WPEND[p]
        # (a thread parked after the worker coroutine's last unlock counts as enabled for the controlled scheduler even
        # while ~stop_callback would block: the specification's guard on KExit / KEnqRej is not part of the projection)
        if (p in ALWAYS and not (p == "start" and cpc == "begin")) or (p in NEED_S and smx == "none") \
                or (p == "pwaiting" and w in st["notified"]) or (p == "k_waiting" and smx == "none" and wake):
            en.append(w)
    fut = {k: dict(f) for k, f in as_map(st["fut"]).items()}
    if cpc == "op_lock" and script[st["cpos"] - 1]["op"] in ("S", "A"):
        # the future returned by sleep_until() is already under construction (observable as pending) while the
        # client is parked at the lock inside schedule()
        fut[str(st["nsl"] + 1)]["st"] = "pending"
    co = as_map(st["co"])
    jst, jby = as_map(st["jst"]), as_map(st["jby"])
    return {
        "now": st["now"],
        "ret": st["ret"],
        "pend": pend,
        "enabled": sorted(en),
        "heap": [{"tp": e["tp"], "id": e["id"], "k": e["k"]} for e in st["heap"]],
        "sfut": "none" if cpc == "begin" or st["destroyed"] else ("exc" if st["wexc"] else "done") if st["wfin"] else "pending",
        "fut": {k: {"st": f["st"], "wat": f["wat"] if f["st"] in ("done", "exc", "canceled") else 0} for k, f in fut.items()},
        # a continuation waiting in the pool queue, or forgotten with its closure, is still a suspended coroutine
        "co": {k: {"st": "susp" if c["st"] in ("queued", "dropped") else c["st"], "by": c["by"], "at": c["at"]} for k, c in co.items()},
        "exit": st["exit"],
        "qlen": len(st["q"]),
        # a dequeued job whose body has not started yet is not observable as running
        "jobs": {j: {"st": s if s in ("ran", "cancelled") else "pending", "by": jby[j]} for j, s in jst.items()},
    }


def tla_script(script):
    recs = []
    for op in script:
        if op["op"] in ("S", "A"):
            recs.append('[op |-> "%s", tp |-> %d, id |-> %d]' % (op["op"], op["tp"], op["id"]))
        elif op["op"] == "C":
            recs.append('[op |-> "C", id |-> %d]' % op["id"])
        else:
            recs.append('[op |-> "%s"]' % op["op"])
    return "<<" + ", ".join(recs) + ">>"


def tla_seq(xs):
    return "<<" + ", ".join('"%s"' % x for x in xs) + ">>"


def S(tp, i):
    return {"op": "S", "tp": tp, "id": i}


def A(tp, i):
    return {"op": "A", "tp": tp, "id": i}


def C(i):
    return {"op": "C", "id": i}


T = {"op": "T"}
J = {"op": "J"}
PS = {"op": "PS"}
D = {"op": "D"}

# (script, pool threads).  Every script ends with the scheduler destroyed and the pool stopped.  A "T" needs a live entry
# in the heap (the worker must come to sleep on a deadline).  pool.stop() BEFORE the destruction only (a) after a "T" (the
# worker coroutine has certainly started: its start closure holds a bare handle) and (b) with a live entry left in the heap
# (the worker is never waiting without a deadline): see the assumptions at the end of pool_mode().
SCRIPTS = [
    ([D, PS], 1),
    ([S(2, 1), T, D, PS], 2),
    ([S(2, 1), S(1, 2), T, T, D, PS], 1),                 # an earlier deadline arrives while the worker waits
    ([A(2, 1), T, D, PS], 1),                             # awaiting coroutine: continues as a pool job
    ([S(2, 1), J, C(1), D, PS], 1),                       # ordinary job next to the worker in a pool of one; cancel
    ([S(1, 1), S(3, 2), T, PS, D], 1),                    # pool stopped first: stop() returns at the worker's deadline
]
SCRIPTS_MORE = [
    ([S(2, 1), D, PS], 1),
    ([S(2, 1), T, D, PS], 1),
    ([S(2, 1), S(1, 2), T, T, D, PS], 2),
    ([A(2, 1), T, D, PS], 2),
    ([A(2, 1), A(1, 2), T, C(1), D, PS], 2),
    ([A(1, 1), S(2, 2), T, J, T, D, PS], 1),
    ([S(2, 1), J, T, J, D, PS], 2),
    ([S(2, 1), S(2, 2), C(1), T, C(2), D, PS], 1),        # equal deadlines, cancel of the top / of an expired one
    ([S(2, 1), S(3, 1), C(1), T, C(1), C(1), D, PS], 1),  # identifier used twice, repeated cancel
    ([S(3, 1), S(2, 2), S(1, 3), T, T, T, D, PS], 1),
    ([S(1, 1), S(3, 2), T, PS, D], 2),
    ([A(1, 1), A(3, 2), T, PS, J, C(2), D], 1),           # the dead scheduler still cancels; a job on the stopped pool
    ([S(1, 1), S(3, 2), T, J, PS, S(2, 3), D], 2),        # a sleep scheduled on the dead scheduler is cancelled by ~scheduler
    ([A(2, 1), D, PS], 1),                                # awaiting coroutine cancelled by the destruction
    ([A(1, 1), A(1, 2), S(2, 3), T, T, D, PS], 2),        # equal deadlines, two continuations on two pool threads
    ([S(2, 1), J, J, T, D, PS], 1),
    ([A(2, 1), S(1, 2), C(2), T, J, C(1), D, PS], 2),
    ([S(1, 1), A(3, 2), T, PS, C(2), D], 2),              # cancel of an awaiting sleeper on the dead scheduler
    ([S(1, 1), S(3, 2), T, S(0, 3), T, D, PS], 1),        # a time point in the past: completed at once
]
ACTIONS = ["CBegin", "CStartCS", "CStop", "PStart", "PLock", "PRun", "KLock1", "KEnq"]
BASE_CFG = "SchedulerPool_base.cfg"
NODROP_CFG = "SchedulerPool_nodrop.cfg"


def build():
    return vlib.compile_harness(os.path.join(vlib.VERIF, "harness/sched_pool_replay.cpp"), "sched_pool_replay",
                                extra_flags=["-rdynamic"])


def defs_of(script, nw):
    return {"Script": tla_script(script), "WOrder": tla_seq(["w%d" % (i + 1) for i in range(nw)])}


DTOR_KEY = "scheduler_dtor_rethrows_after_pool_stop"      # /repo d43aae7


def key_fn(sid, line, txt):
    """stable key for the one fixed finding of this mode: the client ends up in the terminate handler"""
    if "pre:mark:terminated" in line or "TERMINATE" in line:
        return DTOR_KEY
    return "crash:SchedulerPool" if line == "crash" else "diverge:SchedulerPool:%s" % line[8:88]


def run_script(ctx, rp, script, nw, tag, max_paths, dtor_rethrows=False, variants=None):
    """scripts with an awaiting coroutine ("A") run without SleeperNotForgotten: a continuation still queued when the pool
    is stopped is forgotten with its bare-handle closure (known finding of C11); the model has it and the replay confirms
    that the code behaves as modelled"""
    cfg = NODROP_CFG if any(op["op"] == "A" for op in script) else BASE_CFG
    # the two ways of starting the scheduler in the pool alternate over the replayed behaviours
    return graph_replay(ctx, "Scheduler", "SchedulerPool", cfg, tag, rp, lambda st: proj(st, script),
                        header_fn=lambda k, st0: {"script": script, "workers": nw, "slots": 3, "ctor": k % 2 == 0},
                        defs=defs_of(script, nw), constants={"MaxSleeps": "3", "DtorRethrows": "TRUE" if dtor_rethrows else "FALSE"},
                        must_take=ACTIONS, max_paths=max_paths, tlc_kw={"workers": 4}, replay_timeout=300 if ctx.quick else 3600,
                        variants=variants, key_fn=key_fn)


def expect_rejected(ctx, script, nw, tag, invariant, what, dtor_rethrows=False):
    """self-test of the specification: a behaviour the driver excludes (or a pre-fix variant of the code) must be rejected
    by the named invariant -- otherwise that invariant would be vacuous"""
    mc = "MC_%s_%s" % (ctx.prop, tag)
    os.makedirs(vlib.BUILD, exist_ok=True)
    with open(os.path.join(vlib.BUILD, mc + ".tla"), "w") as f:
        f.write("---- MODULE %s ----\nEXTENDS SchedulerPool\n" % mc)
        for k, v in defs_of(script, nw).items():
            f.write("def_%s == %s\n" % (k, v))
        f.write("====\n")
    cfg = os.path.join(vlib.BUILD, mc + ".cfg")
    with open(cfg, "w") as f:
        f.write(open(os.path.join(vlib.VERIF, "spec/Scheduler", BASE_CFG)).read())
        f.write("\nCONSTANTS\n  Script <- def_Script\n  WOrder <- def_WOrder\n  MaxSleeps = 3\n  DtorRethrows = %s\n"
                % ("TRUE" if dtor_rethrows else "FALSE"))
    res = vlib.run_tlc(vlib.BUILD, mc, cfg, "%s_%s" % (ctx.prop, tag), workers=2, coverage=False,
                       jvm_opts=["-DTLA-Library=" + os.path.join(vlib.VERIF, "spec/Scheduler")])
    for fn in (mc + ".tla", mc + ".cfg"):
        try:
            os.remove(os.path.join(vlib.BUILD, fn))
        except OSError:
            pass
    if res.violated_name != invariant:
        raise vlib.MachineryError("specification self-test (pool mode): %s is not rejected by %s (%s)"
                                  % (what, invariant, res.violation or res.error or "no violation"))
    ctx.extra.setdefault("pool_mode_rejected_variants", []).append(
        {"variant": what, "violated": invariant, "trace_len": len(res.trace), "states": res.distinct})


def pool_mode(ctx, scripts=None, max_paths=None):
    rp = build()
    if scripts is None:
        scripts = SCRIPTS + ([] if ctx.quick else SCRIPTS_MORE)
    if max_paths is None:
        max_paths = 150 if ctx.quick else None
    if ctx.quick:
        ctx.exhaustive = False
    for k, (sc, nw) in enumerate(scripts):
        run_script(ctx, rp, sc, nw, "pool%d" % k, max_paths)
        if len(ctx.violations) >= 3:
            break
    # self-tests of the specification (no replay).  The destructor as it was before /repo d43aae7 (_fut.wait() rethrows the
    # worker's await_canceled_exception: std::terminate) must be rejected; so must the two histories the driver excludes
    if not ctx.violations:
        expect_rejected(ctx, [S(1, 1), S(3, 2), T, PS, D], 1, "self_dtor", "NoCrash",
                        "pre-d43aae7 ~scheduler (DtorRethrows = TRUE) after pool.stop()", dtor_rethrows=True)
        if not ctx.quick:
            expect_rejected(ctx, [S(1, 1), T, PS, D], 1, "self_idle", "NoHang",
                            "pool.stop() while the worker waits with no finite deadline (excluded by precondition)")
            expect_rejected(ctx, [PS, D], 1, "self_start", "NoHang",
                            "pool stopped before the worker coroutine's start closure ran (bare handle, known finding of C11)")
            expect_rejected(ctx, [A(2, 1), T, D, PS], 1, "self_drop", "SleeperNotForgotten",
                            "awaiting sleeper's continuation discarded by pool.stop() (bare handle, known finding of C11)")
    ctx.extra.setdefault("pool_mode_scripts", ["%s x%d" % (" ".join(op["op"] + (str(op["tp"]) if "tp" in op else "") for op in s), n)
                                              for s, n in scripts])
    ctx.assume("thread-pool mode: lock grain over two mutexes (scheduler, pool) plus the worker's clock read as a scheduling point; one "
               "client thread and a pool of 1-2 threads; virtual time advances only to the worker's deadline while nobody else can run "
               "or at an explicit client step; condition-variable notify_one wakes the longest waiting pool thread, no spurious wake-ups")
    ctx.assume("thread-pool mode precondition: the pool is not stopped while the scheduler's worker may be waiting with no finite "
               "deadline (an idle worker blocks one pool thread in the scheduler's condition variable, which pool.stop() does not "
               "notify: the join lasts until the earliest deadline, a schedule() with an earlier one or the stop request); with a "
               "finite deadline pool.stop() before the destruction is replayed: it returns when the worker wakes, the scheduler is "
               "dead from then on and ~scheduler cancels what is pending")
    ctx.assume("thread-pool mode: closures made by thread_pool::resume() hold a bare coroutine handle (known finding "
               "pool_resume_bare_handle_dropped of C11): a sleeper coroutine whose completed sleep is still queued as a pool job when "
               "the pool is stopped is never resumed (modelled as it is; invariant SleeperNotForgotten left out for scripts with an "
               "awaiting coroutine), and a scheduler whose start closure is discarded (constructed on a stopped pool / pool stopped "
               "before a pool thread picked it up) never finishes its destructor - scripts stop the pool before the destruction only "
               "after the worker has certainly started")
    ctx.assume("thread-pool mode, ordinary pool jobs: the waiting worker occupies one pool thread; it does not wait when it sees the "
               "pool queue non-empty, but a job submitted while every pool thread is taken (pool of one) waits until the worker's "
               "deadline / a notify - that is what the code does and what is modelled, nothing stronger")
