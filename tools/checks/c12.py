"""C12 -- timer scheduler: never early, in deadline order, cancel hits exactly its target.

Manual mode and single-thread start(awaitable) mode under virtual time (thread / thread-pool mode is a
separate model on top of the same heap operators of spec/Scheduler/Scheduler.tla)."""
import os

import fastcover
import vlib
from framework import graph_replay

MANUAL_ACTIONS = ["Schedule", "GetExpired", "Cancel", "Destroy", "Construct"]
START_ACTIONS = ["CoSleep", "CoCancel", "CoFinish", "WorkerPoll", "WorkerWait", "StartReturn", "DestroyAfterStart", "Restart"]
# the awaited operation of start(): every way it may end, told to start() directly / through the coro_queue
MAIN_ALL = {"MainRes": {"void", "val", "exc", "drop"}, "MainVia": {"direct", "queued"}}


# development aid: C12_ONLY=start2,interval bin/check C12 quick  runs only the named models ("thread", "pool": the other modes)
ONLY = set(filter(None, os.environ.get("C12_ONLY", "").split(",")))


def as_list(v):
    """a TLA function over 1..N is printed as a sequence, except that an empty one prints as <<>>"""
    if isinstance(v, dict):
        return [v[k] for k in sorted(v, key=int)]
    return v


def proj(st):
    d = {
        "destroyed": st["destroyed"],
        "heap": [{"tp": e["tp"], "id": e["id"], "k": e["k"]} for e in st["heap"]],
        "fut": [{"st": f["st"], "tp": f["tp"], "co": f["co"]} for f in as_list(st["fut"])],
        "gen": [{"st": g["st"], "stp": g["stp"]} for g in as_list(st["gen"])],
    }
    if st["phase"] != "manual":
        d["now"] = st["now"]
        d["phase"] = "active" if st["phase"] in ("pre", "run") else st["phase"]
        d["rq"] = list(st["rq"])
        d["cst"] = [{"st": c["st"], "wst": c["wst"], "wat": c["wat"]} for c in as_list(st["cst"])]
        # what start() did (returned / returned the value / rethrew / threw await_canceled_exception), once it has ended
        d["res"] = st["mres"] if st["phase"] in ("returned", "destroyed") else "none"
        d["runs"] = st["runs"]
    return d


def fmt(v):
    if isinstance(v, bool):
        return "TRUE" if v else "FALSE"
    if isinstance(v, (set, frozenset, list, tuple)):
        return "{" + ", ".join(fmt(x) for x in sorted(v)) + "}"
    if isinstance(v, str):
        return '"%s"' % v
    return str(v)


# Model time is in HALF TICKS (even 2n = tick n, odd 2n-1 = "1 ns before tick n", used by get_expired probes);
# the replayer embeds it into the clock's nanosecond resolution: real(2n) = E + n*U + OFF[n] ns with per-tick
# offsets that are whole microseconds but never whole milliseconds (so no duration between two ticks is a whole
# number of milliseconds), and maps real time points back exactly (harness/scheduler_replay.cpp head comment).
TIME_MAP = {"e": 10 ** 15, "u": 10 ** 6, "off": [1000 * ((n * 373 + 211) % 997 + 1) for n in range(8)]}
# every way the API lets a client request a sleep; the replayer rotates them per call
FORMS = ["until", "ns", "sched", "us", "hms", "ms", "us32", "s", "min", "fsec"]


def model(ctx, rp, cfg, tag, consts, must, max_paths=None, extra_random=0, variants=None):
    """consts: the complete constant assignment (the cfg files hold quick-tier defaults for running TLC by
    hand; everything is given again here so that the header handed to the replayer always matches)"""
    if ONLY and tag not in ONLY:
        return None
    def hdr(k, st0):
        return {"mode": consts["Mode"], "coro": bool(k % 2), "slots": consts["MaxSleeps"],
                "interval": consts["Interval"], "interval2": consts["Interval2"], "nc": consts["NC"], "tm": TIME_MAP, "forms": FORMS, "phase": k}
    # the state graphs are dense and cyclic (history-free state, ~20 calls possible in every state):
    # vlib.cover_paths needs hours on them, see tools/fastcover.py
    with fastcover.installed():
        return graph_replay(ctx, "Scheduler", "Scheduler", cfg, tag, rp, proj, header_fn=hdr, must_take=must,
                            constants={k: fmt(v) for k, v in consts.items()}, max_paths=max_paths,
                            extra_random=extra_random, replay_timeout=600 if ctx.quick else None, variants=variants)


def base(**kw):
    c = {"Mode": "manual", "TPs": {2, 4}, "Nows": {1, 2, 3, 4}, "Ids": {0, 1, 2}, "CancelIds": {0, 1, 2},
         "MaxSleeps": 3, "MaxHeap": 3, "MaxOps": 0, "AllowRemove": True, "Interval": 0, "Interval2": 0, "NC": 1,
         "MainRes": {"void"}, "MainVia": {"direct"}, "MaxRuns": 1}
    c.update(kw)
    return c


def float_sleep_compiles():
    """does sleep_for accept a floating point duration?  (not at the time of writing: now()+duration<double> does
    not convert to system_clock::time_point; if a later version accepts it, the replayer exercises that form too)"""
    import subprocess
    src = os.path.join(vlib.BUILD, "c12_float_probe.cpp")
    os.makedirs(vlib.BUILD, exist_ok=True)
    with open(src, "w") as f:
        f.write("#include <cocls/scheduler.h>\n"
                "void probe(cocls::scheduler &s) { auto f = s.sleep_for(std::chrono::duration<double>(0.5)); (void) f; }\n")
    cmd = ["g++", "-std=c++20", "-fsyntax-only", "-DCOCLS_VERIF", "-I" + os.path.join(vlib.VERIF, "rt/include"),
           "-I" + os.path.join(vlib.REPO, "src"), "-I" + os.path.join(vlib.REPO, "src/cocls"), src]
    try:
        ok = subprocess.run(cmd, stdout=subprocess.DEVNULL, stderr=subprocess.DEVNULL, timeout=300).returncode == 0
    except subprocess.TimeoutExpired:
        ok = False
    os.remove(src)
    return ok


def run(ctx):
    defines = ["_GLIBCXX_ASSERTIONS"]
    fl = float_sleep_compiles()
    if fl:
        defines.append("C12_FLOAT_SLEEP")
    ctx.extra["api_forms"] = [f for f in FORMS if fl or f != "fsec"]
    rp = vlib.compile_harness(vlib.VERIF + "/harness/scheduler_replay.cpp", "scheduler_replay",
                              sanitize=not ctx.quick, defines=defines)
    q = ctx.quick
    # a second rotation of the API forms over the same behaviours (thorough)
    two = None if q else [{}, {"phase": 5}]
    # (a) manual mode -------------------------------------------------------------------------
    # wide: every identifier incl. nullptr, remove(), ties and past time points; get_expired probes at every time
    # point and 1 ns before it
    wide = base() if q else base(TPs={2, 4, 6}, Nows={1, 2, 3, 4, 5, 6})
    model(ctx, rp, "Scheduler_manual.cfg", "manual", wide, MANUAL_ACTIONS + ["Remove"], extra_random=100 if q else 1000,
          variants=two)
    # deep: duplicates of one identifier, up to 5 pending sleeps in an array of 6
    deep = base(TPs={2, 4}, Nows={2, 3, 4}, Ids={1}, CancelIds={1}, MaxSleeps=5, MaxHeap=6, AllowRemove=False)
    if not q:
        deep.update(TPs={2, 4, 6}, Nows={2, 3, 4, 6})
    model(ctx, rp, "Scheduler_manual_deep.cfg", "deep", deep, MANUAL_ACTIONS, extra_random=100 if q else 1000)
    if not q:
        # two identifiers + nullptr over a longer array (emptied entries pile up below a long-lived top)
        model(ctx, rp, "Scheduler_manual.cfg", "manual4", base(TPs={2, 4, 6}, Nows={2, 4, 5, 6}, Ids={0, 1}, CancelIds={0, 1},
                                                               MaxSleeps=3, MaxHeap=4), MANUAL_ACTIONS + ["Remove"])
    # interval() generator (period: two ticks) + stop token next to ordinary sleeps
    itv = base(TPs={2, 6}, Nows={2, 3, 4, 6}, Ids={0, 1}, CancelIds={1}, MaxSleeps=2, MaxHeap=3, AllowRemove=False, Interval=4)
    if not q:
        itv.update(MaxSleeps=3, MaxHeap=4)
    model(ctx, rp, "Scheduler_interval.cfg", "interval", itv, MANUAL_ACTIONS + ["IntervalCall", "IntervalStop"])
    # two interval() generators of one scheduler (same duration type, periods of two ticks and one tick), each with its own
    # stop token: a stop request cancels exactly the stopped generator's sleep, whichever of the two is due first
    itv2 = base(TPs={2, 6}, Nows={2, 3, 4, 6}, Ids={1} if q else {0, 1}, CancelIds={1}, MaxSleeps=2, MaxHeap=3, AllowRemove=False,
                Interval=4, Interval2=2)
    model(ctx, rp, "Scheduler_interval.cfg", "interval2", itv2, MANUAL_ACTIONS + ["IntervalCall", "IntervalStop"])
    # (b) start(awaitable), single thread, virtual time ------------------------------------------
    st = base(Mode="start", TPs={2, 4, 6}, Nows=set(), Ids={0, 1}, CancelIds={1}, MaxSleeps=2, MaxHeap=4,
              MaxOps=4, AllowRemove=False, NC=2)
    # the awaited operation ends in every way (value / exception / dropped promise; directly / through the coro_queue) and
    # start() is called twice on the same object: thorough on the full start2 space, quick on two time points next to
    # the plain start2
    if q:
        model(ctx, rp, "Scheduler_start.cfg", "start2", st, START_ACTIONS)
        model(ctx, rp, "Scheduler_start.cfg", "startres", dict(st, TPs={2, 4}, MaxRuns=2, **MAIN_ALL), START_ACTIONS + ["StartAgain"])
    else:
        model(ctx, rp, "Scheduler_start.cfg", "start2", dict(st, MaxRuns=2, **MAIN_ALL), START_ACTIONS + ["StartAgain"], variants=two)
    st3 = dict(st, NC=3, MaxSleeps=3, MaxOps=5 if q else 6, TPs={2, 4}, MainRes={"void"}, MainVia={"direct"}, MaxRuns=1)
    model(ctx, rp, "Scheduler_start.cfg", "start3", st3, START_ACTIONS)
    if not q and not ONLY:
        # a larger space on the specification only (no replay): two identifiers, 4 sleeps pending, array of 5
        big = base(TPs={2, 4}, Nows={2, 4}, Ids={1, 2}, CancelIds={1, 2}, MaxSleeps=4, MaxHeap=5, AllowRemove=False)
        cfgp = os.path.join(vlib.BUILD, "C12_big.cfg")
        vlib.write_cfg(cfgp, open(os.path.join(vlib.VERIF, "spec/Scheduler/Scheduler_manual.cfg")).read(),
                       {k: fmt(v) for k, v in big.items()})
        res = ctx.tlc("Scheduler", "Scheduler", cfgp, "big", coverage=False)
        if res.violation:
            ctx.tlc_violation(res, "Scheduler:big")

    ctx.assume("time points from a small set of ticks (ties and past values included) embedded into the clock's nanosecond "
               "resolution with sub-millisecond offsets, compared exactly; get_expired probes at each time point and 1 ns before it; "
               "identifiers from a small set with reuse, nullptr included; at most 3-5 sleeps pending at the same time, array of at "
               "most 3-6 entries (histories themselves are unbounded: the state graph is cyclic and every edge is replayed)")
    ctx.assume("API forms sleep_until / schedule(id,promise,tp) / sleep_for(ns, us, 32-bit us, half-ms, ms, s, min) / interval(us|ns; "
               "one or two generators per scheduler, the same duration type for both, each with its own stop token) "
               "rotate per call (every behaviour is replayed once, thorough: twice with different rotations), not every form on every "
               "edge; sleep_for(floating point duration) is exercised only if the library compiles it (it does not at present)")
    ctx.assume("std::push_heap/std::pop_heap are modelled move by move after libstdc++ 12 bits/stl_heap.h; the replay compares "
               "the array order after every call, so a different standard library would show as a divergence, not pass silently")
    ctx.assume("start(awaitable): virtual time -- clock_gettime(CLOCK_REALTIME) and pthread_cond_timedwait are interposed in the "
               "replayer; running coroutines take no time; nobody notifies the condition variable (single thread)")
    ctx.assume("start(awaitable), the awaited operation: ends with no value / a value / an exception / a dropped promise, told to "
               "start() by symmetric transfer (start(async<T>&&), start(async<T>&), start(future<T>&) fed by the coroutine; T = void, "
               "int) or through the coro_queue (start(future<T>&) whose promise coroutine 1 resolves / drops by hand); start() must "
               "return / return that value / rethrow that exception / throw await_canceled_exception after its worker has ended; "
               "start() is called up to twice on the same object (quick: model startres, two time points; thorough: start2; the other start "
               "models have the void coroutine, told directly, and one start() per object); start() from "
               "inside a coroutine / recursively is not replayed")
    # (c) thread mode: the scheduler's own worker thread against a client thread (lock grain + the worker's clock
    # read), virtual time, incl. destruction racing with the worker's loop
    from checks import c12thread
    if not ONLY or "thread" in ONLY:
        c12thread.thread_mode(ctx)
    # (d) thread-pool mode: worker_coro<true> travelling through a real thread_pool (two mutexes, nested acquisitions)
    from checks import c12pool
    if not ONLY or "pool" in ONLY:
        c12pool.pool_mode(ctx)
