"""Shared by C01/C02/C20: kind mixes for spec/Future/Future.tla and the projection that the
replayer harness/future_replay.cpp reproduces from the real objects."""
import itertools
import os

import vlib
from framework import graph_replay

RK = ["val", "exc", "drop", "mdes", "masg", "dtor", "final", "ovw"]
RCONST = {"val": "RVal", "exc": "RExc", "drop": "RDrop", "mdes": "RMdes", "masg": "RMasg", "dtor": "RDtor", "final": "RFinal", "ovw": "ROvw"}
# "mp": the callback of a callback-promise make_promise<T>(fn) -- the only observer of its (heap) future
WCONST = {"co": "WCo", "hv": "WHv", "bl": "WBl", "cb": "WCb", "mp": "WMp"}
ACTIONS = ["Claim", "SwapReady", "CheckReady", "SubCAS"]

RPC = {"mclaim_own": "mclaim_own", "massign_own": "massign", "massign_null": "massign", "claim": "claim", "dtor": "dtor", "dload_own": "dload", "dload_null": "dload", "dload_p_own": "dload",
       "dload_p_null": "dload", "swap": "swap", "flagstore": "flagstore", "notify": "notify", "done": "done",
       "ovw": "ovw", "oclaim": "oclaim", "ostore": "ostore", "qclaim": "qclaim", "dload_q": "dload"}


def chain_of(st):
    if st["slot"] == "ready":
        return "ready"
    out = []
    n = st["slot"]
    while n != "null" and len(out) < 10:
        out.append(n)
        n = st["nxt"][n]
    return out


def proj(st, rk, wk=None, trk=False):
    """trk: the replayer is built over the tracked move-only payload (-DPAYLOAD_TRK) and also reports the state of every value
    resolver's argument object (spec: arg), the payload instances the library constructed (spec: built) and holds (the stored value)"""
    owner = st["owner"]
    for r, k in rk.items():
        if k == "dtor" and st["rpc"][r] == "done":
            owner = "null"
    pend = {}
    for r, pc in (st["rpc"] or {}).items():
        pend[r] = RPC[pc]
    for w, pc in (st["wpc"] or {}).items():
        pend[w] = pc
    out = {
        "allocs": 0,
        "copies": 0,
        "chain": chain_of(st),
        "cbnext": {w: st["nxt"][w] for w, k in (wk or {}).items() if k == "cb"},
        "owner": owner,
        "pend": pend,
        "res": st["rres"] or {},
        "resumes": st["resumes"] or {},
        "seen": st["seen"] or {},
        "tag": st["tag"],
        "payload": st["payload"],
    }
    if trk:
        out["arg"] = {r: st["arg"][r] for r, k in rk.items() if k in ("val", "ovw")}
        # a payload instance is constructed only on the thread of the resolver whose value won (spec: built counts exactly that one)
        out["made"] = {r: 1 if (st["tag"] == "val" and st["payload"] == r and st["built"] == 1) else 0
                       for r, k in rk.items() if k in ("val", "ovw", "final")}
        # the stored value; the heap future of a callback-promise is gone once its callback has run
        gone = any(k == "mp" and st["wpc"][w] == "done" for w, k in (wk or {}).items())
        out["live"] = 1 if st["tag"] == "val" and not gone else 0
    return out


def mix_constants(rmix, wmix, pre="none"):
    """rmix/wmix: lists of kinds -> (constants dict for the cfg, R map, W map)"""
    rk = {"r%d" % (i + 1): k for i, k in enumerate(rmix)}
    wk = {"w%d" % (i + 1): k for i, k in enumerate(wmix)}
    consts = {"PreResolved": '"%s"' % {"exc_throw": "exc", "novalue": "drop"}.get(pre, pre)}
    for k, c in RCONST.items():
        consts[c] = "{" + ", ".join(r for r, kk in rk.items() if kk == k) + "}"
    for k, c in WCONST.items():
        consts[c] = "{" + ", ".join(w for w, kk in wk.items() if kk == k) + "}"
    return consts, rk, wk


def fix_empty(st):
    # TLC prints functions with empty domain as <<>>: normalise to {}
    for k in ("rpc", "rres", "cur", "rest", "sp", "flag", "wpc", "seen", "resumes", "nxt", "arg"):
        if st.get(k) == []:
            st[k] = {}
    return st


def run_mix(ctx, rp, rmix, wmix, tag, max_paths=None, extra_random=0, bind=False, pre="none", trk=False):
    consts, rk, wk = mix_constants(rmix, wmix, pre)

    def hdr(k, st0):
        h = {"R": rk, "W": wk, "form": k % 6}
        if bind:
            h["bind"] = True
        if pre != "none":
            h["pre"] = pre
        return h

    def pj(st):
        return proj(fix_empty(dict(st)), rk, wk, trk)
    must = list(ACTIONS)
    if "ovw" in rmix:
        must += ["OvwStart", "OClaim", "OStore", "QClaim"]
    if not wmix or wmix == ["mp"]:
        must = [a for a in must if a not in ("CheckReady", "SubCAS")]
    if pre != "none":
        must = [a for a in must if a in ("CheckReady",)] if any(k != "cb" for k in wmix) else []
    if all(k in ("dtor", "final") for k in rmix):
        must = [a for a in must if a != "Claim"]
    if wmix and all(k == "cb" for k in wmix):
        must = [a for a in must if a != "CheckReady"]
    res, g = graph_replay(ctx, "Future", "Future", "Future_base.cfg", tag, rp, pj, header_fn=hdr,
                          constants=consts, must_take=must, max_paths=max_paths, extra_random=extra_random,
                          tlc_kw={"workers": 4})
    return res


def resolver_mixes():
    """multisets of 2..3 competing resolvers over val/exc/drop/mdes, optionally followed by the final dtor"""
    out = []
    base = ["val", "exc", "drop", "mdes"]
    for n in (2, 3):
        for combo in itertools.combinations_with_replacement(base, n):
            out.append(list(combo))
            if n == 2:
                out.append(list(combo) + ["dtor"])
    out.append(["dtor"])
    out.append(["val", "dtor"])
    out.append(["final"])
    out += [["masg", "val"], ["masg", "masg", "dtor"], ["masg", "exc", "drop"], ["mdes", "masg"]]
    return out


def waiter_mixes(maxn=3):
    out = []
    kinds = ["co", "hv", "bl", "cb"]
    for n in range(1, maxn + 1):
        for combo in itertools.combinations_with_replacement(kinds, n):
            out.append(list(combo))
    return out


def build(ctx):
    return vlib.compile_harness(os.path.join(vlib.VERIF, "harness/future_replay.cpp"), "future_replay",
                                sanitize=not ctx.quick)


def build_big(ctx):
    """the same replayer over a 64-byte tracked payload type (integrity checked by every reader, copies counted)"""
    return vlib.compile_harness(os.path.join(vlib.VERIF, "harness/future_replay.cpp"), "future_replay_big",
                                sanitize=not ctx.quick, extra_flags=["-DPAYLOAD_BIG"])


def build_ref(ctx):
    """the same replayer over future<int&> (reference-type instantiation: the future stores the address of the resolver's lvalue)"""
    return vlib.compile_harness(os.path.join(vlib.VERIF, "harness/future_replay.cpp"), "future_replay_ref",
                                sanitize=not ctx.quick, extra_flags=["-DPAYLOAD_REF"])


def build_trk(ctx, align=0):
    """the same replayer over a move-only, instance-counted payload with a moved-from flag (the arguments of refused calls and the
    number of live / constructed instances are observed); align=64: the same type OVER-ALIGNED (alignof > default new alignment)"""
    return vlib.compile_harness(os.path.join(vlib.VERIF, "harness/future_replay.cpp"), "future_replay_trk%s" % (align or ""),
                                sanitize=not ctx.quick, extra_flags=["-DPAYLOAD_TRK"] + (["-DPAYLOAD_ALIGN=%d" % align] if align else []))


def build_all(ctx, names):
    """compile several builds of the replayer side by side; names from int/big/ref/trk/trk64 -> {name: binary}"""
    from concurrent.futures import ThreadPoolExecutor
    fns = {"int": build, "big": build_big, "ref": build_ref, "trk": build_trk, "trk64": lambda c: build_trk(c, 64)}
    with ThreadPoolExecutor(max_workers=len(names)) as ex:
        return dict(zip(names, ex.map(lambda n: fns[n](ctx), names)))


def run_mixes(ctx, rp, jobs, max_paths=None, par=6, tagp="m", bind=False, pre="none", trk=False):
    """jobs: list of (rmix, wmix); TLC + replay per mix, several mixes in parallel"""
    from concurrent.futures import ThreadPoolExecutor
    errs = []

    def one(k):
        if len(ctx.violations) >= 3:
            return
        r, w = jobs[k]
        try:
            run_mix(ctx, rp, r, w, "%s%d" % (tagp, k), max_paths=max_paths, bind=bind, pre=pre, trk=trk)
        except Exception as e:   # re-raised in the main thread
            errs.append(e)
    with ThreadPoolExecutor(max_workers=par) as ex:
        list(ex.map(one, range(len(jobs))))
    if errs:
        raise errs[0]
    ctx.extra["mixes"] = ["%s|%s" % ("+".join(r), "+".join(w)) for r, w in jobs]


def run_jobs(ctx, jobs, par=6):
    """jobs: dicts {rp, r, w, tag[, max_paths, bind, pre, trk]} -- mixes over DIFFERENT builds of the replayer in one pool"""
    from concurrent.futures import ThreadPoolExecutor
    errs = []

    def one(j):
        if len(ctx.violations) >= 3:
            return
        try:
            run_mix(ctx, j["rp"], j["r"], j["w"], j["tag"], max_paths=j.get("max_paths"), bind=j.get("bind", False),
                    pre=j.get("pre", "none"), trk=j.get("trk", False))
        except Exception as e:   # re-raised in the main thread
            errs.append(e)
    with ThreadPoolExecutor(max_workers=par) as ex:
        list(ex.map(one, jobs))
    if errs:
        raise errs[0]
    ctx.extra.setdefault("more_mixes", []).extend("%s:%s|%s%s" % (j["tag"], "+".join(j["r"]), "+".join(j["w"]), ":bind" if j.get("bind") else "")
                                                  for j in jobs)


def explore_validate(ctx, rp, rmix, wmix, tag, runs):
    """code -> spec: random schedules of a (larger) mix on the real code, validated by TLC against FutureTrace.tla"""
    from framework import trace_validate
    consts, rk, wk = mix_constants(rmix, wmix)
    consts = {k: v.replace("r", '"r').replace("w", '"w').replace(",", '",').replace("}", '"}') if v != "{}" else v
              for k, v in consts.items()}
    trace = os.path.join(vlib.BUILD, "%s_%s.ndjson" % (ctx.prop, tag))
    script = os.path.join(vlib.BUILD, "%s_%s_ex.script" % (ctx.prop, tag))
    with open(script, "w") as f:
        f.write("BEGIN ex %s\nEND\n" % vlib.canon({"R": rk, "W": wk, "explore": {"runs": runs, "seed": ctx.seed, "out": trace}}))
    rc, out = vlib.run_cmd([rp], stdin_path=script, timeout=1800, env={"REPLAY_SCENARIO_TIMEOUT": "1700"})
    os.remove(script)
    if rc != 0 or not os.path.exists(trace):
        ctx.violation("explore:crash:%s" % tag, "exploration of mix %s|%s terminated abnormally: %s" % (rmix, wmix, out[-800:]),
                      "#replayer future_replay\n#exploration crashed\n" + out[-2000:], kind="txt")
        return
    nlines = sum(1 for _ in open(trace))
    ok, matched, res = trace_validate(ctx, "Future", "FutureTrace", "FutureTrace_base.cfg", consts, trace, tag, nlines)
    if ok:
        ctx.traces += runs
        ctx.steps += nlines
        if len(ctx.samples) < 6:
            ctx.sample({"trace_validation": "%s|%s" % ("+".join(rmix), "+".join(wmix)), "runs": runs, "lines": nlines,
                        "first_lines": [l.strip()[:300] for l in open(trace).readlines()[:3]]})
    else:
        lines = open(trace).readlines()
        bad = lines[matched] if matched < len(lines) else "(end)"
        txt = "# trace rejected by FutureTrace.tla (%s); matched prefix = %d lines; offending line:\n# %s\n" % (res.violation, matched, bad.strip())
        ctx.violation("trace:%s:%s" % (tag, res.violated_name), "recorded execution of the real code is not a behaviour of Future.tla "
                      "(mix %s|%s, %s): line %d: %s" % (rmix, wmix, res.violation, matched + 1, bad.strip()[:400]),
                      txt + "".join(lines[:matched + 1]), kind="ndjson")
    os.remove(trace)


# ------------------------------------------------------------------------------------------------------------
# finest grain (FutureFine.tla): atomic operation and the thread-local code after it are separate steps
# ------------------------------------------------------------------------------------------------------------
FSITE = {"mclaim": "mclaim_own", "fstore": "flagstore"}


def fine_pend(pc):
    if pc in ("done", "tdone"):
        return "done"
    kind, _, rest = pc.partition("_")
    for suf in ("_ok", "_fail"):
        if rest.endswith(suf):
            rest = rest[: -len(suf)]
    return "%s:%s" % (kind, FSITE.get(rest, rest))


def proj_fine(st, rk, wk):
    st = fix_empty(dict(st))
    owner = st["owner"]
    for r, k in rk.items():
        if k == "dtor" and st["rpc"][r] == "done":
            owner = "null"
    pend = {r: fine_pend(pc) for r, pc in (st["rpc"] or {}).items()}
    pend.update({w: fine_pend(pc) for w, pc in (st["wpc"] or {}).items()})
    return {
        "allocs": 0,
        "copies": 0,
        "chain": chain_of(st),
        "cbnext": {w: st["nxt"][w] for w, k in wk.items() if k == "cb"},
        "owner": owner,
        "pend": pend,
        "res": st["rres"] or {},
        "resumes": st["resumes"] or {},
        "seen": st["seen"] or {},
        "tag": st["tag"],
        "payload": st["payload"],
    }


def API_FORMS(rmix, wmix):
    """the mix contains a kind that is reached through more than one public entry point"""
    return any(k in ("val", "exc", "drop") for k in rmix) or "cb" in wmix


def run_mix_fine(ctx, rp, rmix, wmix, tag, max_paths=None):
    consts, rk, wk = mix_constants(rmix, wmix)
    consts.pop("PreResolved", None)      # (FutureFine.tla always starts from a pending future)
    must = ["SwapReady", "LSwap"]
    if wmix:
        must += ["SubCAS"]
    res, g = graph_replay(ctx, "Future", "FutureFine", "FutureFine_base.cfg", tag, rp,
                          lambda st: proj_fine(st, rk, wk), header_fn=lambda k, st0: {"R": rk, "W": wk, "fine": True},
                          variants=[{"form": f} for f in range(6)] if API_FORMS(rmix, wmix) else None,
                          constants=consts, must_take=must, max_paths=max_paths, tlc_kw={"workers": 4})
    return res


def run_mixes_fine(ctx, rp, jobs, max_paths=None, par=4):
    from concurrent.futures import ThreadPoolExecutor
    errs = []

    def one(k):
        if len(ctx.violations) >= 3:
            return
        r, w = jobs[k]
        try:
            run_mix_fine(ctx, rp, r, w, "f%d" % k, max_paths=max_paths)
        except Exception as e:
            errs.append(e)
    with ThreadPoolExecutor(max_workers=par) as ex:
        list(ex.map(one, range(len(jobs))))
    if errs:
        raise errs[0]
    ctx.extra["fine_mixes"] = ["%s|%s" % ("+".join(r), "+".join(w)) for r, w in jobs]
