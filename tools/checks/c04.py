"""C04 -- an async coroutine runs once, delivers to its bound party, frees once.

spec/Async/Async.tla is a sequential stack machine of the async<T> life cycle (frame states, the handle
held by the async object, the bound future, final_awaiter in three actions) driven by PROGRAMS: result
type x the way native code starts coroutine 1 x per coroutine a step list (await an external future,
start a child in one of eight ways, return / throw).  The driver generates the program families below
(start mode x completion x result type x nesting depth x start mode used inside a coroutine); TLC
picks a program (Setup) and enumerates everything native code can do around it: when (before / after
the start, in which order) and how (value / exception / dropped promise) the external futures are
resolved, when the async object is dropped (incl. before the start = never started).  Every edge of
the state graph is replayed by harness/async_replay.cpp on the real library: scripted coroutines with
counted guard arguments / locals, frames through operator new or through a counting storage policy
(with_allocator), promises resolved on the same or on a fresh thread, join() on a controlled thread.
"""
import os
import re

import vlib
from framework import graph_replay
from vlib import MachineryError

ROOTS = ["detach", "start", "startp", "claimed", "join", "fctor", "retfut", "poolrun"]
KINDS = ["co", "da", "dd", "st", "fc", "rf", "pa", "pd"]
# only for reference coroutines: the result collected through a VALUE future
VROOTS = ["vfctor", "vshift", "vretfn"]
ALLKINDS = KINDS + ["vf"]
DRIVER = ["Setup", "Create", "RootStart", "DropObj", "Resolve", "Finish"]
INTERNAL = ["BodyBegin", "AwaitExt", "SpawnCreate", "Launch", "StartReturn", "AwaitLoc", "Observe", "QueuedResume",
            "BodyEnd", "FinalResolve", "FinalDestroy", "FinalTransfer", "Flush", "IqExit", "JoinStep", "RootSubscribe"]
MERGE_RE = r"^(?!(%s)$)" % "|".join(DRIVER)
TLC_WORKERS = 4
RET, THR = ("ret", 0), ("thr", 0)
RETS = [("ret", 0), ("ret", 1), ("ret", 2)]   # co_return temporary / variable / std::move(variable)


def mk(T, root, body):
    K = max([s[1] for b in body for s in b if s[0] == "aw"] + [0])
    return {"T": T, "root": root, "K": K, "body": [list(b) for b in body]}


def leafs(k):
    """completion modes of a body: value / exception, synchronous / after a suspension"""
    return [[RET], [THR], [("aw", k), RET], [("aw", k), THR]]


def prog_text(p):
    return "%s|%s|%d|%s" % (p["T"], p["root"], p["K"], ";".join(",".join("%s%d" % s for s in b) for b in p["body"]))


def tla_programs(ps):
    def step(s):
        return '[k |-> "%s", a |-> %d]' % s

    def one(p):
        return '[T |-> "%s", root |-> "%s", K |-> %d, body |-> <<%s>>]' % (
            p["T"], p["root"], p["K"], ", ".join("<<" + ", ".join(step(s) for s in b) + ">>" for b in p["body"]))
    return "<<" + ",\n  ".join(one(p) for p in ps) + ">>"


def chain(d, leaf, mid_end=RET):
    """co_await chain of depth d: coroutine i co_awaits coroutine i+1"""
    return [[("co", i + 1), mid_end if i == 2 else RET] for i in range(1, d + 1)] + [leaf]


def families(quick):
    fam = {}
    types = ["int", "void"]
    # every start mode of native code x completion mode x result type
    fam["single"] = [mk(T, r, [lf]) for T in types for r in ROOTS for lf in leafs(1)]
    # co_await chains of depth 1..3 under every start mode
    ps = []
    for r in [x for x in ROOTS if x != "claimed"]:
        for d in (1, 2, 3):
            for lf in leafs(1):
                for T in types:
                    if quick and T == "void" and d != 2:
                        continue
                    ps.append(mk(T, r, chain(d, lf)))
    for r in ("start", "detach", "join"):
        for lf in ([RET], [("aw", 1), RET], [("aw", 1), THR]):
            ps.append(mk("int", r, chain(2, lf, mid_end=THR)))                     # a throwing link
            ps.append(mk("int", r, [[("co", 2), RET], [("co", 3), ("aw", 2), RET], lf]))    # a link suspended again
            ps.append(mk("int", r, [[("aw", 2), ("co", 2), RET], [("co", 3), RET], lf]))    # root suspended first
    fam["chain"] = ps
    # every way a running coroutine can start a child
    ps = []
    for r in (("detach", "start") if quick else [x for x in ROOTS if x != "claimed"]):
        for m in KINDS:
            for lf in leafs(1):
                for T in types:
                    if quick and T == "void" and not (r == "start" and lf[-1] == RET):
                        continue
                    ps.append(mk(T, r, [[(m, 2), RET], lf]))
    fam["kinds"] = ps
    # two children: one left in the ready deque / started with a promise, then a second one awaited
    ps = []
    for r in (("detach",) if quick else ("detach", "start", "join")):
        for m1 in ("dd", "da", "pd"):
            for m2 in ("co", "st", "pa"):
                for l2 in ([RET], [("aw", 1), RET]):
                    for l3 in ([RET], [("aw", 2), THR]):
                        ps.append(mk("int", r, [[(m1, 2), (m2, 3), RET], l2, l3]))
    fam["siblings"] = ps
    fam["payload"] = payload_family(quick)
    fam["ref"] = ref_family(quick)
    if not quick:
        # depth 2 with every pair of in-coroutine start modes
        ps = []
        for r in ("detach", "start", "join"):
            for m1 in KINDS:
                for m2 in KINDS:
                    for lf in leafs(1):
                        ps.append(mk("int", r, [[(m1, 2), RET], [(m2, 3), RET], lf]))
        fam["kinds2"] = ps
        # depth 3 chains with suspensions at several levels, both types
        ps = []
        for r in ("detach", "start", "join", "retfut"):
            for T in types:
                for e4 in (RET, THR):
                    ps.append(mk(T, r, [[("co", 2), RET], [("aw", 2), ("co", 3), RET], [("co", 4), ("aw", 3), RET],
                                        [("aw", 1), e4]]))
                    ps.append(mk(T, r, [[("st", 2), RET], [("rf", 3), RET], [("pa", 4), RET], [("aw", 1), e4]]))
        fam["deep"] = ps
    return fam


def payload_family(quick):
    """tracked result type: every way the result leaves the coroutine (co_return form) x every way it reaches its
    bound party (native start modes, in-coroutine start modes, chains), synchronous and after a suspension"""
    ps = []
    pres = ([], [("aw", 1)])
    for r in ROOTS:
        for rt in RETS:
            for pre in pres:
                ps.append(mk("trk", r, [pre + [rt]]))
    for r in (("start",) if quick else ("start", "detach", "join")):
        for m in KINDS:
            for rt in RETS:
                for pre in pres:
                    ps.append(mk("trk", r, [[(m, 2), rt], pre + [rt]]))
    for r in ("start", "join", "detach"):
        for d in (2, 3):
            for rt in RETS:
                for pre in pres:
                    ps.append(mk("trk", r, [[("co", i + 1), rt] for i in range(1, d + 1)] + [pre + [rt]]))
        ps.append(mk("trk", r, [[THR]]))
        ps.append(mk("trk", r, [[("co", 2), RETS[1]], [("aw", 1), THR]]))
    return ps


def ref_family(quick):
    """reference results (async<Tracked &>, the referenced objects outlive the coroutines): every delivery form,
    including the value-future conversions a reference coroutine allows"""
    ps = []
    pres = ([], [("aw", 1)])
    for r in ROOTS + VROOTS:
        for pre in pres:
            ps.append(mk("ref", r, [pre + [RET]]))
    for r in (("start",) if quick else ("start", "detach", "join", "vfctor")):
        for m in ALLKINDS:
            for pre in pres:
                ps.append(mk("ref", r, [[(m, 2), RET], pre + [RET]]))
    for r in ("start", "join", "vretfn"):
        for pre in pres:
            ps.append(mk("ref", r, [[("co", 2), RET], [("vf", 3), RET], pre + [RET]]))
        ps.append(mk("ref", r, [[("vf", 2), RET], [("aw", 1), THR]]))
    return ps


def alloc_family():
    """the SMALL subset used by alloc_replay (C20)"""
    ps = []
    for r in ("join", "start", "startp", "fctor", "retfut", "detach", "claimed"):
        for rt in RETS:
            for pre in ([], [("aw", 1)]):
                ps.append(mk("trk", r, [pre + [rt]]))
    for m in ("co", "st", "rf", "pa"):
        for rt in RETS:
            ps.append(mk("trk", "start", [[(m, 2), rt], [rt]]))
    ps.append(mk("int", "join", [[("aw", 1), RET]]))
    ps.append(mk("void", "join", [[RET]]))
    return ps


def make_proj(ps, alloc=False):
    texts = [prog_text(p) for p in ps]
    started_by = []
    for p in ps:
        kind = {}
        for b in p["body"]:
            for (k, a) in b:
                if k in ALLKINDS:
                    kind[a] = k
        started_by.append(kind)

    def proj(st):
        i = st["prog"] - 1
        p = ps[i]
        kind = started_by[i]
        n = len(p["body"])
        cl = []
        live = 0
        for c in range(1, n + 1):
            cs = st["cs"][c - 1]
            alive = cs not in ("none", "destroyed")
            live += 1 if alive else 0
            b = st["bind"][c - 1]
            # _future is compared with the addresses the harness knows: native code's future and the
            # futures local to the starting coroutine; co_awaiter objects, join()'s temporary and the
            # temporary future of a future-returning coroutine function are just "some other future"
            if not alive:
                bind = "gone"
            elif b == "null":
                bind = "null"
            elif b == "root":
                bind = "other" if p["root"] == "join" else "root"
            elif b == "co":
                bind = "other"
            else:
                bind = "other" if kind.get(c) == "rf" else "loc"
            f = st["fut"][c - 1]
            hidden = (c == 1 and p["root"] == "join") or (c > 1 and kind.get(c) in ("co", "rf"))
            cnt = st["cnt"][c - 1]
            cl.append({
                "bind": bind,
                "cnt": {k: cnt[k] for k in ("ac", "ad", "end", "lc", "ld", "run")},
                "fut": {"st": "none", "v": 0} if hidden else {"st": f["st"], "v": f["v"]},
                "obj": st["obj"][c - 1],
                "seen": st["seen"][c - 1],
            })
        out = {
            "P": texts[i],
            "blocked": st["pend"] == "blocked",
            "c": cl,
            "cb": st["cb"],
            "chk": "ok",
            "ev": st["ev"],
            "ext": [e["st"] for e in st["ext"]],
            "live": live,
            "pay": {"copies": st["pc"], "dbl": 0, "live": st["pl"]},
            "rm": st["rm"],
            "ret": st["ret"],
        }
        if alloc:
            out["la"] = 0    # the library itself makes no operator new call (frames and payload constructions excluded)
        return out
    return proj


def must_take(ps):
    """vacuity guard: the actions the programs of a family are able to exercise"""
    used = {k for p in ps for b in p["body"] for (k, a) in b}
    roots = {p["root"] for p in ps}
    need = {
        "AwaitExt": "aw" in used,
        "SpawnCreate": bool(used & (set(ALLKINDS) - {"rf"})),
        "Launch": bool(used & set(ALLKINDS)),
        "StartReturn": bool(used & {"st", "fc", "rf", "vf"}),
        "AwaitLoc": bool(used & {"st", "fc", "rf", "pa", "pd", "vf"}),
        "Observe": bool(used & {"co", "st", "fc", "rf", "pa", "pd", "vf"}),
        "QueuedResume": "da" in used,
        "Flush": bool(used & {"da", "dd", "pa", "pd"}),
        "JoinStep": "join" in roots,
        "RootSubscribe": bool(roots - {"join", "detach", "claimed"}),
    }
    return list(DRIVER) + [a for a in INTERNAL if need.get(a, True)]


def check_deterministic(g, tag):
    """the library is sequential: while an internal action is pending it is the only thing that can happen"""
    internal = set(INTERNAL)
    for n, es in g.edges.items():
        real = [(l, d) for (l, d) in es if d != n]
        if len(real) > 1 and any(l.split("(")[0] in internal for (l, d) in real):
            raise MachineryError("Async/%s: state with an internal action and %d successors: %s" % (
                tag, len(real), [l for (l, d) in real]))


def probe_join_ref(ctx, rp):
    """what async<T &>::join() hands out.  The specification is fixed at JoinRef = "ref" (the repaired behaviour, /repo ae08cd1:
    join() returns the reference itself); anything else found on the code is the defect recorded under the key
    join_of_reference_coroutine - reported as a violation, and the replay against the "ref" model diverges as well."""
    rc, out = vlib.run_cmd([rp, "--probe-join-ref"], timeout=20)
    m = re.search(r"^JOINREF (\w+)", out, re.M)
    how = m.group(1) if m else "unknown"
    ctx.extra["join_of_reference_coroutine"] = how
    if how != "ref" and not getattr(ctx, "_joinref_reported", False):
        ctx._joinref_reported = True
        ctx.violation("join_of_reference_coroutine",
                      "async<T&>::join() does not hand out the referenced object itself (probe: %s): a value move-/copy-constructed from "
                      "the object the coroutine only refers to; with `auto join()` + std::move the referent is left moved-from (program "
                      "ref|join|0|ret0: Create, RootStart -> rm=[true]); every other delivery form hands out the object itself" % how,
                      "#probe async_replay --probe-join-ref\n#output: %s\n" % out.strip()[:500], kind="txt")
    return "ref"


def build(ctx, name, sanitize, opt="-O1"):
    """the replayer; when the tree under test no longer compiles the reference-coroutine instantiation (async<T&> with
    every delivery form, legal user code at the pinned revision) that is reported, and the check goes on without it"""
    rp = vlib.compile_harness(os.path.join(vlib.VERIF, "harness/async_replay.cpp"), name, sanitize=sanitize, opt=opt,
                              fallback_defines=["ASYNC_NO_REF"])
    noref = vlib.compile_harness.last_fallback
    if noref:
        try:
            vlib._compile_harness(os.path.join(vlib.VERIF, "harness/async_replay.cpp"), name + "_full", sanitize=False, opt="-O0")
            msg = ""
        except MachineryError as e:
            msg = str(e)
        errs = [l for l in msg.splitlines() if " error" in l][:3]
        ctx.violation("compile:async_reference_coroutine",
                      "async<T&> coroutines (co_return of a reference; start / join / co_await / start(promise) / value-future "
                      "conversions) no longer compile against this tree: " + " | ".join(errs)[:900],
                      "# harness/async_replay.cpp compiles only with -DASYNC_NO_REF\n#" + "\n#".join(msg.splitlines()[-40:]) + "\n",
                      kind="log")
    return rp, noref


def race_replay(ctx, rp):
    """spec/Async/AsyncJoin.tla: a blocking delivery form (async::join(), start() + future::wait() / join() /
    sync()+value()) against a coroutine that completes on ANOTHER thread, all interleavings of the joiner's
    {readiness check, subscription CAS, wait} with the finisher's {resolving exchange, flag store, notify}, replayed on
    two vsched-managed threads that yield exactly at those operations (result types int, tracked, void)."""
    def proj(st):
        done = st["jpc"] == "done"
        return {"j": st["jpc"], "f": st["fpc"], "slot": "gone" if done else st["slot"],
                "got": {"cp": 0, "mf": False, "st": "val" if done else "none",
                        "v": 1 if done and st["ty"] != "void" else 0},
                "end": 1, "ad": st["freed"]}

    def hdr(k, st0):
        return {"race": True, "form": st0["form"], "T": st0["ty"]}
    graph_replay(ctx, "Async", "AsyncJoin", "AsyncJoin.cfg", "race", rp, proj, header_fn=hdr,
                 must_take=["JCheck", "JCas", "JWait", "FXchg", "FStore", "FNotify"], extra_random=60,
                 tlc_kw={"workers": 2})
    # the model is able to tell: with the result of subscribe() ignored TLC must find the joiner blocked for ever
    res = ctx.tlc("Async", "AsyncJoin", os.path.join(vlib.VERIF, "spec/Async/AsyncJoin_unchecked.cfg"), "race_unchecked",
                  workers=2)
    if not res.deadlock:
        raise MachineryError("AsyncJoin with CheckedSubscribe = FALSE does not deadlock: the model is vacuous")
    res.model["expected"] = "deadlock (negative control: subscription result ignored)"
    ctx.assume("blocking delivery vs completion on another thread: two threads, scheduling points are the atomic operations "
               "on the bound future's slot and on the sync_awaiter's flag (the value store before the exchange and the frame "
               "destruction after the wake-up are thread-local steps); sequentially consistent interleavings (C03 covers orders)")


def alloc_replay(ctx, rp=None):
    """C20 hook (also part of C04's own run): starting, completing, joining and awaiting an async<T> makes no operator
    new call of its own -- the coroutine frames (none under the counting storage policy) and the payloads the bodies
    construct are the only allocations -- and the result object is never copied on its way to the bound party (a copy of
    an owning T is an allocation inside a library call).  A small family over the tracked result type (native start modes
    join / start / startp / fctor / retfut / detach / claimed and co_await / start / future-returning / start(promise)
    inside a coroutine x the three co_return forms x synchronous / suspended completion) is checked by TLC and every
    edge replayed with the payload's copy count and the library's own operator-new count as compared observations.
    Violations are registered in ctx (they appear under the calling property)."""
    own = ctx.prop.upper() != "C04"
    if rp is None:
        rp, noref = build(ctx, "async_replay_" + ctx.prop.lower() if own else "async_replay",
                          False if own else not ctx.quick, "-O0" if own or ctx.quick else "-O1")
    ps = alloc_family()

    def hdr(k, st0):
        return {"alloc": "count" if k % 2 else "new", "other": False, "obs": "alloc"}
    graph_replay(ctx, "Async", "Async", "Async_base.cfg", "alloc", rp, make_proj(ps, alloc=True), header_fn=hdr,
                 merge_re=MERGE_RE, must_take=must_take(ps), defs={"Programs": tla_programs(ps), "JoinRef": '"%s"' % probe_join_ref(ctx, rp)}, tlc_kw={"workers": TLC_WORKERS})
    ctx.assume("async: the library's own allocations are the global operator new calls inside the native driver's calls "
               "(create / start / join / resolve / drop) minus one per coroutine frame not placed by the counting storage and "
               "minus one per payload constructed from its id; exceptions are allocated by the C++ runtime with malloc and "
               "not counted; the tracked payload owns a 24-byte heap buffer (a copy allocates, a move does not)")


def run(ctx):
    # quick: unoptimised build (the compile is a third of the tier's time, the replay itself is short)
    rp, noref = build(ctx, "async_replay", not ctx.quick, "-O0" if ctx.quick else "-O1")
    fams = families(ctx.quick)
    if noref:
        fams.pop("ref", None)
    join_ref = probe_join_ref(ctx, rp)
    ctx.extra["programs"] = sum(len(v) for v in fams.values())
    ctx.extra["program_families"] = {k: len(v) for k, v in fams.items()}
    for tag, ps in fams.items():
        if len(ctx.violations) >= 3:
            break

        def hdr(k, st0):
            return {"alloc": "count" if k % 2 else "new", "other": (k // 2) % 2 == 1}
        must = must_take(ps)
        res, g = graph_replay(ctx, "Async", "Async", "Async_base.cfg", tag, rp, make_proj(ps), header_fn=hdr,
                              merge_re=MERGE_RE, must_take=must, defs={"Programs": tla_programs(ps), "JoinRef": '"%s"' % join_ref},
                              extra_random=100 if ctx.quick else 1000, tlc_kw={"workers": TLC_WORKERS})
        if g is not None:
            check_deterministic(g, tag)
    if len(ctx.violations) < 3:
        race_replay(ctx, rp)
    if len(ctx.violations) < 3:
        alloc_replay(ctx, rp)
    # the hand-runnable instance (spec/Async/Async_small.tla) stays checked as well
    res = ctx.tlc("Async", "Async_small", os.path.join(vlib.VERIF, "spec/Async/Async_small.cfg"), "small",
                  workers=TLC_WORKERS)
    if res.violation:
        ctx.tlc_violation(res, "Async:Async_small.cfg")
    ctx.assume("programs are the generated families (start mode x completion x type x nesting <= 3 x in-coroutine "
               "start mode); bodies are the harness's script interpreter, values are small integers")
    ctx.assume("'completion on another thread' = the promise of the awaited future is called on a fresh thread "
               "(joined before the next step) or on the controller thread while the thread that called join() is "
               "blocked; interleavings inside one library call are not explored here (C01-C03 do that for future)")
    ctx.assume("thread_pool::run(async) is replayed as its closure (async object and promise moved in, start(promise) "
               "called) executed on a fresh thread instead of a pool worker; the pool's queueing / stopping is C11")
    ctx.assume("the exact identity of a co_awaiter / temporary future bound to a coroutine is not observable from "
               "outside: the projection only distinguishes null / native code's future / a local future / other")
