"""Shared by C07/C08: party mixes for spec/Mutex/Mutex.tla and the projection that
harness/mutex_replay.cpp reproduces from the real cocls::mutex."""
import os

import vlib
from framework import graph_replay

KCONST = {"co": "PCo", "bl": "PBl", "try": "PTry"}
OPS = ["TryCAS", "CsMark", "LCsEnd"]


def pend(pc):
    if pc == "done":
        return "done"
    kind, _, rest = pc.partition("_")
    site = rest
    for suf in ("_ok", "_fail", "_self"):
        if site.endswith(suf):
            site = site[: -len(suf)]
    return "%s:%s" % (kind, site)


def chain_of(st):
    out = []
    n = st["req"]
    fuel = 12
    while n != "null" and fuel:
        fuel -= 1
        out.append(n)
        if n == "door":
            break
        n = st["nxt"][n]
    return out


def queue_of(st):
    out = []
    n = st["queue"]
    fuel = 12
    while n != "null" and fuel:
        fuel -= 1
        out.append(n)
        n = st["nxt"][n]
    return out


def proj(st, pk):
    return {
        "req": st["req"],
        "chain": chain_of(st),
        "queue": queue_of(st),
        "acts": st["acts"],
        "done": st["done"],
        "tryres": st["tryres"],
        "incs": sorted(st["holds"]),
        "pend": {t: pend(pc) for t, pc in st["pc"].items()},
        # C20: the only allocations are the coroutine frames (one per coroutine party, made when its
        # thread starts, i.e. before the first step); lock/contend/hand-over allocate nothing
        "frames": sum(1 for p, k in pk.items() if k == "co"),
        "allocs": 0,
    }


def mix_constants(mix, inspect_next=False):
    pk = {"p%d" % (i + 1): k for i, k in enumerate(mix)}
    consts = {}
    for k, c in KCONST.items():
        consts[c] = "{" + ", ".join(p for p, kk in pk.items() if kk == k) + "}"
    consts["InspectNext"] = "TRUE" if inspect_next else "FALSE"
    return consts, pk


REL = ["discard", "await", "dtor", "assign"]


def header(pk, k):
    rel = {}
    for i, (p, kind) in enumerate(sorted(pk.items())):
        r = REL[(k + i) % 4]
        if kind != "co" and r == "await":
            r = "dtor"
        rel[p] = r
    h = {"P": pk, "rel": rel}
    if "co" not in pk.values():
        h["nowarm"] = True      # no coroutine anywhere: the thread-local ready queue must never be touched (C20)
    return h


def run_mix(ctx, rp, mix, tag, max_paths=None, workers=4):
    consts, pk = mix_constants(mix)
    must = list(OPS)
    if sum(1 for k in mix if k != "try") >= 2:
        must += ["SubCAS", "LSubOk"]
    res, g = graph_replay(ctx, "Mutex", "Mutex", "Mutex_base.cfg", tag, rp, lambda st: proj(st, pk),
                          header_fn=lambda k, st0: header(pk, k), constants=consts, must_take=must,
                          max_paths=max_paths, tlc_kw={"workers": workers})
    return res


def build(ctx):
    return vlib.compile_harness(os.path.join(vlib.VERIF, "harness/mutex_replay.cpp"), "mutex_replay",
                                sanitize=not ctx.quick)


def run_mixes(ctx, rp, jobs, max_paths=None, par=None):
    if par is None:
        par = 4 if ctx.quick else 2     # thorough graphs are large (10^5 states): limit memory
    from concurrent.futures import ThreadPoolExecutor
    errs = []

    def one(k):
        if len(ctx.violations) >= 3:
            return
        try:
            run_mix(ctx, rp, jobs[k], "x%d" % k, max_paths=max_paths)
        except Exception as e:
            errs.append(e)
    with ThreadPoolExecutor(max_workers=par) as ex:
        list(ex.map(one, range(len(jobs))))
    if errs:
        raise errs[0]
    ctx.extra["mixes"] = ["+".join(m) for m in jobs]


# ------------------------------------------------------------------------------------------------------------
# several rounds per party, run-queue hand-over semantics, release on a helper thread (MutexRounds.tla)
# ------------------------------------------------------------------------------------------------------------
def tla_set(xs):
    return "{" + ", ".join('"%s"' % x for x in xs) + "}"


def rounds_defs(cfg):
    """cfg: {"P": {party: kind}, "rounds": {party: n}, "foreign": [...], "await": [...]}"""
    pk = cfg["P"]
    d = {KCONST[k]: tla_set(sorted(p for p, kk in pk.items() if kk == k)) for k in KCONST}
    d["PFor"] = tla_set(cfg.get("foreign", []))
    d["PAwait"] = tla_set(cfg.get("await", []))
    d["Rounds"] = "[p \\in %s |-> CASE %s]" % (tla_set(sorted(pk)), " [] ".join('p = "%s" -> %d' % (p, cfg["rounds"].get(p, 1)) for p in sorted(pk)))
    return d


def proj_rounds(st, cfg):
    pk = cfg["P"]
    return {
        "req": st["req"],
        "chain": chain_of(st),
        "queue": queue_of(st),
        "acts": st["acts"],
        "done": st["done"],
        "tryres": st["tryres"],
        "incs": sorted(st["incs"]),
        "pend": {t: pend(pc) for t, pc in st["pc"].items()},
        "slot": st["slot"] if st["slot"] != [] else {},
        "frames": sum(1 for p, k in pk.items() if k == "co"),
        "allocs": 0,
    }


def header_rounds(cfg, k):
    rel = {}
    for i, (p, kind) in enumerate(sorted(cfg["P"].items())):
        rel[p] = "await" if p in cfg.get("await", []) else ("discard", "dtor", "assign")[(k + i) % 3]
    return {"P": cfg["P"], "rel": rel, "rounds": {p: cfg["rounds"].get(p, 1) for p in cfg["P"]}, "foreign": sorted(cfg.get("foreign", []))}


def run_rounds(ctx, rp, cfg, tag, max_paths=None, workers=4):
    must = ["TryCAS", "CsMark", "LCsEnd", "SubCAS", "LSubOk"]
    if cfg.get("foreign"):
        must += ["HRelMark", "LHRel"]
    res, g = graph_replay(ctx, "Mutex", "MutexRounds", "MutexRounds_base.cfg", tag, rp, lambda st: proj_rounds(st, cfg),
                          header_fn=lambda k, st0: header_rounds(cfg, k), defs=rounds_defs(cfg), must_take=must,
                          variants=[{"reuse": False}, {"reuse": True}],
                          max_paths=max_paths, tlc_kw={"workers": workers})
    return res


def C(kinds, rounds, foreign=(), aw=()):
    pk = {"p%d" % (i + 1): k for i, k in enumerate(kinds)}
    return {"P": pk, "rounds": {"p%d" % (i + 1): r for i, r in enumerate(rounds)}, "foreign": ["p%d" % i for i in foreign], "await": ["p%d" % i for i in aw]}


ROUNDS_QUICK = [
    C(["co", "co"], [2, 2]),
    C(["co", "co"], [2, 2], aw=[1]),
    C(["co", "bl"], [2, 2], foreign=[1]),
    C(["bl", "co"], [2, 1], foreign=[1], aw=[2]),
    C(["co", "try"], [2, 2], aw=[1]),
    C(["co", "co", "bl"], [2, 1, 1], aw=[2]),
]
ROUNDS_MORE = [
    C(["co", "co"], [3, 2], aw=[1, 2]),
    C(["bl", "bl"], [2, 2], foreign=[2]),
    C(["co", "co", "co"], [2, 2, 1], aw=[1]),
    C(["co", "co", "bl"], [2, 1, 1], foreign=[1]),
    C(["co", "bl", "try"], [2, 2, 2], aw=[1]),
    C(["co", "co", "co"], [2, 1, 1], foreign=[1]),
]


def run_rounds_all(ctx, rp, cfgs, max_paths=None, par=3):
    from concurrent.futures import ThreadPoolExecutor
    errs = []

    def one(k):
        if len(ctx.violations) >= 3:
            return
        try:
            run_rounds(ctx, rp, cfgs[k], "r%d" % k, max_paths=max_paths)
        except Exception as e:
            errs.append(e)
    with ThreadPoolExecutor(max_workers=par) as ex:
        list(ex.map(one, range(len(cfgs))))
    if errs:
        raise errs[0]
    ctx.extra["round_mixes"] = ["%s rounds=%s foreign=%s await=%s" % ("+".join(c["P"][p] for p in sorted(c["P"])), [c["rounds"][p] for p in sorted(c["P"])],
                                                                     c["foreign"], c["await"]) for c in cfgs]


# ------------------------------------------------------------------------------------------------------------
# code -> spec: random schedules of mixes beyond the dumpable bound, validated by TLC against MutexRoundsTrace.tla
# ------------------------------------------------------------------------------------------------------------
EXPLORE_QUICK = [
    C(["co", "co", "bl", "co", "try"], [1, 1, 1, 1, 1]),
    C(["co", "co", "bl", "co"], [2, 2, 1, 2], foreign=[3], aw=[1]),
]
EXPLORE_MORE = [
    C(["co", "co", "co", "co", "co", "bl"], [1, 1, 1, 1, 1, 1]),
    C(["co", "bl", "co", "bl"], [2, 2, 2, 2], foreign=[1, 2], aw=[3]),
    C(["co", "co", "co"], [3, 3, 3], aw=[2]),
    C(["co", "try", "bl", "co", "try"], [2, 2, 2, 1, 2], foreign=[4]),
]


def explore_validate(ctx, rp, cfg, tag, runs):
    import vlib
    from framework import MachineryError
    os.makedirs(vlib.BUILD, exist_ok=True)
    trace = os.path.join(vlib.BUILD, "%s_%s.ndjson" % (ctx.prop, tag))
    script = os.path.join(vlib.BUILD, "%s_%s_ex.script" % (ctx.prop, tag))
    desc = "%s rounds=%s foreign=%s await=%s" % ("+".join(cfg["P"][p] for p in sorted(cfg["P"])), [cfg["rounds"][p] for p in sorted(cfg["P"])], cfg["foreign"], cfg["await"])
    for variant in (False, True):
        hdr = header_rounds(cfg, ctx.seed + (1 if variant else 0))
        hdr["reuse"] = variant
        hdr["explore"] = {"runs": runs, "seed": ctx.seed + (7 if variant else 0), "out": trace}
        with open(script, "w") as f:
            f.write("BEGIN ex %s\nEND\n" % vlib.canon(hdr))
        rc, out = vlib.run_cmd([rp], stdin_path=script, timeout=1800, env={"REPLAY_SCENARIO_TIMEOUT": "1700"})
        os.remove(script)
        if rc != 0 or not os.path.exists(trace):
            ctx.violation("explore:crash:%s" % tag, "exploration of the mutex mix %s terminated abnormally (deadlock or crash): %s" % (desc, out[-800:]),
                          "#replayer mutex_replay\n#exploration crashed / deadlocked\n" + out[-2000:], kind="txt")
            return
        lines = open(trace).readlines()
        # TLC: MC module with the mix constants, EXTENDS MutexRoundsTrace
        sd = os.path.join(vlib.VERIF, "spec", "Mutex")
        mc = "MC_%s_%s" % (ctx.prop, tag)
        with open(os.path.join(vlib.BUILD, mc + ".tla"), "w") as f:
            f.write("---- MODULE %s ----\nEXTENDS MutexRoundsTrace\n" % mc)
            for k, v in rounds_defs(cfg).items():
                f.write("def_%s == %s\n" % (k, v))
            f.write("====\n")
        cfg2 = os.path.join(vlib.BUILD, mc + ".cfg")
        with open(cfg2, "w") as f:
            f.write(open(os.path.join(sd, "MutexRoundsTrace_base.cfg")).read())
            f.write("\nCONSTANTS\n" + "\n".join("  %s <- def_%s" % (k, k) for k in rounds_defs(cfg)) + "\n")
        res = None
        for attempt in range(2):
            res = vlib.run_tlc(vlib.BUILD, mc, cfg2, "%s_%s_tv" % (ctx.prop, tag), workers=1, coverage=False, timeout=1800,
                               env={"TRACE": trace}, jvm_opts=["-DTLA-Library=" + sd])
            if res.ok:
                break
            if res.error and not res.violation:
                raise MachineryError("trace validation failed to run (MutexRoundsTrace): %s" % res.error)
        for fn in (mc + ".tla", mc + ".cfg"):
            try:
                os.remove(os.path.join(vlib.BUILD, fn))
            except OSError:
                pass
        ctx.states += res.distinct
        ctx.transitions += res.generated
        ctx.models.append({"module": "MutexRoundsTrace", "cfg": "MutexRoundsTrace_base.cfg", "mix": desc, "reuse": variant, "trace_lines": len(lines),
                           "distinct": res.distinct, "accepted": bool(res.ok), "violation": res.violation})
        if res.ok:
            ctx.traces += runs
            ctx.steps += len(lines)
        else:
            matched = max(0, res.distinct - 1)
            bad = lines[matched] if matched < len(lines) else "(end)"
            txt = "# trace rejected by MutexRoundsTrace.tla (%s); mix %s; matched prefix = %d lines; offending line:\n# %s\n" % (res.violation, desc, matched, bad.strip())
            ctx.violation("trace:%s:%s" % (tag, res.violated_name), "recorded execution of the real mutex is not a behaviour of MutexRounds.tla "
                          "(mix %s, %s): line %d: %s" % (desc, res.violation, matched + 1, bad.strip()[:400]),
                          txt + "".join(lines[max(0, matched - 40):matched + 1]), kind="ndjson")
            os.remove(trace)
            return
        os.remove(trace)
