"""Shared by C07/C08 (and called by C03/C20): party mixes for spec/Mutex/Mutex.tla and MutexRounds.tla and the projection that
harness/mutex_replay.cpp reproduces from the real cocls::mutex (one mutex, every interleaving of its atomic operations);
several mutexes / holder slots / callback requests for spec/Mutex/MutexMulti.tla and harness/mutex_multi_replay.cpp
(sequential, one public call per step).  Both replayers have reduced-observation builds (_build_levels): when a
representation change of the mutex removes a private member the probes name, the projection degrades instead of the
check breaking."""
import os

import vlib
from framework import graph_replay

KCONST = {"co": "PCo", "bl": "PBl", "try": "PTry"}
OPS = ["TryCAS", "CsMark", "LCsEnd"]


def pend(pc):
    if pc == "done":
        return "done"
    kind, _, rest = pc.partition("_")
    site = rest
    for suf in ("_ok", "_fail", "_self"):
        if site.endswith(suf):
            site = site[: -len(suf)]
    return "%s:%s" % (kind, site)


def chain_of(st):
    out = []
    n = st["req"]
    fuel = 12
    while n != "null" and fuel:
        fuel -= 1
        out.append(n)
        if n == "door":
            break
        n = st["nxt"][n]
    return out


def queue_of(st):
    out = []
    n = st["queue"]
    fuel = 12
    while n != "null" and fuel:
        fuel -= 1
        out.append(n)
        n = st["nxt"][n]
    return out


# observation level of the mutex_replay build (set by build()): 0 everything, 1 without the owner-private FIFO, 2 public only
OBS_LEVEL = 0
OBS_DROP = {0: (), 1: ("queue",), 2: ("queue", "req", "chain")}


def _observable(d):
    for k in OBS_DROP[OBS_LEVEL]:
        d.pop(k, None)
    return d


def proj(st, pk):
    return _observable({
        "req": st["req"],
        "chain": chain_of(st),
        "queue": queue_of(st),
        "acts": st["acts"],
        "done": st["done"],
        "tryres": st["tryres"],
        "incs": sorted(st["holds"]),
        "pend": {t: pend(pc) for t, pc in st["pc"].items()},
        # C20: the only allocations are the coroutine frames (one per coroutine party, made when its
        # thread starts, i.e. before the first step); lock/contend/hand-over allocate nothing
        "frames": sum(1 for p, k in pk.items() if k == "co"),
        "allocs": 0,
    })


def mix_constants(mix, inspect_next=False):
    pk = {"p%d" % (i + 1): k for i, k in enumerate(mix)}
    consts = {}
    for k, c in KCONST.items():
        consts[c] = "{" + ", ".join(p for p, kk in pk.items() if kk == k) + "}"
    consts["InspectNext"] = "TRUE" if inspect_next else "FALSE"
    return consts, pk


REL = ["discard", "await", "dtor", "assign"]


def header(pk, k):
    rel = {}
    for i, (p, kind) in enumerate(sorted(pk.items())):
        r = REL[(k + i) % 4]
        if kind != "co" and r == "await":
            r = "dtor"
        rel[p] = r
    h = {"P": pk, "rel": rel}
    if "co" not in pk.values():
        h["nowarm"] = True      # no coroutine anywhere: the thread-local ready queue must never be touched (C20)
    return h


def run_mix(ctx, rp, mix, tag, max_paths=None, workers=4):
    consts, pk = mix_constants(mix)
    must = list(OPS)
    if sum(1 for k in mix if k != "try") >= 2:
        must += ["SubCAS", "LSubOk"]
    res, g = graph_replay(ctx, "Mutex", "Mutex", "Mutex_base.cfg", tag, rp, lambda st: proj(st, pk),
                          header_fn=lambda k, st0: header(pk, k), constants=consts, must_take=must,
                          max_paths=max_paths, tlc_kw={"workers": workers})
    return res


def build(ctx):
    """A representation change of the mutex must degrade the projection, not break the check: when the full harness does not
    compile, it is rebuilt without the probes of the private members it may have lost (OBS_LEVEL)."""
    global OBS_LEVEL
    rp, OBS_LEVEL = _build_levels(ctx, "harness/mutex_replay.cpp", "mutex_replay")
    return rp


def run_mixes(ctx, rp, jobs, max_paths=None, par=None):
    if par is None:
        par = 4 if ctx.quick else 2     # thorough graphs are large (10^5 states): limit memory
    from concurrent.futures import ThreadPoolExecutor
    errs = []

    def one(k):
        if len(ctx.violations) >= 3:
            return
        try:
            run_mix(ctx, rp, jobs[k], "x%d" % k, max_paths=max_paths)
        except Exception as e:
            errs.append(e)
    with ThreadPoolExecutor(max_workers=par) as ex:
        list(ex.map(one, range(len(jobs))))
    if errs:
        raise errs[0]
    ctx.extra["mixes"] = ["+".join(m) for m in jobs]


# ------------------------------------------------------------------------------------------------------------
# several rounds per party, run-queue hand-over semantics, release on a helper thread (MutexRounds.tla)
# ------------------------------------------------------------------------------------------------------------
def tla_set(xs):
    return "{" + ", ".join('"%s"' % x for x in xs) + "}"


def rounds_defs(cfg):
    """cfg: {"P": {party: kind}, "rounds": {party: n}, "foreign": [...], "await": [...]}"""
    pk = cfg["P"]
    d = {KCONST[k]: tla_set(sorted(p for p, kk in pk.items() if kk == k)) for k in KCONST}
    d["PFor"] = tla_set(cfg.get("foreign", []))
    d["PAwait"] = tla_set(cfg.get("await", []))
    d["Rounds"] = "[p \\in %s |-> CASE %s]" % (tla_set(sorted(pk)), " [] ".join('p = "%s" -> %d' % (p, cfg["rounds"].get(p, 1)) for p in sorted(pk)))
    return d


def proj_rounds(st, cfg):
    pk = cfg["P"]
    return _observable({
        "req": st["req"],
        "chain": chain_of(st),
        "queue": queue_of(st),
        "acts": st["acts"],
        "done": st["done"],
        "tryres": st["tryres"],
        "incs": sorted(st["incs"]),
        "pend": {t: pend(pc) for t, pc in st["pc"].items()},
        "slot": st["slot"] if st["slot"] != [] else {},
        "frames": sum(1 for p, k in pk.items() if k == "co"),
        "allocs": 0,
    })


def header_rounds(cfg, k):
    rel = {}
    for i, (p, kind) in enumerate(sorted(cfg["P"].items())):
        rel[p] = "await" if p in cfg.get("await", []) else ("discard", "dtor", "assign")[(k + i) % 3]
    return {"P": cfg["P"], "rel": rel, "rounds": {p: cfg["rounds"].get(p, 1) for p in cfg["P"]}, "foreign": sorted(cfg.get("foreign", []))}


def run_rounds(ctx, rp, cfg, tag, max_paths=None, workers=4):
    must = ["TryCAS", "CsMark", "LCsEnd", "SubCAS", "LSubOk"]
    if cfg.get("foreign"):
        must += ["HRelMark", "LHRel"]
    res, g = graph_replay(ctx, "Mutex", "MutexRounds", "MutexRounds_base.cfg", tag, rp, lambda st: proj_rounds(st, cfg),
                          header_fn=lambda k, st0: header_rounds(cfg, k), defs=rounds_defs(cfg), must_take=must,
                          variants=[{"reuse": False}, {"reuse": True}],
                          max_paths=max_paths, tlc_kw={"workers": workers})
    return res


def C(kinds, rounds, foreign=(), aw=()):
    pk = {"p%d" % (i + 1): k for i, k in enumerate(kinds)}
    return {"P": pk, "rounds": {"p%d" % (i + 1): r for i, r in enumerate(rounds)}, "foreign": ["p%d" % i for i in foreign], "await": ["p%d" % i for i in aw]}


ROUNDS_QUICK = [
    C(["co", "co"], [2, 2]),
    C(["co", "co"], [2, 2], aw=[1]),
    C(["co", "bl"], [2, 2], foreign=[1]),
    C(["bl", "co"], [2, 1], foreign=[1], aw=[2]),
    C(["co", "try"], [2, 2], aw=[1]),
    C(["co", "co", "bl"], [2, 1, 1], aw=[2]),
]
ROUNDS_MORE = [
    C(["co", "co"], [3, 2], aw=[1, 2]),
    C(["bl", "bl"], [2, 2], foreign=[2]),
    C(["co", "co", "co"], [2, 2, 1], aw=[1]),
    C(["co", "co", "bl"], [2, 1, 1], foreign=[1]),
    C(["co", "bl", "try"], [2, 2, 2], aw=[1]),
    C(["co", "co", "co"], [2, 1, 1], foreign=[1]),
]


def run_rounds_all(ctx, rp, cfgs, max_paths=None, par=3):
    from concurrent.futures import ThreadPoolExecutor
    errs = []

    def one(k):
        if len(ctx.violations) >= 3:
            return
        try:
            run_rounds(ctx, rp, cfgs[k], "r%d" % k, max_paths=max_paths)
        except Exception as e:
            errs.append(e)
    with ThreadPoolExecutor(max_workers=par) as ex:
        list(ex.map(one, range(len(cfgs))))
    if errs:
        raise errs[0]
    ctx.extra["round_mixes"] = ["%s rounds=%s foreign=%s await=%s" % ("+".join(c["P"][p] for p in sorted(c["P"])), [c["rounds"][p] for p in sorted(c["P"])],
                                                                     c["foreign"], c["await"]) for c in cfgs]


# ------------------------------------------------------------------------------------------------------------
# code -> spec: random schedules of mixes beyond the dumpable bound, validated by TLC against MutexRoundsTrace.tla
# ------------------------------------------------------------------------------------------------------------
EXPLORE_QUICK = [
    C(["co", "co", "bl", "co", "try"], [1, 1, 1, 1, 1]),
    C(["co", "co", "bl", "co"], [2, 2, 1, 2], foreign=[3], aw=[1]),
]
EXPLORE_MORE = [
    C(["co", "co", "co", "co", "co", "bl"], [1, 1, 1, 1, 1, 1]),
    C(["co", "bl", "co", "bl"], [2, 2, 2, 2], foreign=[1, 2], aw=[3]),
    C(["co", "co", "co"], [3, 3, 3], aw=[2]),
    C(["co", "try", "bl", "co", "try"], [2, 2, 2, 1, 2], foreign=[4]),
]


def explore_validate(ctx, rp, cfg, tag, runs):
    import vlib
    from framework import MachineryError
    os.makedirs(vlib.BUILD, exist_ok=True)
    trace = os.path.join(vlib.BUILD, "%s_%s.ndjson" % (ctx.prop, tag))
    script = os.path.join(vlib.BUILD, "%s_%s_ex.script" % (ctx.prop, tag))
    desc = "%s rounds=%s foreign=%s await=%s" % ("+".join(cfg["P"][p] for p in sorted(cfg["P"])), [cfg["rounds"][p] for p in sorted(cfg["P"])], cfg["foreign"], cfg["await"])
    for variant in (False, True):
        hdr = header_rounds(cfg, ctx.seed + (1 if variant else 0))
        hdr["reuse"] = variant
        hdr["explore"] = {"runs": runs, "seed": ctx.seed + (7 if variant else 0), "out": trace}
        with open(script, "w") as f:
            f.write("BEGIN ex %s\nEND\n" % vlib.canon(hdr))
        rc, out = vlib.run_cmd([rp], stdin_path=script, timeout=1800, env={"REPLAY_SCENARIO_TIMEOUT": "1700"})
        os.remove(script)
        if rc != 0 or not os.path.exists(trace):
            ctx.violation("explore:crash:%s" % tag, "exploration of the mutex mix %s terminated abnormally (deadlock or crash): %s" % (desc, out[-800:]),
                          "#replayer mutex_replay\n#exploration crashed / deadlocked\n" + out[-2000:], kind="txt")
            return
        lines = open(trace).readlines()
        # TLC: MC module with the mix constants, EXTENDS MutexRoundsTrace
        sd = os.path.join(vlib.VERIF, "spec", "Mutex")
        mc = "MC_%s_%s" % (ctx.prop, tag)
        with open(os.path.join(vlib.BUILD, mc + ".tla"), "w") as f:
            f.write("---- MODULE %s ----\nEXTENDS MutexRoundsTrace\n" % mc)
            for k, v in rounds_defs(cfg).items():
                f.write("def_%s == %s\n" % (k, v))
            f.write("====\n")
        cfg2 = os.path.join(vlib.BUILD, mc + ".cfg")
        with open(cfg2, "w") as f:
            f.write(open(os.path.join(sd, "MutexRoundsTrace_base.cfg")).read())
            f.write("\nCONSTANTS\n" + "\n".join("  %s <- def_%s" % (k, k) for k in rounds_defs(cfg)) + "\n")
        res = None
        for attempt in range(2):
            res = vlib.run_tlc(vlib.BUILD, mc, cfg2, "%s_%s_tv" % (ctx.prop, tag), workers=1, coverage=False, timeout=1800,
                               env={"TRACE": trace}, jvm_opts=["-DTLA-Library=" + sd])
            if res.ok:
                break
            if res.error and not res.violation:
                raise MachineryError("trace validation failed to run (MutexRoundsTrace): %s" % res.error)
        for fn in (mc + ".tla", mc + ".cfg"):
            try:
                os.remove(os.path.join(vlib.BUILD, fn))
            except OSError:
                pass
        ctx.states += res.distinct
        ctx.transitions += res.generated
        ctx.models.append({"module": "MutexRoundsTrace", "cfg": "MutexRoundsTrace_base.cfg", "mix": desc, "reuse": variant, "trace_lines": len(lines),
                           "distinct": res.distinct, "accepted": bool(res.ok), "violation": res.violation})
        if res.ok:
            ctx.traces += runs
            ctx.steps += len(lines)
        else:
            matched = max(0, res.distinct - 1)
            bad = lines[matched] if matched < len(lines) else "(end)"
            txt = "# trace rejected by MutexRoundsTrace.tla (%s); mix %s; matched prefix = %d lines; offending line:\n# %s\n" % (res.violation, desc, matched, bad.strip())
            ctx.violation("trace:%s:%s" % (tag, res.violated_name), "recorded execution of the real mutex is not a behaviour of MutexRounds.tla "
                          "(mix %s, %s): line %d: %s" % (desc, res.violation, matched + 1, bad.strip()[:400]),
                          txt + "".join(lines[max(0, matched - 40):matched + 1]), kind="ndjson")
            os.remove(trace)
            return
        os.remove(trace)


# ------------------------------------------------------------------------------------------------------------
# several mutex objects, holder slots, callback requests (MutexMulti.tla, harness/mutex_multi_replay.cpp)
# ------------------------------------------------------------------------------------------------------------
def MM(parties, mutexes=("m1", "m2"), slots="private", kinds=None, uses=None, probes=None, through=(), maxops=6):
    """parties: {name: "plain"|"co"}; slots: "private" (one object per party and mutex), "party" (one object per party for
    all mutexes), "holder" (one object per mutex shared by all parties), or an explicit {party: {mutex: slot id}}"""
    ps = sorted(parties)
    ms = list(mutexes)
    if slots == "private":
        so = {p: {m: "%s@%s" % (p, m) for m in ms} for p in ps}
    elif slots == "party":
        so = {p: {m: "s@%s" % p for m in ms} for p in ps}
    elif slots == "holder":
        so = {p: {m: "h@%s" % m for m in ms} for p in ps}
    else:
        so = slots
    kinds = kinds or {}
    uses = uses or {}
    return {"P": dict(parties), "M": ms, "slot": so, "slots": slots if isinstance(slots, str) else "custom",
            "kinds": {p: sorted(kinds.get(p, ["try", "lock"])) for p in ps},
            "uses": {p: sorted(uses.get(p, ms)) for p in ps},
            "probes": sorted(ms if probes is None else probes), "through": sorted(through), "maxops": maxops}


def tla_fun(d, val):
    return "(" + " @@ ".join('"%s" :> %s' % (k, val(v)) for k, v in sorted(d.items())) + ")"


def multi_defs(cfg):
    P = cfg["P"]
    return {
        "Mutexes": tla_set(cfg["M"]),
        "PPlain": tla_set(sorted(p for p, k in P.items() if k == "plain")),
        "PCo": tla_set(sorted(p for p, k in P.items() if k == "co")),
        "PThrough": tla_set(cfg["through"]),
        "Probes": tla_set(cfg["probes"]),
        "MaxOps": str(cfg["maxops"]),
        "DetachFirst": "TRUE",
        "SlotOf": tla_fun(cfg["slot"], lambda row: tla_fun(row, lambda s: '"%s"' % s)),
        "Kinds": tla_fun(cfg["kinds"], tla_set),
        "Uses": tla_fun(cfg["uses"], tla_set),
    }


def _walk(head, nx, stop):
    out = []
    n = head
    fuel = 12
    while n not in stop and fuel:
        fuel -= 1
        out.append(n)
        n = nx[n]
    return out


def proj_multi(st, cfg, level=0):
    """level 0: everything; 1: without the owner-private FIFO; 2: public observations only"""
    P = cfg["P"]
    slot = st["slot"] if st["slot"] != [] else {}
    out = {
        "st": st["st"],
        "co": {p: ("lock" if "wait" in st["st"][p].values() else "cmd") for p, k in P.items() if k == "co"},
        "slot": {s: (v if level < 2 or v == "none" else "set") for s, v in slot.items()},
        "got": [list(g) for g in st["got"]],
        "res": st["res"],
    }
    if level < 2:
        out["req"] = st["req"]
        out["chain"] = {m: _walk(st["req"][m], st["nxt"][m], ("null", "door")) for m in cfg["M"]}
    if level < 1:
        out["queue"] = {m: _walk(st["queue"][m], st["nxt"][m], ("null", "door")) for m in cfg["M"]}
    return out


REL_PLAIN = ["discard", "reset", "dtor", "keep"]
REL_CO = ["discard", "await", "reset", "dtor", "keep"]


def header_multi(cfg, k, nvariants):
    """every path is replayed nvariants times (graph_replay numbers the scenarios consecutively); a scenario fixes one
    assignment of API forms to the parties: how a request is made (callback through await_suspend(fn, ctx) or a custom
    awaiter through subscribe(); blocking: ownership(co_awaiter&&) or wait()), how an ownership is released, how the
    bystander's probe lets go.  Variant 0 is the plain one (release() discarded, callbacks), the others rotate with the path."""
    v, r = k % nvariants, k // nvariants
    rel, form = {}, {}
    for i, (p, kind) in enumerate(sorted(cfg["P"].items())):
        # "twice": release() again on the released object (a no-op) - only where nobody else stores into that object
        rels = (REL_CO if kind == "co" else REL_PLAIN) + (["twice"] if cfg["slots"] == "private" else [])
        rel[p] = rels[(v + i + r) % len(rels)] if v else rels[0]
        form[p] = ("cb", "sub")[(v + (i + r if v > 1 else 0)) % 2]
    return {"M": cfg["M"], "P": cfg["P"], "slot": cfg["slot"], "through": cfg["through"],
            "rel": rel, "form": form, "probe": ("dtor", "release")[v % 2]}


def multi_desc(cfg):
    return "%s mutexes=%d slots=%s through=%s ops=%d" % ("+".join("%s:%s" % (p, cfg["P"][p]) for p in sorted(cfg["P"])), len(cfg["M"]), cfg["slots"],
                                                       cfg["through"], cfg["maxops"])


def build_multi(ctx):
    """-> (replayer, observation level).  A representation change of the mutex must degrade the projection, not break the
    check: when the full harness does not compile, it is rebuilt without the probes of the private members it may have lost"""
    return _build_levels(ctx, "harness/mutex_multi_replay.cpp", "mutex_multi_replay")


LEVEL_NOTE = {1: "without the owner-private FIFO (mutex::_queue is not a member any more)",
              2: "with public observations only (mutex::_requests / _queue or ownership::_ptr are not members any more)"}


def _build_levels(ctx, src, name):
    src = os.path.join(vlib.VERIF, src)
    last = None
    first = int(os.environ.get("VERIF_MUTEX_OBS", "0"))       # development aid: start at a reduced level on purpose
    for level, defines in enumerate((None, ["MUTEX_NO_QUEUE"], ["MUTEX_NO_PRIVATE"])):
        if level < first:
            continue
        try:
            rp = vlib.compile_harness(src, name, sanitize=not ctx.quick, defines=defines)
        except vlib.MachineryError as e:
            last = e
            continue
        if level:
            ctx.assume("%s built %s: the corresponding parts of the projection are not compared" % (name, LEVEL_NOTE[level]))
        return rp, level
    raise last


def run_multi(ctx, rp, level, cfg, tag, max_paths=None, nvariants=3, workers=4):
    must = ["Try", "Lock", "Release"]
    if cfg["probes"]:
        must.append("Probe")
    if any("block" in k for k in cfg["kinds"].values()):
        must.append("Block")
    if any("ask" in k for k in cfg["kinds"].values()):
        must += ["Ask", "Suspend"]
    res, g = graph_replay(ctx, "Mutex", "MutexMulti", "MutexMulti_base.cfg", tag, rp, lambda st: proj_multi(st, cfg, level),
                          header_fn=lambda k, st0: header_multi(cfg, k, nvariants), defs=multi_defs(cfg), must_take=must,
                          variants=[{} for v in range(nvariants)],
                          max_paths=max_paths, tlc_kw={"workers": workers})
    return res


# quick tier: C07 takes the first two, C08 the last two (each check also sees the other's seed family through its own pair)
MULTI_QUICK = [
    # two mutexes, private ownership objects, callback waiters behind both, a bystander probing: independence of the objects
    MM({"a": "plain", "b": "plain", "c": "plain"}, kinds={"b": ["lock"], "c": ["lock"]}),
    # one shared holder slot, a party that releases from inside its grant, a coroutine among callback parties
    # (a also makes its callback request as two separate calls, await_ready() ... await_suspend(), with a release in between)
    MM({"a": "plain", "b": "plain", "c": "co"}, slots="holder", through=["b"], mutexes=["m1"], maxops=7,
       kinds={"a": ["try", "lock", "ask"]}),
    # two resources with a shared holder slot each: the next owner's callback assigns the slot the releaser is inside of
    MM({"a": "plain", "b": "plain", "c": "plain"}, slots="holder", maxops=5),
    # coroutines holding one mutex while requesting the other, ONE ownership object per party (acquiring over it releases)
    MM({"a": "co", "b": "co", "c": "plain"}, slots="party", maxops=5),
]
MULTI_MORE = [
    MM({"a": "plain", "b": "plain", "c": "plain"}, maxops=7),
    MM({"a": "co", "b": "plain", "c": "co"}, kinds={"a": ["lock"], "b": ["try", "lock", "block"], "c": ["lock"]}, maxops=7),
    MM({"a": "plain", "b": "plain", "c": "co", "d": "plain"}, slots="holder", through=["b"], maxops=6),
    MM({"a": "co", "b": "co", "c": "plain"}, slots="party", through=[], maxops=7),
    MM({"a": "co", "b": "plain", "c": "plain"}, slots="private", through=["a", "c"], kinds={"b": ["try", "lock", "block"]}, maxops=6),
    MM({"a": "plain", "b": "co", "c": "plain"}, mutexes=["m1", "m2", "m3"], kinds={"a": ["lock"], "b": ["lock"], "c": ["try", "lock"]}, probes=["m3"], maxops=6),
]


def start_multi(ctx, cfgs, **kw):
    """runs run_multi_all on a thread of its own (next to the finest-grain mixes); returns a function that waits for it and
    re-raises what it raised"""
    import threading
    if os.environ.get("VERIF_SKIP_MULTI"):      # development aid: timing of the rest
        return lambda: None
    box = []

    import time

    def work():
        t0 = time.time()
        try:
            run_multi_all(ctx, cfgs, **kw)
        except BaseException as e:      # noqa: B902 -- handed to the caller
            box.append(e)
        ctx.extra["multi_wall_s"] = round(time.time() - t0, 1)
    th = threading.Thread(target=work, daemon=True)
    th.start()

    def wait():
        t0 = time.time()
        th.join()
        ctx.extra["multi_waited_s"] = round(time.time() - t0, 1)     # what the part adds to the wall time of the check
        if box:
            raise box[0]
    return wait


def multi_selftest(ctx):
    """the invariants of MutexMulti.tla have teeth: a release() that unlocks through the still armed holder slot and disarms
    it afterwards (DetachFirst = FALSE, not the code) must be rejected"""
    cfg = MM({"a": "plain", "b": "plain", "c": "plain"}, slots="holder", mutexes=["m1"], maxops=4)
    defs = multi_defs(cfg)
    defs["DetachFirst"] = "FALSE"
    res = ctx.tlc("Mutex", "MutexMulti", os.path.join(vlib.VERIF, "spec", "Mutex", "MutexMulti_base.cfg"), "mmself", defs=defs, workers=1, coverage=False)
    if not res.violation:
        raise vlib.MachineryError("self-test: MutexMulti.tla accepts a release() that disarms the holder slot after the unlock")
    res.model["expected_violation"] = True


def run_multi_all(ctx, cfgs, max_paths=None, nvariants=3, par=3):
    from concurrent.futures import ThreadPoolExecutor
    rp, level = build_multi(ctx)
    multi_selftest(ctx)
    errs = []

    def one(k):
        if len(ctx.violations) >= 3:
            return
        try:
            run_multi(ctx, rp, level, cfgs[k], "mm%d" % k, max_paths=max_paths, nvariants=nvariants)
        except Exception as e:
            errs.append(e)
    with ThreadPoolExecutor(max_workers=par) as ex:
        list(ex.map(one, range(len(cfgs))))
    if errs:
        raise errs[0]
    ctx.extra["multi_mixes"] = [multi_desc(c) for c in cfgs]
    ctx.assume("several mutexes / holder slots / callback requests (MutexMulti.tla): sequential histories at the grain of one public "
               "call, everything a call triggers has run when it returns; a single-threaded program blocks only on a free mutex")
