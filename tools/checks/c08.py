"""C08 -- coroutine mutex: FIFO hand-off and no lost request."""
from checks import mutexlib as ml


def jobs_for(ctx):
    # arrival orders of N waiters / try_lock against owners and waiters
    two = [["co", "try"], ["bl", "try"], ["try", "try"], ["co", "co"]]
    three = [["co", "co", "co"], ["bl", "co", "co"], ["co", "try", "try"], ["bl", "bl", "co"], ["co", "bl", "try"], ["bl", "bl", "bl"]]
    four = [["co", "co", "co", "co"], ["bl", "co", "bl", "co"], ["co", "co", "co", "try"]]
    if ctx.quick:
        # one four-party mix also in quick: a request arriving while the owner-private queue is still non-empty needs
        # an owner, two queued waiters and a late comer
        return two + three[: 3] + [three[3 + ctx.seed % 3]] + [four[0]]
    return two + three + four


def run(ctx):
    rp = ml.build(ctx)
    jobs = jobs_for(ctx)
    if ctx.quick:
        ctx.exhaustive = False
    # FIFO / no orphan lock PER MUTEX with several mutex objects, holder slots that the next owner re-assigns from inside the
    # hand-off, one ownership object per party (MutexMulti.tla; sequential, runs next to the finest-grain mixes)
    wait_multi = ml.start_multi(ctx, ml.MULTI_QUICK[2:] if ctx.quick else ml.MULTI_QUICK + ml.MULTI_MORE, nvariants=3 if ctx.quick else 5)
    ml.run_mixes(ctx, rp, jobs, max_paths=500 if ctx.quick else 20000)
    # several rounds per party: FIFO and no-lost-request across re-arrivals, run-queue hand-over, helper-thread release
    ml.run_rounds_all(ctx, rp, ml.ROUNDS_QUICK[:3] if ctx.quick else ml.ROUNDS_QUICK + ml.ROUNDS_MORE, max_paths=300 if ctx.quick else 6000)
    # code -> spec: random schedules of mixes beyond the dumpable bound, validated as traces by TLC (FIFO, NoLostRequest)
    for k, cfg in enumerate(ml.EXPLORE_QUICK[1:] if ctx.quick else ml.EXPLORE_QUICK + ml.EXPLORE_MORE):
        ml.explore_validate(ctx, rp, cfg, "tv%d" % k, 40 if ctx.quick else 1000)
    wait_multi()
    ctx.assume("compare_exchange_weak does not fail spuriously (x86-64 lock cmpxchg); weak CAS is executed as strong under the controlled scheduler")
    ctx.assume("finest grain: one round per party for up to 4 parties (Mutex.tla), 2-3 rounds for 2-3 parties (MutexRounds.tla)")
