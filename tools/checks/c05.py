"""C05 -- coroutine-mode scheduling: run-to-suspension, FIFO ready queue, full drain.

spec/CoroSched/CoroSched.tla enumerates *programs* of scripted coroutines lazily (the next step of a
coroutine is chosen when the coroutine needs it), so the state graph is a tree whose leaves are the
complete programs together with their (deterministic) execution history `ev`.  TLC checks the
property on every state; every leaf (quick: a sample) is replayed on the real library by
harness/corosched_replay.cpp, which runs the whole program in one go and must reproduce the history
event for event, including the content of the ready deque and the coroutine-mode flag at each event.

quick   : fifteen configurations (<= 3-4 coroutines x <= 2-3 steps + forced return, each exhaustive in TLC),
          up to 3000 programs per configuration replayed (those in which order matters first).  Among them
          `accum` (a suspend_point VARIABLE reused through = and <<, awaited / cleared / flushed by its destructor),
          `pool` (a real one-worker cocls::thread_pool: co_await pool, pool.resume(sp), co_await pool(awaitable),
          pool.run(async), and what the coroutine does on the worker afterwards - coroutine mode must be on there)
          and `wide` (a fixed family of long histories of one deque: up to 40 coroutines ready at once after a
          partial drain, with and without pause() rounds), `self` / `selffree` (the `co_await self()` pattern of self.h:
          a suspend point carrying the awaiting coroutine's OWN handle at every position among up to 4 others, after which
          the coroutine parks / pauses / yields, so that a second readying of it is seen; hand-made yield through the
          discarded own suspend point) and `throw` (exceptional exits: native code enters coroutine mode through
          coro_queue::install_queue_and_call(fn) / create_suspend_point(fn) with fn making coroutines ready and then
          returning or THROWING - the outermost activation is left by the exception and must be drained all the same;
          coroutine bodies left by an exception; create_suspend_point inside a coroutine).
          If the replayer does not compile because the representation of the ready deque changed, it is rebuilt
          with -DCOROSCHED_NO_PRIVATE (no deque snapshots; the expectation is blanked accordingly, recorded in the
          evidence as coverage.replayer_build and as an assumption).
thorough: the same with every program replayed under ASan/UBSan, 3-step variants replayed where the
          graph is small and model-checked only where it is big (up to 3*10^6 states), plus random
          programs of 4-5 coroutines x 5 steps from TLC -simulate, each of them replayed as well.
Invariants (cfg files): RunToSuspension, QueueFIFO + FIFOStep + ObservedOrder, ResumeOncePerReadying,
NoReentrancy, RoundRobin, FullDrain, CoroMode (+ TypeOK, AllDoneAtEnd for the program generator).
Binding self-test: tools/mutest.sh C05 quick <mutation.py>.
"""
import json
import os
import re

import vlib
from framework import parse_replay_output, scenario_text
from vlib import MachineryError, log

SPEC = "CoroSched"
TLC_WORKERS = 4
ALL_CONFIGS = ("resolve", "fanout", "spawn", "bound", "park", "mutex", "queue", "mixed", "nested", "accum", "pool", "wide",
               "self", "selffree", "throw", "create")
# an event <<c, i, kind, <<x, y, ...>>, mode>> whose deque snapshot holds at least two coroutines
RICH_RE = re.compile(r'<<\d+, \d+, "[bsefrwxyht]", <<\d+, \d+')
# set by run(): the replayer was built without the probes of the deque's representation
NO_PRIVATE = False

# cfg file -> actions that must have fired (vacuity guard; "entered from normal code" = Nat*,
# "from inside another coroutine" = Spawn*)
CONFIGS = {
    "resolve": ["NatSpawn", "NatResolve", "IqNext", "Flush", "IqExit", "Pause", "ResolveDiscard", "ResolveAwait",
                "AwaitFuture", "Return"],
    "spawn": ["NatSpawn", "Flush", "IqExit", "Pause", "SpawnDetachDiscard", "SpawnDetachAwait", "SpawnCoAwait",
              "Return"],
    "bound": ["NatSpawn", "NatResolve", "Flush", "IqExit", "Pause", "AwaitFuture", "SpawnBoundDiscard",
              "SpawnBoundAwait", "SpawnCoAwait", "Return"],
    "park": ["NatSpawn", "NatUnpark", "Flush", "IqExit", "Pause", "Park", "Unpark", "SpawnDetachDiscard", "Return"],
    "mutex": ["NatSpawn", "NatResolve", "Flush", "IqExit", "Pause", "Lock", "ReleaseDiscard", "ReleaseAwait",
              "AwaitFuture", "ResolveDiscard", "Return"],
    "queue": ["NatSpawn", "NatQPush", "Flush", "IqExit", "Pause", "QPop", "QPushDiscard", "QPushAwait", "Return"],
    "nested": ["NatSpawn", "NatResolve", "Flush", "IqExit", "Pause", "ResolveDiscard", "AwaitFuture",
               "SpawnDetachDiscard", "StartNested", "StartReturn", "Return"],
    "fanout": ["NatSpawn", "NatResolve", "IqNext", "Flush", "IqExit", "Pause", "ResolveDiscard", "ResolveAwait",
               "AwaitFuture", "Return"],
    # a suspend point VARIABLE reused through operator= / << (merge), awaited, cleared, or flushed by its destructor
    "accum": ["NatSpawn", "NatResolve", "Flush", "IqExit", "HoldProm", "HoldDetach", "HoldAwait", "HoldFlush",
              "AwaitFuture", "Return"],
    # every public way onto a thread pool's worker (co_await pool, pool.resume(sp), co_await pool(awaitable),
    # pool.run(async)) and what the coroutine does THERE (resolve + discard, pause): coroutine mode on the worker
    "pool": ["NatSpawn", "NatResolve", "Flush", "IqExit", "PoolCoro", "PoolObs", "PoolEnd", "PoolHop", "PoolResume",
             "PoolAwait", "PoolRun", "Pause", "ResolveDiscard", "AwaitFuture", "Return"],
    # fixed family of long histories of one ready deque (up to 40 coroutines ready at once after a partial drain)
    "wide": ["NatSpawn", "Flush", "IqExit", "Pause", "SpawnDetachDiscard", "Return"],
    # the documented `co_await self()` pattern (self.h): a suspend point that carries the awaiting coroutine's OWN handle
    # at every position among up to 4 others, awaited; afterwards the coroutine parks / pauses / yields / returns, so that
    # a second readying of it would be seen (fixed family SelfCases, every member replayed)
    "self": ["NatSpawn", "NatUnpark", "Flush", "IqExit", "HoldSelf", "HoldDetach", "HoldAwait", "Park", "Pause", "SelfYield",
             "Return"],
    # the same steps freely combined (own handle taken by any coroutine at any time, hand-made yield)
    # plus `co_await` of a STOPPED thread pool (cancelled at once: the coroutine goes through the ready queue, behind
    # whatever is ready already, and sees await_canceled_exception when its turn comes)
    "selffree": ["NatSpawn", "NatUnpark", "Flush", "IqExit", "HoldSelf", "HoldDetach", "HoldAwait", "Park", "Return",
                 "SelfYield", "PoolCancelled"],
    # exceptional exits: the function given to install_queue_and_call / create_suspend_point by NATIVE code makes
    # coroutines ready and returns or THROWS (the outermost activation is left by the exception: full drain all the
    # same); a coroutine body left by an exception
    # after it made others ready; create_suspend_point called by a running coroutine (discarded, awaited, throwing function)
    "throw": ["NatSpawn", "NatInstall", "NatCreate", "IqNext", "Flush", "IqExit", "AwaitFuture", "ResolveDiscard", "Return",
              "Throw", "CreateDiscard", "CreateAwait", "CreateThrow"],
    # create_suspend_point called by a running coroutine, with pause() rounds and native resolutions (thorough tier only)
    "create": ["NatSpawn", "NatResolve", "Flush", "IqExit", "CreateDiscard", "CreateAwait", "CreateThrow", "AwaitFuture",
               "Pause", "Return"],
    "mixed": ["NatSpawn", "NatResolve", "IqNext", "Flush", "IqExit", "Pause", "ResolveDiscard", "ResolveAwait",
              "AwaitFuture", "SpawnDetachDiscard", "SpawnDetachAwait", "SpawnCoAwait", "Return"],
}


def terminal_projection(s):
    ev = s["ev"]
    queue = s["queue"]
    if NO_PRIVATE:
        # degraded build: the replayer reports every deque snapshot as empty
        ev = [[e[0], e[1], e[2], [], e[4]] for e in ev]
        queue = []
    return {
        "script": s["script"],
        "ev": ev,
        "final": {"queue": queue, "inst": 1 if s["inst"] else 0, "nrs": s["nrs"], "st": s["st"]},
        "errors": [],
    }


def short_program(txt, limit=420):
    """programs of the wide family are long: abbreviate for messages and keys (the artefact has the full text)"""
    if len(txt) <= limit:
        return txt
    import hashlib
    return "%s...[%d chars, sha1 %s]" % (txt[:limit - 60], len(txt), hashlib.sha1(txt.encode()).hexdigest()[:10])


def first_difference(line):
    """human readable summary of a DIVERGE line of this replayer"""
    m = re.search(r"expected=(\{.*\}) got=(\{.*\})\s*$", line)
    if not m:
        return line[:300]
    try:
        e, g = json.loads(m.group(1)), json.loads(m.group(2))
    except ValueError:
        return line[:300]
    out = ""
    ee, ge = e.get("ev", []), g.get("ev", [])
    for i in range(max(len(ee), len(ge))):
        a = ee[i] if i < len(ee) else None
        b = ge[i] if i < len(ge) else None
        if a != b:
            out += "event %d [coroutine,step,kind,deque,mode]: specification %s, implementation %s; " % (
                i + 1, vlib.canon(a), vlib.canon(b))
            break
    if e.get("final") != g.get("final"):
        out += "final state: specification %s, implementation %s; " % (vlib.canon(e.get("final")), vlib.canon(g.get("final")))
    if g.get("errors"):
        out += "replayer checks: %s; " % "; ".join(g["errors"])
    return out + "program %s" % short_program(vlib.canon(e.get("script")))


def leaves_and_preds(g):
    """terminal states (= complete programs) and the predecessor relation.  With the history variable the
    graph is a tree except where two orders of native bookkeeping steps meet again in the same state."""
    if len(g.init) < 1:
        raise MachineryError("CoroSched: no initial state in the dumped graph")
    preds = {}
    leaves = []
    for n, es in g.edges.items():
        real = [(l, d) for (l, d) in es if d != n]
        if not real:
            leaves.append(n)
        for (l, d) in real:
            preds.setdefault(d, []).append(n)
    return preds, leaves


def cfg_for(ctx, name, tag, constants):
    sd = os.path.join(vlib.VERIF, "spec", SPEC)
    os.makedirs(vlib.BUILD, exist_ok=True)
    cfg_path = os.path.join(sd, "CoroSched_%s.cfg" % name)
    if constants:
        base = open(cfg_path).read()
        cfg_path = os.path.join(vlib.BUILD, "%s_%s.cfg" % (ctx.prop, tag))
        vlib.write_cfg(cfg_path, base, constants)
    return cfg_path


def shape_stats(ctx, states):
    """what the replayed programs exercise (vacuity guard for the history properties)"""
    st = ctx.extra.setdefault("program_shapes", {
        "programs": 0, "with_discarded_readying": 0, "pause_with_others_queued": 0, "deque_len_ge2_seen": 0,
        "resolve_releasing_ge2": 0, "spawn_inside_coroutine": 0, "max_events": 0})
    for s in states:
        st["programs"] += 1
        if s["disc"]:
            st["with_discarded_readying"] += 1
        ev = s["ev"]
        scr = s["script"]
        if any(e[0] != 0 and e[2] == "s" and e[3] and scr[str(e[0])][e[1] - 1][0] == "pa" for e in ev):
            st["pause_with_others_queued"] += 1
        if any(len(e[3]) >= 2 for e in ev):
            st["deque_len_ge2_seen"] += 1
        if any(c != "0" and any(x[0] in ("sd", "sa", "sc", "st", "bd", "ba") for x in steps) for c, steps in scr.items()):
            st["spawn_inside_coroutine"] += 1
        # a single action that enqueued / handed over two or more coroutines
        for a, b in zip(ev, ev[1:]):
            if a[0] == b[0] and len(b[3]) - len(a[3]) >= 2:
                st["resolve_releasing_ge2"] += 1
                break
        st["max_events"] = max(st["max_events"], len(ev))


def run_programs(ctx, rp, tag, states):
    """states: terminal states of the specification (complete programs with their history)"""
    script = os.path.join(vlib.BUILD, "%s_%s.script" % (ctx.prop, tag))
    nsteps = 0
    with open(script, "w") as f:
        for k, s in enumerate(states):
            if s.get("nph") != "done":
                raise MachineryError("CoroSched/%s: terminal state that is not the end of a program: %s" % (tag, vlib.canon(s)[:600]))
            f.write("BEGIN %s_%d %s\n" % (tag, k, vlib.canon({"swap": k % 4 == 3, "pool": any(e[2] == "w" for e in s["ev"])})))
            f.write("Run\t%s\n" % vlib.canon(terminal_projection(s)))
            f.write("END\n")
            nsteps += len(s["ev"])
    shape_stats(ctx, states)
    rc, out = vlib.run_cmd([rp], stdin_path=script, timeout=600 if ctx.quick else 2400)
    pr = parse_replay_output(out)

    def program_of(txt, sid):
        m = re.search(r'"script":(\{.*?\})\}', txt)
        return short_program(m.group(1)) if m else sid

    if pr["summary"] is None:
        done = pr["ok"] + len(pr["diverged"]) + len(pr["errors"])
        sid = "%s_%d" % (tag, done)
        txt = "#replayer corosched_replay\n" + scenario_text(script, sid)
        tail = out[-1500:]
        tail = "\n".join(l[:300] for l in tail.splitlines() if not l.startswith("OK "))
        ctx.violation("crash:%s:%s" % (SPEC, program_of(txt, sid)),
                      "replayer terminated abnormally (rc=%s) while running program %s of %s/%s: %s" % (
                          rc, program_of(txt, sid), SPEC, tag, tail),
                      txt + "#output tail:\n#" + tail.replace("\n", "\n#") + "\n")
        ctx.traces += pr["ok"]
        return
    if pr["errors"]:
        raise MachineryError("replayer cannot execute scenarios: " + pr["errors"][0][:500])
    ctx.traces += pr["ok"]
    ctx.steps += nsteps
    for line in pr["diverged"][:3]:
        sid = line.split()[1]
        txt = "#replayer corosched_replay\n" + scenario_text(script, sid)
        ctx.violation("diverge:%s:%s" % (SPEC, program_of(txt, sid)),
                      "implementation diverges from %s (%s): %s" % (SPEC, tag, first_difference(line)),
                      txt + "#" + line[:4000] + "\n")
    if states:
        ctx.sample({"model": "%s/%s" % (SPEC, tag), "script": scenario_text(script, "%s_0" % tag)[:1500]})
    try:
        os.remove(script)
    except OSError:
        pass


def replay_config(ctx, rp, name, tag=None, constants=None, max_programs=None, must_skip=()):
    """TLC exhaustive on the configuration with the state graph dumped; every terminal state (quick: a
    sample) is run on the implementation"""
    tag = tag or name
    cfg_path = cfg_for(ctx, name, tag, constants)
    dot = os.path.join(vlib.BUILD, "%s_%s.dot" % (ctx.prop, tag))
    try:
        res = ctx.tlc(SPEC, SPEC, cfg_path, tag, dump_dot=dot, workers=TLC_WORKERS, timeout=3000)
        ctx.check_coverage(res, [a for a in CONFIGS[name] if a not in must_skip], "%s/%s" % (SPEC, tag))
        if res.violation:
            ctx.tlc_violation(res, "%s:%s" % (SPEC, tag))
            return
        g = vlib.load_dot(dot)
    finally:
        try:
            os.remove(dot)
        except OSError:
            pass
    preds, leaves = leaves_and_preds(g)
    ctx.models[-1]["edges"] = g.nedges()
    ctx.models[-1]["programs"] = len(leaves)
    leaves.sort()
    if max_programs is not None and len(leaves) > max_programs:
        # quick tier: prefer the programs in which order matters most (an event that sees two or more
        # coroutines in the deque), fill up with a random sample of the others
        rich = [n for n in leaves if RICH_RE.search(g.state_text[n])]
        rich_set = set(rich)
        rest = [n for n in leaves if n not in rich_set]
        take = min(len(rich), (2 * max_programs) // 3)
        leaves = ctx.rng.sample(rich, take) + ctx.rng.sample(rest, min(len(rest), max_programs - take))
        ctx.exhaustive = False
    # edges lying on some path to a replayed leaf (the leaf's history is the history of every such path)
    anc = set(leaves)
    work = list(leaves)
    on_path = 0
    while work:
        n = work.pop()
        for p in preds.get(n, []):
            on_path += 1
            if p not in anc:
                anc.add(p)
                work.append(p)
    ctx.models[-1]["edges_replayed"] = on_path
    ctx.models[-1]["paths"] = len(leaves)
    states = [g.state(n) for n in leaves]
    del g
    run_programs(ctx, rp, tag, states)


def tlc_only(ctx, name, tag, constants=None, **kw):
    """bigger bound, specification only (no graph dump, no replay)"""
    res = ctx.tlc(SPEC, SPEC, cfg_for(ctx, name, tag, constants), tag, workers=TLC_WORKERS, timeout=3000, **kw)
    if res.violation:
        ctx.tlc_violation(res, "%s:%s" % (SPEC, tag))
    return res


def simulate_replay(ctx, rp, name, tag, constants, num, depth=400):
    """random programs beyond the exhaustive bound: TLC -simulate checks the invariants along random
    maximal paths and writes each path to a file; the final state of every completed path is a program
    with its history and is run on the implementation"""
    import glob
    import shutil
    simdir = os.path.join(vlib.BUILD, "%s_%s_sim" % (ctx.prop, tag))
    shutil.rmtree(simdir, ignore_errors=True)
    os.makedirs(simdir)
    try:
        per_worker = max(1, num // TLC_WORKERS)
        res = ctx.tlc(SPEC, SPEC, cfg_for(ctx, name, tag, constants), tag, workers=TLC_WORKERS, timeout=3000,
                      simulate="file=%s/t,num=%d" % (simdir, per_worker), depth=depth, seed=ctx.seed, coverage=False)
        m = re.search(r"The number of states generated: (\d+)", res.out)
        if m:
            ctx.models[-1]["states_checked"] = int(m.group(1))
            ctx.transitions += int(m.group(1))
        if res.violation:
            ctx.tlc_violation(res, "%s:%s" % (SPEC, tag))
            return
        states = []
        seen = set()
        for fn in sorted(glob.glob(simdir + "/t_*")):
            txt = open(fn).read()
            i = txt.rfind("\nSTATE_")
            if i < 0:
                continue
            body = txt[txt.index("==", i) + 2:]
            body = re.sub(r"\n=+\s*\Z", "", body).strip()
            s = vlib.parse_state_text(body)
            key = vlib.canon(s["script"])
            if s.get("nph") == "done" and key not in seen:
                seen.add(key)
                states.append(s)
    finally:
        shutil.rmtree(simdir, ignore_errors=True)
    if not states:
        raise MachineryError("CoroSched/%s: simulation produced no complete program" % tag)
    ctx.models[-1]["programs"] = len(states)
    ctx.models[-1]["simulated"] = True
    run_programs(ctx, rp, tag, states)


def nested_strict_probe(ctx):
    """Informational, never a verdict: with the future-returning start() a child runs NESTED inside its
    caller; when it pauses, coroutines the caller made ready (discarded suspend point) run before the
    caller itself has suspended.  The check reads "the running coroutine" of the property as the
    innermost activation for such programs (invariant RunToSuspensionInner, configuration `nested`,
    replayed like every other configuration); this probe records what the letter-strict reading
    (RunToSuspension with respect to the waker itself) gives on the same programs."""
    sd = os.path.join(vlib.VERIF, "spec", SPEC)
    res = vlib.run_tlc(sd, SPEC, os.path.join(sd, "CoroSched_nested_strict.cfg"), "%s_nested_strict" % ctx.prop,
                       workers=1, coverage=False, timeout=900)
    if res.error and not res.violation:
        raise MachineryError("TLC failed on CoroSched_nested_strict.cfg:\n%s" % res.error)
    note = {"strict_reading_holds": not res.violation}
    if res.violation and res.trace:
        last = res.trace[-1][1]
        note["violated"] = res.violation
        note["shortest_program"] = last.get("script")
        note["history"] = last.get("ev")
    ctx.extra["nested_start_strict_reading"] = note
    log("  note: nested start(), letter-strict RunToSuspension: %s" % (
        "holds" if not res.violation else "does not hold, e.g. program %s" % vlib.canon(note.get("shortest_program"))))


def run(ctx):
    global NO_PRIVATE
    rp = vlib.compile_harness(vlib.VERIF + "/harness/corosched_replay.cpp", "corosched_replay", sanitize=not ctx.quick,
                              fallback_defines=["COROSCHED_NO_PRIVATE"])
    NO_PRIVATE = bool(vlib.compile_harness.last_fallback)
    ctx.extra["replayer_build"] = "no-private fallback (no deque snapshots)" if NO_PRIVATE else "full"
    if NO_PRIVATE:
        log("  note: the replayer does not compile with its probe of the ready deque's representation; fallback build "
            "without deque snapshots (event history, coroutine mode and counters only)")
        ctx.assume("corosched replay built WITHOUT the probe of the ready deque's representation (it changed and the full "
                   "harness no longer compiles): the content of the deque at each event is not compared, only the event "
                   "history, the coroutine-mode/thread flag and the per-coroutine counters")
    S3 = {"MaxSteps": 3}
    # development aid: C05_PARTS=self,throw runs only these configurations (never set by bin/check's callers)
    only = os.environ.get("C05_PARTS")
    configs = [n for n in ALL_CONFIGS if not only or n in only.split(",")]
    if ctx.quick:
        cap = 3000
        for name in configs:
            if name == "create":
                continue    # thorough only (its steps are part of `throw`)
            elif name == "wide":
                replay_config(ctx, rp, name, constants={"Plan": '"wideq"'}, max_programs=cap)
            elif name == "queue":
                # quick: queue<void> push/pop without pause() steps (a quarter of the graph; the full one is in thorough)
                replay_config(ctx, rp, name, constants={"Kinds": '{"qo", "qd", "qa"}'}, max_programs=cap, must_skip=("Pause",))
            else:
                replay_config(ctx, rp, name, max_programs=cap)
    else:
        # exhaustive, every program replayed (address/UB sanitizers on)
        for name in configs:
            replay_config(ctx, rp, name)
        replay_config(ctx, rp, "resolve", "resolve_s3", dict(S3, Prune="TRUE"))
        replay_config(ctx, rp, "resolve", "resolve_k2", dict(K=2, Prune="TRUE"))
        replay_config(ctx, rp, "resolve", "resolve_n2k2s3", dict(S3, N=2, K=2, Prune="TRUE"))
        replay_config(ctx, rp, "fanout", "fanout_n5", dict(N=5, Roots=5, NatSteps=5, MaxSteps=1))
        replay_config(ctx, rp, "queue", "queue_nat4", dict(NatSteps=4))
        replay_config(ctx, rp, "spawn", "spawn_s3", S3)
        replay_config(ctx, rp, "bound", "bound_s3", S3)
        replay_config(ctx, rp, "pool", "pool_n3", dict(N=3))
        replay_config(ctx, rp, "pool", "pool_nat", dict(N=3, Roots=3, NatSteps=4, MaxSteps=1, NatKinds='{"sd", "pr", "rd"}',
                                                        Kinds='{"po", "pr", "pw", "px", "rd", "pa", "aw"}'))
        replay_config(ctx, rp, "accum", "accum_pa", dict(MaxSteps=2, Kinds='{"ha", "hm", "hd", "hw", "hf", "aw", "pa"}'))
        replay_config(ctx, rp, "accum", "accum_n4", dict(N=4, Roots=1, NatSteps=1))
        replay_config(ctx, rp, "selffree", "selffree_s3", dict(S3, Kinds='{"hs", "hd", "hw", "pk", "hy"}'), must_skip=("PoolCancelled",))
        replay_config(ctx, rp, "throw", "throw_r3", dict(Roots=3))
        # the exception of a child reaches the coroutine that co_awaits it
        replay_config(ctx, rp, "throw", "throw_sc", dict(NatSteps=2, Kinds='{"aw", "rd", "rx", "sc"}'),
                      must_skip=("CreateDiscard", "CreateAwait", "CreateThrow"))
        replay_config(ctx, rp, "create", "create_k2", dict(K=2))
        # bigger bounds on the specification only
        tlc_only(ctx, "resolve", "resolve_s3_all", S3)
        tlc_only(ctx, "resolve", "resolve_k2s3", dict(S3, K=2, Prune="TRUE"))
        tlc_only(ctx, "park", "park_s3", S3)
        tlc_only(ctx, "mutex", "mutex_s3", S3)
        tlc_only(ctx, "mixed", "mixed_s3", S3)
        # random programs far beyond the exhaustive bound, invariants checked and every program replayed
        simulate_replay(ctx, rp, "big", "sim_big", None, num=4000)
        simulate_replay(ctx, rp, "pool", "sim_pool", dict(
            N=4, MaxSteps=4, K=2, Roots=3, NatSteps=5,
            Kinds='{"po", "pr", "pw", "px", "rd", "ra", "aw", "pa", "sd", "sa", "ha", "hm", "hd", "hw", "hf"}',
            NatKinds='{"sd", "rd", "pr"}'), num=2000)
        simulate_replay(ctx, rp, "mutex", "sim_mutex", dict(N=4, MaxSteps=5, K=2, NatSteps=6), num=2000)
        simulate_replay(ctx, rp, "nested", "sim_nested", dict(
            N=5, MaxSteps=5, K=2, Roots=3, NatSteps=5,
            Kinds='{"pa", "rd", "ra", "aw", "sd", "sa", "sc", "st", "bd", "ba", "pk", "up"}',
            NatKinds='{"sd", "rd", "up"}'), num=2000)
    if not ctx.quick:
        nested_strict_probe(ctx)
    sh = ctx.extra.get("program_shapes", {})
    for k in () if only else ("with_discarded_readying", "pause_with_others_queued", "deque_len_ge2_seen", "resolve_releasing_ge2",
              "spawn_inside_coroutine"):
        if not sh.get(k):
            raise MachineryError("vacuous replay: no replayed program exercises '%s'" % k)
    ctx.assume("thread pool programs: ONE worker; the harness parks the worker while the native thread executes and waits "
               "while the worker executes, so the two threads (two thread-local ready queues) never run at the same "
               "time; stopped-pool / cancellation paths belong to C11")
    ctx.assume("one native thread (plus that worker); no join()/blocking wait inside a coroutine and no user call of install_queue_and_call inside a coroutine")
    ctx.assume("future-returning start() (a child resumed nested inside its caller, configuration `nested`): 'the running "
               "coroutine' is read as the innermost activation; under the letter-strict reading (nothing the caller made "
               "ready runs before the CALLER suspends) the library does not hold, see coverage.nested_start_strict_reading")
    ctx.assume("generated programs are free of wait cycles (choice guards in the specification); after its own steps "
               "the native driver resolves/unparks/pushes whatever is still blocked so that every coroutine finishes")
    ctx.assume("mutex and queue steps use one mutex / one queue<void>; mutex programs have no co_await of a child; "
               "signal/publisher emitters are not in the alphabet (they hand over through the same suspend_point paths)")
    ctx.assume("own handle (co_await self()): the generated programs use it as documented - the suspend point carrying it is "
               "co_awaited by its coroutine (any position, any number of other handles) or discarded right before a bare "
               "suspension (hand-made yield); they never flush or destroy it while the coroutine goes on running or finishes")
    ctx.assume("cancelled co_await pool: only the form 'the pool is already stopped when awaited' (a separate, stopped pool "
               "object) is in the alphabet; stop()/destructor called by a coroutine while requests wait in the pool is not")
    ctx.assume("install_queue_and_call(fn) / create_suspend_point(fn) with a throwing fn are entered from native code only "
               "(inside a coroutine: create_suspend_point only); create_suspend_point hands the collected coroutines over in "
               "REVERSE queue order (taken from the back of the deque): mirrored from the code, the property does not fix "
               "the array order of a suspend point")
    ctx.assume("the order among coroutines released by ONE promise resolution (latest subscriber first) and the target "
               "of the symmetric transfer (the LAST handle) are mirrored from the code, not required by the property")
