"""C05 -- coroutine-mode scheduling: run-to-suspension, FIFO ready queue, full drain.

spec/CoroSched/CoroSched.tla enumerates *programs* of scripted coroutines lazily (the next step of a
coroutine is chosen when the coroutine needs it), so the state graph is a tree whose leaves are the
complete programs together with their (deterministic) execution history `ev`.  TLC checks the
property on every state; every leaf (quick: a sample) is replayed on the real library by
harness/corosched_replay.cpp, which runs the whole program in one go and must reproduce the history
event for event, including the content of the ready deque and the coroutine-mode flag at each event.
"""
import json
import os
import re

import vlib
from framework import parse_replay_output, scenario_text
from vlib import MachineryError, log

SPEC = "CoroSched"
INVARIANTS = ["TypeOK", "CoroMode", "RunToSuspension", "QueueFIFO", "ObservedOrder", "ResumeOncePerReadying",
              "NoReentrancy", "RoundRobin", "FullDrain", "AllDoneAtEnd"]
TLC_WORKERS = 4

# cfg file -> actions that must have fired (vacuity guard; "entered from normal code" = Nat*,
# "from inside another coroutine" = Spawn*)
CONFIGS = {
    "resolve": ["NatSpawn", "NatResolve", "IqNext", "Flush", "IqExit", "Pause", "ResolveDiscard", "ResolveAwait",
                "AwaitFuture", "Return"],
    "spawn": ["NatSpawn", "Flush", "IqExit", "Pause", "SpawnDetachDiscard", "SpawnDetachAwait", "SpawnCoAwait",
              "Return"],
    "bound": ["NatSpawn", "NatResolve", "Flush", "IqExit", "Pause", "AwaitFuture", "SpawnBoundDiscard",
              "SpawnBoundAwait", "SpawnCoAwait", "Return"],
    "park": ["NatSpawn", "NatUnpark", "Flush", "IqExit", "Pause", "Park", "Unpark", "SpawnDetachDiscard", "Return"],
    "mutex": ["NatSpawn", "NatResolve", "Flush", "IqExit", "Pause", "Lock", "ReleaseDiscard", "ReleaseAwait",
              "AwaitFuture", "ResolveDiscard", "Return"],
    "queue": ["NatSpawn", "NatQPush", "Flush", "IqExit", "Pause", "QPop", "QPushDiscard", "QPushAwait", "Return"],
    "mixed": ["NatSpawn", "NatResolve", "IqNext", "Flush", "IqExit", "Pause", "ResolveDiscard", "ResolveAwait",
              "AwaitFuture", "SpawnDetachDiscard", "SpawnDetachAwait", "SpawnCoAwait", "Return"],
}


def terminal_projection(s):
    return {
        "script": s["script"],
        "ev": s["ev"],
        "final": {"queue": s["queue"], "inst": 1 if s["inst"] else 0, "nrs": s["nrs"], "st": s["st"]},
        "errors": [],
    }


def first_difference(line):
    """human readable summary of a DIVERGE line of this replayer"""
    m = re.search(r"expected=(\{.*\}) got=(\{.*\})\s*$", line)
    if not m:
        return line[:300]
    try:
        e, g = json.loads(m.group(1)), json.loads(m.group(2))
    except ValueError:
        return line[:300]
    out = "program %s: " % vlib.canon(e.get("script"))
    ee, ge = e.get("ev", []), g.get("ev", [])
    for i in range(max(len(ee), len(ge))):
        a = ee[i] if i < len(ee) else None
        b = ge[i] if i < len(ge) else None
        if a != b:
            out += "event %d [coroutine,step,kind,deque,mode]: specification %s, implementation %s; " % (
                i + 1, vlib.canon(a), vlib.canon(b))
            break
    if e.get("final") != g.get("final"):
        out += "final state: specification %s, implementation %s; " % (vlib.canon(e.get("final")), vlib.canon(g.get("final")))
    if g.get("errors"):
        out += "replayer checks: %s" % "; ".join(g["errors"])
    return out


def leaves_and_preds(g):
    """terminal states (= complete programs) and the predecessor relation.  With the history variable the
    graph is a tree except where two orders of native bookkeeping steps meet again in the same state."""
    if len(g.init) != 1:
        raise MachineryError("CoroSched: expected exactly one initial state, got %d" % len(g.init))
    preds = {}
    leaves = []
    for n, es in g.edges.items():
        real = [(l, d) for (l, d) in es if d != n]
        if not real:
            leaves.append(n)
        for (l, d) in real:
            preds.setdefault(d, []).append(n)
    return preds, leaves


def replay_config(ctx, rp, name, tag=None, constants=None, max_programs=None):
    tag = tag or name
    sd = os.path.join(vlib.VERIF, "spec", SPEC)
    os.makedirs(vlib.BUILD, exist_ok=True)
    cfg_path = os.path.join(sd, "CoroSched_%s.cfg" % name)
    if constants:
        base = open(cfg_path).read()
        cfg_path = os.path.join(vlib.BUILD, "%s_%s.cfg" % (ctx.prop, tag))
        vlib.write_cfg(cfg_path, base, constants)
    dot = os.path.join(vlib.BUILD, "%s_%s.dot" % (ctx.prop, tag))
    try:
        res = ctx.tlc(SPEC, SPEC, cfg_path, tag, dump_dot=dot, workers=TLC_WORKERS, timeout=3000)
        ctx.check_coverage(res, CONFIGS[name], "%s/%s" % (SPEC, tag))
        if res.violation:
            ctx.tlc_violation(res, "%s:%s" % (SPEC, tag))
            return
        g = vlib.load_dot(dot)
    finally:
        try:
            os.remove(dot)
        except OSError:
            pass
    preds, leaves = leaves_and_preds(g)
    ctx.models[-1]["edges"] = g.nedges()
    ctx.models[-1]["programs"] = len(leaves)
    leaves.sort()
    if max_programs is not None and len(leaves) > max_programs:
        leaves = ctx.rng.sample(leaves, max_programs)
        ctx.exhaustive = False
    # edges lying on some path to a replayed leaf (the leaf's history is the history of every such path)
    anc = set(leaves)
    work = list(leaves)
    on_path = 0
    while work:
        n = work.pop()
        for p in preds.get(n, []):
            on_path += 1
            if p not in anc:
                anc.add(p)
                work.append(p)
    nsteps = 0
    ctx.models[-1]["edges_replayed"] = on_path
    ctx.models[-1]["paths"] = len(leaves)
    script = os.path.join(vlib.BUILD, "%s_%s.script" % (ctx.prop, tag))
    with open(script, "w") as f:
        for k, n in enumerate(leaves):
            s = g.state(n)
            if s.get("nph") != "done":
                raise MachineryError("CoroSched/%s: terminal state that is not the end of a program: %s" % (tag, vlib.canon(s)[:600]))
            f.write("BEGIN %s_%d %s\n" % (tag, k, vlib.canon({"swap": k % 4 == 3})))
            f.write("Run\t%s\n" % vlib.canon(terminal_projection(s)))
            f.write("END\n")
            nsteps += len(s["ev"])
    del g
    rc, out = vlib.run_cmd([rp], stdin_path=script, timeout=1800)
    pr = parse_replay_output(out)
    if pr["summary"] is None:
        done = pr["ok"] + len(pr["diverged"]) + len(pr["errors"])
        sid = "%s_%d" % (tag, done)
        txt = "#replayer corosched_replay\n" + scenario_text(script, sid)
        tail = out[-1500:]
        m = re.search(r'"script":(\{.*?\})\}', txt)
        ctx.violation("crash:%s:%s" % (SPEC, m.group(1) if m else sid),
                      "replayer terminated abnormally (rc=%s) while running program %s of %s/%s: %s" % (
                          rc, m.group(1) if m else sid, SPEC, tag, tail),
                      txt + "#output tail:\n#" + tail.replace("\n", "\n#") + "\n")
        ctx.traces += pr["ok"]
        return
    if pr["errors"]:
        raise MachineryError("replayer cannot execute scenarios: " + pr["errors"][0][:500])
    ctx.traces += pr["ok"]
    ctx.steps += nsteps
    for line in pr["diverged"][:3]:
        sid = line.split()[1]
        txt = "#replayer corosched_replay\n" + scenario_text(script, sid)
        m = re.search(r'"script":(\{.*?\})\}', txt)
        ctx.violation("diverge:%s:%s" % (SPEC, m.group(1) if m else sid),
                      "implementation diverges from %s (%s): %s" % (SPEC, tag, first_difference(line)),
                      txt + "#" + line[:4000] + "\n")
    if leaves:
        ctx.sample({"model": "%s/%s" % (SPEC, tag), "script": scenario_text(script, "%s_0" % tag)[:1500]})
    try:
        os.remove(script)
    except OSError:
        pass


def tlc_only(ctx, name, tag, constants=None, **kw):
    sd = os.path.join(vlib.VERIF, "spec", SPEC)
    cfg_path = os.path.join(sd, "CoroSched_%s.cfg" % name)
    if constants:
        base = open(cfg_path).read()
        cfg_path = os.path.join(vlib.BUILD, "%s_%s.cfg" % (ctx.prop, tag))
        vlib.write_cfg(cfg_path, base, constants)
    res = ctx.tlc(SPEC, SPEC, cfg_path, tag, workers=TLC_WORKERS, timeout=3000, **kw)
    if res.violation:
        ctx.tlc_violation(res, "%s:%s" % (SPEC, tag))
    return res


def run(ctx):
    rp = vlib.compile_harness(vlib.VERIF + "/harness/corosched_replay.cpp", "corosched_replay", sanitize=not ctx.quick)
    if ctx.quick:
        cap = 4000
        replay_config(ctx, rp, "resolve", max_programs=cap)
        replay_config(ctx, rp, "spawn", max_programs=cap)
        replay_config(ctx, rp, "bound", max_programs=cap)
        replay_config(ctx, rp, "park", max_programs=cap)
        replay_config(ctx, rp, "mutex", max_programs=cap)
        replay_config(ctx, rp, "queue", max_programs=cap)
    else:
        replay_config(ctx, rp, "resolve")
        replay_config(ctx, rp, "spawn")
        replay_config(ctx, rp, "bound")
        replay_config(ctx, rp, "park")
        replay_config(ctx, rp, "mutex")
        replay_config(ctx, rp, "queue")
    ctx.assume("one thread; the alphabet has no future-returning start()/join() (they resume the child nested inside "
               "the caller, like a function call) and no user call of install_queue_and_call inside a coroutine")
    ctx.assume("generated programs are free of wait cycles (choice guards in the specification); after its own steps "
               "the native driver resolves/unparks/pushes whatever is still blocked so that every coroutine finishes")
    ctx.assume("mutex and queue steps use one mutex / one queue<void>; mutex programs have no co_await of a child")
