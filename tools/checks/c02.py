"""C02 -- no lost, early or duplicate wake-up of a future's waiters."""
from checks import futurelib as fl


def run(ctx):
    rp = fl.build(ctx)
    wm = fl.waiter_mixes(3)
    rkinds = [["val"], ["exc"], ["drop"], ["mdes"], ["dtor"], ["final"], ["val", "drop"], ["ovw"]]
    jobs = [(r, w) for r in rkinds for w in wm if len(r) + len(w) <= 4]
    # another promise move-ASSIGNED over the pending one (kind "ovw", from a named source that lives on and is called afterwards):
    # waiters of every kind parked on the overwritten future are released, with no-value, AT the assignment
    ovw = [(["ovw"], ["co", "cb", "bl"]), (["ovw"], ["hv", "bl"]), (["ovw", "dtor"], ["cb", "co"])]
    if ctx.quick:
        ctx.exhaustive = False
        ctx.rng.shuffle(jobs)
        # every waiter mix of size <=2 against a rotating resolver kind + a sample of the 3-waiter mixes
        sel = []
        small = [w for w in wm if len(w) <= 2]
        for i, w in enumerate(small):
            sel.append((rkinds[(i + ctx.seed) % 6], w))
        big = [j for j in jobs if len(j[1]) == 3][:8]
        jobs = sel + big + ovw
    fl.run_mixes(ctx, rp, jobs, max_paths=300 if ctx.quick else None)
    # futures that are already resolved when the waiters arrive, built by operator<< / result_of from a function that returned a
    # ready future (value, exception, dropped promise) or that threw: every kind of waiter must see "ready" and the result
    # (value / exception / no-value also through the static factories future<T>::set_value / set_exception / set_not_value)
    pres = ["exc_throw", "val", "drop", "exc", "novalue"] if not ctx.quick else ["exc_throw", "novalue", ["val", "drop", "exc"][ctx.seed % 3]]
    fl.run_jobs(ctx, [{"rp": rp, "r": [], "w": w, "tag": "pre%d_%d" % (k, i), "pre": pre, "max_paths": 200 if ctx.quick else None}
                      for k, pre in enumerate(pres) for i, w in enumerate((["co", "bl"], ["cb", "hv"]))])
    # the same for the reference instantiation: future<int&>::set_value(lvalue) stores the address (state value_ref built ready)
    rpr = fl.build_ref(ctx)
    for k, pre in enumerate(["val", "exc", "drop"] if not ctx.quick else ["val"]):
        fl.run_mixes(ctx, rpr, [([], ["co", "hv"]), ([], ["bl", "cb"])][:1 if ctx.quick else 2], max_paths=100 if ctx.quick else None,
                     tagp="preref%d_" % k, pre=pre)
    # finest grain (FutureFine.tla): the thread-local code between two atomic operations is a step of its own, so a plain
    # access on the wrong side of an atomic operation (result stored after the resolving exchange, a node touched after its
    # waiter was released, ...) is exposed to the other threads; small mixes
    fine = [(["val"], ["co"]), (["val"], ["bl"]), (["exc"], ["cb"]), (["drop"], ["hv"]), (["final"], ["co", "bl"]), (["val"], ["bl", "cb"]),
            (["dtor"], ["co"]), (["mdes"], ["bl"]), (["exc"], ["co", "hv"]), (["val", "drop"], ["co"])]
    if not ctx.quick:
        fine += [(r, w) for r in (["val"], ["exc"], ["drop"], ["final"]) for w in fl.waiter_mixes(2)]
    fl.run_mixes_fine(ctx, rp, fine, max_paths=400 if ctx.quick else None)
    # code -> spec: random schedules of mixes beyond the dumpable bound, validated as traces by TLC
    big = [(["val"], ["co", "bl", "cb", "hv"]), (["exc", "drop"], ["bl", "bl", "co", "co"]), (["val", "mdes", "dtor"], ["cb", "bl", "co"]),
           (["final"], ["bl", "co", "cb", "hv", "bl"])]
    for k, (r, w) in enumerate(big if not ctx.quick else big[:2] + [big[2 + ctx.seed % 2]]):
        fl.explore_validate(ctx, rp, r, w, "tv%d" % k, 150 if ctx.quick else 1500)
    ctx.assume("compare_exchange_weak does not fail spuriously (x86-64 lock cmpxchg); weak CAS is executed as strong under the controlled scheduler")
    ctx.assume("flag.notify_all() after flag.store(true) touches the (possibly destroyed) sync_awaiter by address only")
