"""C11 -- thread pool: every submission runs once on a worker or is cancelled once."""
import os

import vlib
from framework import graph_replay

CPEND = {"begin": "pre:mark", "enq_lock": "pre:lock", "enq_after": "post:unlock", "stop_lock": "pre:lock",
         "stop_after": "post:unlock", "stop_join": "pre:join", "done": "done",
         "start": "pre:start", "loop_lock": "pre:lock", "waiting": "pre:cond", "job_run": "post:unlock",
         "exit_after": "post:unlock", "aw0": "pre:mark", "awb": "pre:mark", "rv_mark": "pre:mark", "rs_enq_lock": "pre:lock",
         "rs_enq_after": "post:unlock"}
JST = {"new": "pending", "queued": "pending", "dropped": "pending", "waiting": "pending", "running": "running", "ran": "ran", "cancelled": "cancelled"}


def as_map(v):
    if isinstance(v, list):
        return {str(i + 1): x for i, x in enumerate(v)}
    return {str(k): x for k, x in v.items()}


def proj(st):
    pc = st["pc"]
    enabled = []
    for t, p in pc.items():
        if p == "done":
            continue
        if p == "waiting" and t not in st["notified"]:
            continue
        if p == "stop_join" and st["sth"][t][0] not in st["wdone"]:
            continue
        if p == "start" and pc["c"] == "begin":
            continue
        enabled.append(t)
    jst = as_map(st["jst"])
    ranby = as_map(st["ranby"])
    return {
        "pend": {t: CPEND[p] for t, p in pc.items()},
        "enabled": sorted(enabled),
        "wdone": sorted(st["wdone"]),
        "exit": st["exit"],
        "qlen": len(st["q"]),
        # a dequeued job whose body has not started yet is not observable as running
        "jobs": {j: {"st": "pending" if (s == "running" and ranby[j] == "none") else JST[s], "by": ranby[j]} for j, s in jst.items()},
    }


def tla_seq(xs):
    return "<<" + ", ".join('"%s"' % x for x in xs) + ">>"


# co_await pool(future): resolved before / between await_ready() and the subscription / after it, by the client or by
# a worker job, against stop()
SCRIPTS_AW = [
    (["rvj", "aw", "stop"], 1), (["aw", "rv", "stop"], 1), (["rvj", "aw", "det", "stop"], 2), (["aw", "co", "rv", "stop"], 2),
]
SCRIPTS_AW_MORE = [(["aw", "stop", "rv"], 1), (["rvj", "rvj", "aw", "aw", "stop"], 2), (["aw", "wst", "rv"], 2), (["rvj", "aw", "fn", "stop"], 3),
                   (["aw", "aw", "rv", "rv", "stop"], 2)]
SCRIPTS_QUICK = [
    (["co", "fn", "stop"], 1), (["det", "asy", "stop"], 1), (["co", "stop", "fn", "co"], 1),
    (["fn", "wst", "co"], 1), (["co", "wst", "fn", "stop"], 2), (["det", "co", "stop", "stop"], 2),
    (["asy", "co", "fn", "stop"], 2), (["wst", "stop"], 2),
]
SCRIPTS_MORE = [
    (["co", "co", "co", "stop"], 1), (["fn", "fn", "wst", "det"], 2), (["co", "fn", "det", "stop"], 3),
    (["wst", "wst", "stop"], 2), (["asy", "asy", "stop", "asy"], 2), (["co", "wst", "stop", "fn"], 3),
    (["det", "stop"], 3), (["stop", "co", "fn", "det", "asy"], 1), (["co", "fn", "asy", "stop"], 3),
]
ACTIONS = ["CBegin", "CEnqueue", "CAfterEnqueue", "StopCS", "StopAfter", "WStart", "WLock"]


def run_script(ctx, rp, script, nw, tag, max_paths):
    defs = {"Script": tla_seq(script), "WOrder": tla_seq(["w%d" % (i + 1) for i in range(nw)])}
    hdr = {"script": script, "workers": nw}
    return graph_replay(ctx, "ThreadPool", "ThreadPool", "ThreadPool_base.cfg", tag, rp, proj,
                        header_fn=lambda k, st0: dict(hdr, form=k % 2), defs=defs, must_take=ACTIONS, max_paths=max_paths,
                        tlc_kw={"workers": 4})


def run(ctx):
    rp = vlib.compile_harness(os.path.join(vlib.VERIF, "harness/pool_replay.cpp"), "pool_replay",
                              extra_flags=["-rdynamic"], sanitize=False)
    scripts = list(SCRIPTS_QUICK)
    if not ctx.quick:
        scripts += SCRIPTS_MORE
    else:
        ctx.exhaustive = False
    for k, (script, nw) in enumerate(scripts):
        run_script(ctx, rp, script, nw, "s%d" % k, 400 if ctx.quick else 5000)
        if len(ctx.violations) >= 3:
            break
    # resume(suspend_point): the closure holds a bare coroutine handle and has no cancel path.  The
    # specification mirrors that ("dropped"); the replay (cfg without RunOrCancelOnce) confirms that the real
    # code behaves as modelled, and TLC then reports the property violation on the model: a known finding.
    for k, (script, nw) in enumerate([(["res", "stop"], 1), (["det", "stop", "res"], 1)] + SCRIPTS_AW + ([] if ctx.quick else SCRIPTS_AW_MORE)):
        defs = {"Script": tla_seq(script), "WOrder": tla_seq(["w%d" % (i + 1) for i in range(nw)])}
        hdr = {"script": script, "workers": nw}
        graph_replay(ctx, "ThreadPool", "ThreadPool", "ThreadPool_nodrop.cfg", "r%d" % k, rp, proj,
                     header_fn=lambda i, st0, hdr=hdr: hdr, defs=defs, max_paths=400 if ctx.quick else 5000, tlc_kw={"workers": 4},
                     must_take=["CAwReady", "CAwSubscribe"] if "aw" in script else None)
        res = ctx.tlc("ThreadPool", "ThreadPool", os.path.join(vlib.VERIF, "spec/ThreadPool/ThreadPool_base.cfg"),
                      "rv%d" % k, defs=defs, workers=4)
        if res.violation:
            ctx.tlc_violation(res, "ThreadPool:resume(%s)" % "+".join(script),
                              key="pool_resume_bare_handle_dropped" if res.violated_name == "RunOrCancelOnce" else None)
    ctx.extra["scripts"] = ["%s x%d" % ("+".join(s), n) for s, n in scripts]
    ctx.assume("lock grain: atomic operations inside the pool's critical sections and inside promise resolution are not scheduling points")
    ctx.assume("condition-variable notify_one wakes the longest waiting worker (FIFO); no spurious wake-ups are generated")
