"""C11 -- thread pool: every submission runs once on a worker or is cancelled once."""
import os

import vlib
from framework import graph_replay

CPEND = {"begin": "pre:mark", "enq_lock": "pre:lock", "enq_after": "post:unlock", "stop_lock": "pre:lock",
         "stop_after": "post:unlock", "stop_join": "pre:join", "done": "done",
         "start": "pre:start", "loop_lock": "pre:lock", "waiting": "pre:cond", "job_run": "post:unlock",
         "exit_after": "post:unlock", "aw0": "pre:mark", "awb": "pre:mark", "rv_mark": "pre:mark", "rs_enq_lock": "pre:lock",
         "rs_enq_after": "post:unlock", "nx_enq_lock": "pre:lock", "nx_enq_after": "post:unlock",
         "dbegin": "pre:mark"}
JST = {"unborn": "pending", "new": "pending", "queued": "pending", "dropped": "pending", "waiting": "pending", "running": "running", "ran": "ran", "cancelled": "cancelled"}


def as_map(v):
    if isinstance(v, list):
        return {str(i + 1): x for i, x in enumerate(v)}
    return {str(k): x for k, x in v.items()}


# nested submissions (ThreadPool.tla: HasChild / ChildKind / Kind / HasFuture / FutState)
CHILD = {"asn": "co", "acu": "co", "con": "co", "as2": "con", "asr": "fna", "fnn": "fn", "dtn": "det"}
FUT_FN = ("fn", "asy", "fnn")
FUT_THROW = ("fnx", "asx")
FUT_CORO = ("asn", "as2", "acu", "asr")


def kind_of(script, j):
    n = len(script)
    k = script[(j - 1) % n]
    for _ in range((j - 1) // n):
        k = CHILD[k]
    return k


def make_proj(script):
    n = len(script)

    def chain_over(jst, j):
        k = kind_of(script, j)
        if k not in CHILD:
            return jst[str(j)] == "ran"
        if k == "asr":
            return jst[str(j)] == "ran" and jst[str(j + n)] in ("ran", "cancelled")
        return jst[str(j + n)] == "cancelled" or chain_over(jst, j + n)

    def fut(jst, j):
        k = kind_of(script, j)
        if k not in FUT_FN and k not in FUT_CORO and k not in FUT_THROW:
            return "none"
        if jst[str(j)] == "cancelled":
            return "broken"
        if k in FUT_THROW:
            return "exception" if jst[str(j)] == "ran" else "pending"
        if k in FUT_FN:
            return "value" if jst[str(j)] == "ran" else "pending"
        return "value" if chain_over(jst, j) else "pending"

    def proj(st):
        pc = st["pc"]
        enabled = []
        for t, p in pc.items():
            if p == "done":
                continue
            if p == "waiting" and t not in st["notified"]:
                continue
            if p == "stop_join" and st["sth"][t][0] not in st["wdone"]:
                continue
            if p in ("start", "dbegin") and pc["c"] == "begin":
                continue
            enabled.append(t)
        jst = as_map(st["jst"])
        ranby = as_map(st["ranby"])
        return {
            "pend": {t: CPEND[p] for t, p in pc.items()},
            "enabled": sorted(enabled),
            "wdone": sorted(st["wdone"]),
            "exit": st["exit"],
            "qlen": len(st["q"]),
            # a dequeued job whose body has not started yet is not observable as running
            "jobs": {j: {"st": "pending" if (s == "running" and ranby[j] == "none") else JST[s], "by": ranby[j],
                         "fut": fut(jst, int(j))} for j, s in jst.items()},
        }
    return proj


def tla_seq(xs):
    return "<<" + ", ".join('"%s"' % x for x in xs) + ">>"


# co_await pool(future): resolved before / between await_ready() and the subscription / after it, by the client or by
# a worker job, against stop()
SCRIPTS_AW = [
    (["rvj", "aw", "stop"], 1), (["aw", "rv", "stop"], 1), (["rvj", "aw", "det", "stop"], 2), (["aw", "co", "rv", "stop"], 2),
]
SCRIPTS_AW_MORE = [(["aw", "stop", "rv"], 1), (["rvj", "rvj", "aw", "aw", "stop"], 2), (["aw", "wst", "rv"], 2), (["rvj", "aw", "fn", "stop"], 3),
                   (["aw", "aw", "rv", "rv", "stop"], 2)]
SCRIPTS_QUICK = [
    (["co", "fn", "stop"], 1), (["det", "asy", "stop"], 1), (["co", "stop", "fn", "co"], 1),
    (["fn", "wst", "co"], 1), (["co", "wst", "fn", "stop"], 2), (["det", "co", "stop", "stop"], 2),
    (["asy", "co", "fn", "stop"], 2), (["wst", "stop"], 2),
]
SCRIPTS_MORE = [
    (["co", "co", "co", "stop"], 1), (["fn", "fn", "wst", "det"], 2), (["co", "fn", "det", "stop"], 3),
    (["wst", "wst", "stop"], 2), (["asy", "asy", "stop", "asy"], 2), (["co", "wst", "stop", "fn"], 3),
    (["det", "stop"], 3), (["stop", "co", "fn", "det", "asy"], 1), (["co", "fn", "asy", "stop"], 3),
]
# jobs whose body submits to the same pool: pool.run(async coroutine doing co_await pool / co_await pool.run(fn) /
# co_await thread_pool::current()), coroutines hopping twice, functions submitting functions -- on a pool with no free
# worker (1 worker; N such jobs on N workers): the worker must come back for the nested submission
SCRIPTS_NEST = [
    (["asn", "stop"], 1), (["asn", "asn", "stop"], 2), (["con", "asr", "stop"], 1), (["acu", "as2", "stop"], 1),
    (["dtn", "fnn", "stop"], 1),
]
SCRIPTS_NEST_MORE = [
    (["asr", "asr", "stop"], 2), (["as2", "asn", "stop"], 2), (["asn", "wst", "co"], 1), (["asn", "stop", "con", "fnn"], 1),
    (["con", "con", "stop"], 3), (["acu", "wst", "stop"], 2), (["fnn", "dtn", "asr", "stop"], 2), (["asn", "asn", "asn", "stop"], 2),
    (["as2", "stop"], 2), (["acu", "acu", "stop"], 2),
]
# two external stop() calls overlapping at lock grain (a second client thread "d"; "d:stop"), while workers are idle /
# busy / stopping the pool themselves; run(fn) / run(async) whose body throws: the exception is the future's outcome
# and the worker takes the next job
SCRIPTS_TWO = [(["co", "stop", "d:stop"], 1), (["fnx", "asx", "fn", "stop"], 1)]
SCRIPTS_TWO_MORE = [(["det", "stop", "d:stop"], 2), (["wst", "fn", "stop", "d:stop"], 2), (["co", "fn", "det", "d:stop"], 3), (["asn", "stop", "d:stop"], 1),
                    (["stop", "fnx", "asx"], 1), (["asx", "fnx", "wst"], 2), (["fn", "stop", "stop", "d:stop"], 2)]
ACTIONS = ["CBegin", "CEnqueue", "CAfterEnqueue", "StopCS", "StopAfter", "WStart", "WLock"]


def split_script(script):
    """the element "d:stop" stands for the second client thread "d" calling pool.stop() (at any time after the pool's
    construction, overlapping whatever the first client's script does)"""
    second = "d:stop" in script
    return [x for x in script if x != "d:stop"], second


def model_defs(script, nw, second=False):
    return {"Script": tla_seq(script), "WOrder": tla_seq(["w%d" % (i + 1) for i in range(nw)]),
            "SecondStopper": "TRUE" if second else "FALSE"}


def run_script(ctx, rp, script, nw, tag, max_paths, more_actions=()):
    script, second = split_script(script)
    defs = model_defs(script, nw, second)
    hdr = {"script": script, "workers": nw, "second": second}
    if second:
        more_actions = list(more_actions) + ["DBegin"]
    return graph_replay(ctx, "ThreadPool", "ThreadPool", "ThreadPool_base.cfg", tag, rp, make_proj(script),
                        header_fn=lambda k, st0: dict(hdr, form=k % 2), defs=defs, must_take=ACTIONS + list(more_actions), max_paths=max_paths,
                        tlc_kw={"workers": 4})


def run(ctx):
    rp = vlib.compile_harness(os.path.join(vlib.VERIF, "harness/pool_replay.cpp"), "pool_replay",
                              extra_flags=["-rdynamic"], sanitize=False)
    scripts = list(SCRIPTS_QUICK)
    if not ctx.quick:
        scripts += SCRIPTS_MORE
    else:
        ctx.exhaustive = False
    for k, (script, nw) in enumerate(scripts):
        run_script(ctx, rp, script, nw, "s%d" % k, 400 if ctx.quick else 5000)
        if len(ctx.violations) >= 3:
            break
    nest = SCRIPTS_NEST + ([] if ctx.quick else SCRIPTS_NEST_MORE)
    for k, (script, nw) in enumerate(nest):
        if len(ctx.violations) >= 3:
            break
        run_script(ctx, rp, script, nw, "n%d" % k, 400 if ctx.quick else 5000, more_actions=["WRun", "NEnqueue", "NAfterEnqueue"])
    scripts = scripts + nest
    if not ctx.quick and len(ctx.violations) < 3:
        # three such jobs on three workers: the state graph (10^6 states) is checked by TLC only
        big = ["asn", "asn", "asn", "stop"]
        res = ctx.tlc("ThreadPool", "ThreadPool", os.path.join(vlib.VERIF, "spec/ThreadPool/ThreadPool_base.cfg"), "n3x3",
                      defs=model_defs(big, 3), workers=4)
        if res.violation:
            ctx.tlc_violation(res, "ThreadPool:%s x3" % "+".join(big))
    two = SCRIPTS_TWO + ([] if ctx.quick else SCRIPTS_TWO_MORE)
    for k, (script, nw) in enumerate(two):
        if len(ctx.violations) >= 3:
            break
        run_script(ctx, rp, script, nw, "t%d" % k, 400 if ctx.quick else 5000, more_actions=["StopJoin"])
    scripts = scripts + two
    # resume(suspend_point): the closure holds a bare coroutine handle and has no cancel path.  The
    # specification mirrors that ("dropped"); the replay (cfg without RunOrCancelOnce) confirms that the real
    # code behaves as modelled, and TLC then reports the property violation on the model: a known finding.
    for k, (script, nw) in enumerate([(["res", "stop"], 1), (["det", "stop", "res"], 1)] + SCRIPTS_AW + ([] if ctx.quick else SCRIPTS_AW_MORE)):
        defs = model_defs(script, nw)
        hdr = {"script": script, "workers": nw, "second": False}
        graph_replay(ctx, "ThreadPool", "ThreadPool", "ThreadPool_nodrop.cfg", "r%d" % k, rp, make_proj(script),
                     header_fn=lambda i, st0, hdr=hdr: hdr, defs=defs, max_paths=400 if ctx.quick else 5000, tlc_kw={"workers": 4},
                     must_take=["CAwReady", "CAwSubscribe"] if "aw" in script else None)
        res = ctx.tlc("ThreadPool", "ThreadPool", os.path.join(vlib.VERIF, "spec/ThreadPool/ThreadPool_base.cfg"),
                      "rv%d" % k, defs=defs, workers=4)
        if res.violation:
            ctx.tlc_violation(res, "ThreadPool:resume(%s)" % "+".join(script),
                              key="pool_resume_bare_handle_dropped" if res.violated_name == "RunOrCancelOnce" else None)
    ctx.extra["scripts"] = ["%s x%d" % ("+".join(s), n) for s, n in scripts]
    ctx.assume("a function job that submits to its own pool does not wait for that submission (waiting there is the user's dead-lock); "
               "a coroutine job may suspend on its own nested submission")
    ctx.assume("lock grain: atomic operations inside the pool's critical sections and inside promise resolution are not scheduling points")
    ctx.assume("condition-variable notify_one wakes the longest waiting worker (FIFO); no spurious wake-ups are generated")
