"""C09 -- awaitable queue: each item delivered exactly once, in order."""
import vlib
from framework import graph_replay

PROJ = ["destroyed", "fut", "items", "waiters", "npush", "npop", "ret"]
ACTIONS = ["PushCS", "PushResolve", "PopCS", "UnblockCS", "UnblockResolve", "Destroy"]


def run(ctx):
    rp = vlib.compile_harness(vlib.VERIF + "/harness/queue_replay.cpp", "queue_replay", sanitize=not ctx.quick)
    deep = {}
    for void in (False, True):
        cfg = ("Queue_seq_void" if void else "Queue_seq") + ("" if ctx.quick else "_deep") + ".cfg"

        def hdr(k, st0, void=void):
            return {"void": void, "mode": "coro" if k % 2 else "poll"}
        graph_replay(ctx, "Queue", "Queue", cfg, "seq_void" if void else "seq", rp, PROJ, header_fn=hdr,
                     merge_re=r"(PushResolve|UnblockResolve)$", must_take=ACTIONS,
                     constants=deep or None, extra_random=200 if ctx.quick else 2000)
    # an item type whose constructor can throw: a failing push changes nothing, whichever branch it would have taken
    graph_replay(ctx, "Queue", "Queue", "Queue_seq_item.cfg", "item", rp, PROJ, header_fn=lambda k, st0: {"void": False, "item": True, "mode": "coro" if k % 2 else "poll"},
                 merge_re=r"(PushResolve|UnblockResolve)$", must_take=["PushCS", "PopCS", "PushThrow"], max_paths=1500 if ctx.quick else None)
    # long single-client histories (up to 20 pushes / 20 pops, the item store grows and shrinks repeatedly and its
    # read position moves): cheap on the specification (a few thousand states) and the only way to reach behaviour
    # that depends on the capacity of the underlying container (growth while wrapped, 4 -> 8 -> 16 -> 32)
    for void in (False, True):
        def hdr2(k, st0, void=void):
            return {"void": void, "mode": "coro" if k % 2 else "poll"}
        graph_replay(ctx, "Queue", "Queue", "Queue_seq_void_long.cfg" if void else "Queue_seq_long.cfg", "long_void" if void else "long", rp, PROJ,
                     header_fn=hdr2, merge_re=r"(PushResolve|UnblockResolve)$", must_take=["PushCS", "PopCS"],
                     max_paths=600 if ctx.quick else None, extra_random=100 if ctx.quick else 1000)
    conc_replay(ctx)


def conc_replay(ctx, tag="conc", max_paths_quick=1500):
    # all interleavings of client threads at critical-section grain, replayed on real threads: the queue's
    # std::mutex is virtual (interposed pthread layer), so the critical section and the promise resolution
    # that follows the unlock are separately scheduled
    rpc = vlib.compile_harness(vlib.VERIF + "/harness/queue_conc_replay.cpp", "queue_conc_replay",
                               extra_flags=["-rdynamic"], sanitize=False)

    def cproj(st):
        d = vlib.project(st, PROJ)
        d["pend"] = {t: ("idle" if p == "idle" else "resolve") for t, p in st["pc"].items()}
        return d
    threads = ["t1", "t2", "t3"]
    graph_replay(ctx, "Queue", "Queue", "Queue_conc.cfg" if ctx.quick else "Queue_conc_deep.cfg", tag, rpc, cproj,
                 header_fn=lambda k, st0: {"threads": threads}, must_take=ACTIONS,
                 max_paths=max_paths_quick if ctx.quick else None,
                 constants=None)
    ctx.assume("multi-thread replay at lock grain: atomic operations are not scheduling points (the promise/future protocol "
               "itself is decided by C01/C02)")
