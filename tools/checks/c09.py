"""C09 -- awaitable queue: each item delivered exactly once, in order."""
import os
import re
import threading

import vlib
from framework import graph_replay

PROJ = ["destroyed", "fut", "items", "waiters", "npush", "npop", "ret"]
ACTIONS = ["PushCS", "PushResolve", "PopCS", "UnblockCS", "UnblockResolve", "Destroy"]
FORM_ORDER = ["one", "two", "zero", "copy", "cref", "move"]      # Queue.tla FormOrder
MERGE = r"(PushResolve|UnblockResolve)$"


def flat(v):
    """Queue.tla item record -> projection: a plain int item (ctor "-": construction not recorded) is its identity"""
    if isinstance(v, dict) and v.get("ctor") == "-":
        return v["a"]
    return v


def proj(st):
    d = vlib.project(st, PROJ)
    d["items"] = [flat(x) for x in st["items"]]
    d["fut"] = [{"st": f["st"], "v": flat(f["v"])} for f in st["fut"]]
    return d


def cfg_header(cfg):
    """the constants of a cfg file that select the instantiation / argument forms the replayer has to use"""
    txt = open(os.path.join(vlib.VERIF, "spec", "Queue", cfg)).read()

    def const(name):
        m = re.search(r"^\s*%s\s*=\s*(.*?)\s*$" % name, txt, re.M)
        if not m:
            raise vlib.MachineryError("constant %s missing in %s" % (name, cfg))
        return m.group(1)
    forms = set(re.findall(r'"(\w+)"', const("Forms")))
    return {"void": const("Void") == "TRUE", "item": const("Obj") == "TRUE" and const("Void") != "TRUE",
            "si": const("SingleItem") == "TRUE", "sw": const("SingleWaiter") == "TRUE",
            "forms": [f for f in FORM_ORDER if f in forms]}


def seq_replay(ctx, rp, cfg, tag, must_take, max_paths=None, extra_random=0, locks=("mutex",)):
    base = cfg_header(cfg)

    def hdr(k, st0):
        h = dict(base)
        h["mode"] = "coro" if k % 2 else "poll"
        h["shift"] = int(st0["shift"])
        # Lock template parameter: the same histories with primitives::no_lock on every third path
        h["lock"] = locks[(k // 2) % len(locks)]
        return h
    return graph_replay(ctx, "Queue", "Queue", cfg, tag, rp, proj, header_fn=hdr, merge_re=MERGE, must_take=must_take,
                        max_paths=max_paths, extra_random=extra_random)


def compile_conc():
    return vlib.compile_harness(vlib.VERIF + "/harness/queue_conc_replay.cpp", "queue_conc_replay",
                                extra_flags=["-rdynamic"], sanitize=False)


def run(ctx):
    # the threaded replayer is built while the sequential part runs
    bg = {}

    def build():
        try:
            bg["rpc"] = compile_conc()
        except BaseException as e:   # noqa: B902 -- re-raised on the main thread
            bg["exc"] = e
    th = threading.Thread(target=build, daemon=True)
    th.start()
    rp = vlib.compile_harness(vlib.VERIF + "/harness/queue_replay.cpp", "queue_replay", sanitize=not ctx.quick)
    q = ctx.quick
    # queue<int> / queue<void>, default containers; queue<int> pushes rotate over rvalue / lvalue / const lvalue / xvalue
    for void in (False, True):
        cfg = ("Queue_seq_void" if void else "Queue_seq") + ("" if q else "_deep") + ".cfg"
        seq_replay(ctx, rp, cfg, "seq_void" if void else "seq", ACTIONS, extra_random=200 if q else 2000,
                   locks=("mutex", "mutex", "none"))
    # a class item type that records how it was constructed (and has an initializer-list constructor), pushed through
    # every argument form of push(): the item stored / delivered is T(args...) whichever branch the push took; any of its
    # constructors can throw: a failing push changes nothing, whichever branch it would have taken
    seq_replay(ctx, rp, "Queue_seq_item.cfg", "item", ["PushCS", "PopCS", "PushThrow", "PushResolve"],
               max_paths=2500 if q else None, locks=("mutex", "mutex", "none"))
    # primitives::single_item_queue as the container of the parked pops (what generator_aggregator uses), of the items,
    # of both: an element arriving at an occupied slot is refused (std::runtime_error) and nothing changes
    single = [("Queue_seq_single_w.cfg", "single_w", ["PopRefused"]),
              ("Queue_seq_single_i.cfg", "single_i", ["PushRefused"]),
              ("Queue_seq_void_single_w.cfg", "void_single_w", ["PopRefused"]),
              ("Queue_seq_item_single.cfg", "item_single", ["PopRefused", "PushRefused", "PushThrow"])]
    if not q:
        single.append(("Queue_seq_single.cfg", "single", ["PopRefused", "PushRefused"]))   # queue<int>, both slots single
    for cfg, tag, must in single:
        seq_replay(ctx, rp, cfg, tag, ["PushCS", "PopCS", "PushResolve", "UnblockResolve", "Destroy"] + must,
                   max_paths=1500 if q else None, locks=("mutex", "none"))
    # long single-client histories (up to 20 pushes / 20 pops, the item store grows and shrinks repeatedly and its
    # read position moves): cheap on the specification (a few thousand states) and the only way to reach behaviour
    # that depends on the capacity of the underlying container (growth while wrapped, 4 -> 8 -> 16 -> 32)
    for void in (False, True):
        seq_replay(ctx, rp, "Queue_seq_void_long.cfg" if void else "Queue_seq_long.cfg", "long_void" if void else "long",
                   ["PushCS", "PopCS"], max_paths=600 if q else None, extra_random=100 if q else 1000)
    th.join()
    if "exc" in bg:
        raise bg["exc"]
    conc_replay(ctx, rpc=bg["rpc"])
    ctx.assume("primitives::single_item_queue: its comment calls a second element undefined behaviour, its code refuses it "
               "with std::runtime_error (queue.h:77); the check holds the code to the refusal (the call fails, nothing changes)")
    ctx.assume("item types: int, void and one class type (records its constructor, initializer-list constructor, throwing "
               "constructors); containers: std_queue and single_item_queue; locks: std::mutex and no_lock (single thread only)")


def conc_replay(ctx, tag="conc", max_paths_quick=1500, rpc=None):
    # all interleavings of client threads at critical-section grain, replayed on real threads: the queue's
    # std::mutex is virtual (interposed pthread layer), so the critical section and the promise resolution
    # that follows the unlock are separately scheduled
    rpc = rpc or compile_conc()

    def cproj(st):
        d = proj(st)
        d["pend"] = {t: ("idle" if p == "idle" else "resolve") for t, p in st["pc"].items()}
        return d
    threads = ["t1", "t2", "t3"]
    graph_replay(ctx, "Queue", "Queue", "Queue_conc.cfg" if ctx.quick else "Queue_conc_deep.cfg", tag, rpc, cproj,
                 header_fn=lambda k, st0: {"threads": threads}, must_take=ACTIONS,
                 max_paths=max_paths_quick if ctx.quick else None,
                 constants=None)
    ctx.assume("multi-thread replay at lock grain: atomic operations are not scheduling points (the promise/future protocol "
               "itself is decided by C01/C02)")
