"""C09 -- awaitable queue: each item delivered exactly once, in order."""
import vlib
from framework import graph_replay

PROJ = ["destroyed", "fut", "items", "waiters", "npush", "npop", "ret"]
ACTIONS = ["PushCS", "PushResolve", "PopCS", "UnblockCS", "UnblockResolve", "Destroy"]


def run(ctx):
    rp = vlib.compile_harness(vlib.VERIF + "/harness/queue_replay.cpp", "queue_replay", sanitize=not ctx.quick)
    deep = {} if ctx.quick else {"MaxPush": 5, "MaxPop": 5, "MaxUnblock": 3}
    for void in (False, True):
        cfg = "Queue_seq_void.cfg" if void else "Queue_seq.cfg"

        def hdr(k, st0, void=void):
            return {"void": void, "mode": "coro" if k % 2 else "poll"}
        graph_replay(ctx, "Queue", "Queue", cfg, "seq_void" if void else "seq", rp, PROJ, header_fn=hdr,
                     merge_re=r"(PushResolve|UnblockResolve)$", must_take=ACTIONS,
                     constants=deep or None, extra_random=200 if ctx.quick else 2000)
    # all interleavings of three client threads at critical-section grain (design level)
    res = ctx.tlc("Queue", "Queue", vlib.VERIF + "/spec/Queue/Queue_conc.cfg", "conc")
    if res.violation:
        ctx.tlc_violation(res, "Queue:Queue_conc.cfg")
    ctx.assume("interleavings of several client threads are decided on the specification (critical-section grain); "
               "the implementation is bound to it by single-threaded replays of every specification edge")
