"""C14 -- generator aggregator: union of all sources, per-source order preserved.

spec/Aggregator/Aggregator.tla enumerates source scripts, consumer accesses and completion orders lazily; every
edge of the dumped state graphs is replayed on the real cocls::generator_aggregator over scripted source generators
by harness/aggregator_replay.cpp (each path in several consumer implementations / access styles).

spec/Aggregator/AggregatorConc.tla is the same component with asynchronous sources that complete CONCURRENTLY on their own
threads and the consumer on its own thread, at the grain of the critical sections of the aggregate's internal queue (one
action per critical section / per piece of code after an unlock, per-thread program counters); the C14 invariants are
Aggregator.tla's (INSTANCE), checked over all interleavings together with lock discipline, conservation, no stuck state
and termination.  Its graph is replayed on real threads under the controlled scheduler with the queue's mutex virtual
by harness/aggregator_conc_replay.cpp (conc_replay below, both tiers): every thread's pending operation and the guarded
state are compared after every step.

A source fails by an exception of a KIND (Aggregator.tla ThrowSteps: a user type, a non-std type, and the library's own
value_not_ready / no_more_values / await_canceled exceptions, which a source relaying other cocls objects fails with and
which the library also uses for its own signalling).  Every graph job gets ONE failure step, rotated over the jobs so
that each tier exercises every kind in every position / implementation; the `exc*` jobs have all kinds together (several
failed sources of different kinds).  The replayers observe the dynamic type and the identity of the exception object
the consumer gets (harness/aggregator_exc.h)."""
import os
import threading

import vlib
from framework import Ctx, graph_replay

THROWS = ["throw", "throw_vnr", "throw_nomore", "throw_cancel", "throw_nonstd"]


def tla_set(xs):
    return "{" + ", ".join('"%s"' % x for x in xs) + "}"


def alphabet(steps, rot):
    """the source alphabet of a job: the placeholder "throw" becomes the job's failure step (rot-th of THROWS), "throw*"
    all of them"""
    out = []
    for x in steps:
        if x == "throw":
            out.append(THROWS[rot % len(THROWS)])
        elif x == "throw*":
            out += THROWS
        else:
            out.append(x)
    return tla_set(out)


MERGE = r"(AggStart|AggInit|AggResume|AggLoop|AggGot|AggEnd|SrcStep|Push|Drain)$"
PLAIN = ("alive", "ast", "cscript", "obs", "queue", "waiter")
PER_SOURCE = ("sgot", "sloc", "spar", "sscr", "sseq", "sst")
ACTIONS = ["Access", "AggStart", "AggInit", "AggResume", "AggLoop", "AggGot", "AggEnd", "SrcStep", "Push", "Destroy"]


def per_source(x):
    # TLC prints a function with domain 1..N as a tuple (and the empty function as <<>>)
    if isinstance(x, list):
        return {str(i + 1): v for i, v in enumerate(x)}
    return x


def proj(st):
    d = {k: st[k] for k in PLAIN}
    for k in PER_SOURCE:
        d[k] = per_source(st[k])
    return d


# ---- thread-structured lock-grain replay (spec/Aggregator/AggregatorConc.tla, harness/aggregator_conc_replay.cpp) ----
CONC_ACTIONS = ["Access", "Wake", "PopCS", "PopAfter", "Resolve", "PushCS", "PushResolve", "PushDone",
                "Destroy", "DrainCS", "DrainAfter", "DrainWake"]
CONC_PEND = {"idle": "pre:mark",
             "push_lock": "pre:lock", "pop_lock": "pre:lock", "drain_lock": "pre:lock",
             "push_resolve": "post:unlock", "push_done": "post:unlock", "pop_after": "post:unlock", "drain_after": "post:unlock"}


def conc_proj(st):
    """projection of an AggregatorConc state: the consumer-visible history and the guarded state like the sequential
    projection, plus every thread's pending operation at lock grain"""
    d = {k: st[k] for k in ("alive", "cscript", "queue", "waiter")}
    d["ast"] = "pop" if st["ast"] == "run" else st["ast"]     # an access is outstanding: the body runs or sleeps in pop
    for k in ("sloc", "spar", "sscr", "sseq", "sst"):
        d[k] = per_source(st[k])
    tpc = st["tpc"]
    if isinstance(tpc, list):       # TLC prints a function over 1..n as a tuple; 0..NS never is, but be safe
        tpc = {str(i): v for i, v in enumerate(tpc)}
    obs = [dict(o) for o in st["obs"]]
    if tpc["0"] == "wait" and obs:
        # a blocking access has not returned yet: whatever was handed over, the consumer has not looked at it
        obs[-1] = {"k": "none", "r": "pending", "s": 0, "v": 0}
    d["obs"] = obs
    pend = {}
    for t, pc in tpc.items():
        name = "c" if t == "0" else "s" + t
        if pc == "wait":
            pend[name] = "wait:ready" if st["out"] == "none" else "wait:blocked"
        elif pc == "drain_wait":
            pend[name] = "wait:ready" if st["pf"] == "ready" else "wait:blocked"
        else:
            pend[name] = CONC_PEND[pc]
    d["pend"] = pend
    return d


def conc_replay(ctx, tag="conc", max_paths_quick=None, sources=(2, 3)):
    """Asynchronous sources completing CONCURRENTLY on their own threads, consumer on its own thread, at the grain of
    the internal queue's critical sections: TLC checks the C14 invariants (Aggregator.tla's, through INSTANCE) plus
    lock discipline / conservation / no stuck state / termination over ALL interleavings; the dumped graph is
    replayed on real threads under the controlled scheduler with the queue's mutex virtual."""
    rpc = vlib.compile_harness(vlib.VERIF + "/harness/aggregator_conc_replay.cpp", "aggregator_conc_replay",
                               extra_flags=["-rdynamic"], sanitize=not ctx.quick)
    q = ctx.quick
    styles = [("sync", "co"), ("iter", "fut"), ("sync", "fut"), ("iter", "co")]
    yr = '{"yield", "return"}'
    # the failure step of the lock-grain graphs: one kind per run in the quick tier, the user type and one of the library's
    # types in the thorough tier (the kinds do not differ in the thread structure; all of them are in the sequential graphs)
    ytr = alphabet(["yield", "throw", "return"], ctx.seed)
    ytr2 = tla_set(["yield", "throw", THROWS[1 + ctx.seed % 4], "return"])
    # (tag, constants, max_paths in quick)
    if q:
        jobs = [("conc2", {"NS": 2, "MaxSteps": 2, "MaxAcc": 3, "SrcKinds": ytr}, 2500),
                ("conc3", {"NS": 3, "MaxSteps": 2, "MaxAcc": 2, "SrcKinds": yr,
                           "Classes": '{"b"}' if ctx.seed % 2 else '{"n"}'}, 1500)]
    else:
        jobs = [("conc2", {"NS": 2, "MaxSteps": 3, "MaxAcc": 4, "MaxAfterEnd": 1, "SrcKinds": ytr2}, None),
                ("conc3", {"NS": 3, "MaxSteps": 2, "MaxAcc": 2, "SrcKinds": yr}, None)]
    for jtag, consts, cap in jobs:
        ns = consts["NS"]
        if ns not in sources:
            continue
        if q and max_paths_quick:
            cap = max_paths_quick
        jtag = jtag.replace("conc", tag)

        def hdr(k, st0, ns=ns):
            b, n = styles[k % len(styles)]
            return {"ns": ns, "bstyle": b, "nstyle": n}
        # (without blocking accesses the consumer's thread never sits in _block.wait)
        must = [a for a in CONC_ACTIONS if a != "Wake" or '"b"' in consts.get("Classes", '"b"')]
        graph_replay(ctx, "Aggregator", "AggregatorConc", "AggregatorConc.cfg", jtag, rpc, conc_proj, header_fn=hdr,
                     must_take=must, max_paths=cap, constants={k: str(v) for k, v in consts.items()},
                     tlc_kw={"workers": 4})
    if not q and 3 in sources:
        # three sources with the full alphabet and one more access: the specification alone (all invariants, termination)
        path = os.path.join(vlib.BUILD, "%s_%s3full.cfg" % (ctx.prop, tag))
        vlib.write_cfg(path, open(os.path.join(vlib.VERIF, "spec/Aggregator/AggregatorConc.cfg")).read(),
                       {"NS": "3", "MaxSteps": "2", "MaxAcc": "3", "SrcKinds": ytr})
        res = ctx.tlc("Aggregator", "AggregatorConc", path, tag + "3full", workers=8, timeout=3600)
        if res.violation:
            ctx.tlc_violation(res, "AggregatorConc:conc3full")
    ctx.assume("threaded replay at lock grain: every step of an asynchronous source completes on the source's own thread, the "
               "consumer has its own thread; scheduling points are the internal queue's lock / unlock, the blocking waits and the "
               "idle loops -- atomic operations are not scheduling points (the promise/future and awaiter protocols are C01/C02/C03)")


SEQ_MODES = ["native/sync/fc", "coro/iter/cf", "native_raw/iter/cf", "coro/sync/fc"]
THR_MODES = ["thr_late/sync/fc", "thr_early/iter/cf", "thr_early/sync/cf", "thr_late/iter/fc"]
STDK = ["yield", "apend", "throw", "return"]
ARGK = ["ynull", "yield", "apend", "throw", "return"]


class ConcJob:
    """conc_replay on a context of its own (own seeded generator: the paths chosen do not depend on how the two flows
    interleave) on a background thread, while the sequential graphs are replayed; merge() joins, re-raises and adds
    its results to the check's context"""
    def __init__(self, ctx):
        self.sub = Ctx(ctx.prop, ctx.tier, ctx.seed)
        self.exc = None

        def body():
            try:
                conc_replay(self.sub)
            except BaseException as e:   # noqa: B902 -- handed to the main thread
                self.exc = e
        self.th = threading.Thread(target=body, daemon=True)
        self.th.start()

    def merge(self, ctx):
        self.th.join()
        sub = self.sub
        ctx.states += sub.states
        ctx.transitions += sub.transitions
        ctx.traces += sub.traces
        ctx.steps += sub.steps
        ctx.models += sub.models
        ctx.violations += sub.violations
        ctx.exhaustive = ctx.exhaustive and sub.exhaustive
        for h in sub.known_hits:
            if h["key"] not in [x["key"] for x in ctx.known_hits]:
                ctx.known_hits.append(h)
        for smp in sub.samples[:1]:
            if len(ctx.samples) >= 6:
                ctx.samples.pop()
            ctx.samples.append(smp)
        for a in sub.assumptions:
            ctx.assume(a)
        if self.exc is not None:
            raise self.exc


def run(ctx):
    # development aid (mutation runs, timing): C14_PARTS=seq or C14_PARTS=conc restricts the check to the named part
    parts = set(os.environ.get("C14_PARTS", "seq,conc").split(","))
    if parts != {"seq", "conc"}:
        ctx.exhaustive = False
        ctx.assume("partial run: C14_PARTS=" + ",".join(sorted(parts)))
    conc = ConcJob(ctx) if "conc" in parts else None
    try:
        if "seq" in parts:
            run_sequential(ctx)
    finally:
        if conc:
            conc.merge(ctx)


def run_sequential(ctx):
    rp = vlib.compile_harness(vlib.VERIF + "/harness/aggregator_replay.cpp", "aggregator_replay", sanitize=not ctx.quick)
    q = ctx.quick
    # (cfg, tag, with argument, modes, must_take extras, constants quick, constants thorough); None: tier skips the job
    jobs = []
    for ns in (0, 1, 2):
        jobs.append(("Aggregator_seq.cfg", "seq%d" % ns, False, SEQ_MODES, ["ExternalResolve"] if ns else [],
                     {"NS": ns}, {"NS": ns, "MaxAcc": 6 if ns else 5}))
    jobs.append(("Aggregator_seq.cfg", "seq3", False, SEQ_MODES, ["ExternalResolve"],
                 {"NS": 3, "MaxSteps": 2, "MaxAcc": 4},
                 {"NS": 3, "MaxAcc": 4}))
    jobs.append(("Aggregator_seq.cfg", "arg2", True, ["native/sync/fc", "coro/sync/cf", "native_raw/sync/cf", "coro/sync/fc"],
                 ["ExternalResolve"],
                 {"NS": 2, "WithArg": "TRUE", "SrcKinds": ARGK, "MaxAcc": 4},
                 {"NS": 2, "WithArg": "TRUE", "SrcKinds": ARGK, "MaxAcc": 6}))
    jobs.append(("Aggregator_seq.cfg", "arg3", True, ["native/sync/cf", "coro/sync/fc"], [],
                 None,
                 {"NS": 3, "WithArg": "TRUE", "SrcKinds": ["ynull", "yield", "throw", "return"], "MaxSteps": 3, "MaxAcc": 4}))
    jobs.append(("Aggregator_thr.cfg", "thr2", False, THR_MODES, ["ExternalResolve", "Drain"],
                 {"NS": 2, "MaxAcc": 3},
                 {"NS": 2, "MaxAcc": 5}))
    jobs.append(("Aggregator_thr.cfg", "thr3", False, THR_MODES, ["ExternalResolve", "Drain"],
                 {"NS": 3, "MaxSteps": 2, "MaxAcc": 2},
                 {"NS": 3, "MaxSteps": 2, "MaxAcc": 4}))
    jobs.append(("Aggregator_thr.cfg", "thrarg2", True, ["thr_late/sync/fc", "thr_early/sync/cf"], ["ExternalResolve", "Drain"],
                 None,
                 {"NS": 2, "WithArg": "TRUE", "SrcKinds": ARGK, "MaxAcc": 4}))
    # narrow configurations for 4 and 5 sources (two-step scripts, cut off by the access bound)
    jobs.append(("Aggregator_seq.cfg", "seq4", False, SEQ_MODES[:2], ["ExternalResolve"],
                 None,
                 {"NS": 4, "MaxSteps": 2, "MaxAcc": 5, "EarlyDestroy": "FALSE"}))
    jobs.append(("Aggregator_seq.cfg", "seq5", False, SEQ_MODES[1:3], ["ExternalResolve"],
                 None,
                 {"NS": 5, "SrcKinds": ["yield", "apend", "return"], "MaxSteps": 2, "MaxAcc": 4, "Classes": '{"n"}',
                  "EarlyDestroy": "FALSE"}))
    # all kinds of failure together: several failed sources of different kinds (the aggregate reports the one it caught
    # last, whatever the kinds), failures of every kind next to sources that end normally
    jobs.append(("Aggregator_seq.cfg", "exc2", False, SEQ_MODES, [],
                 {"NS": 2, "SrcKinds": ["yield", "throw*", "return"], "MaxSteps": 2, "MaxAcc": 3, "EarlyDestroy": "FALSE"},
                 {"NS": 2, "SrcKinds": ["yield", "apend", "throw*", "return"], "MaxSteps": 3, "MaxAcc": 4, "EarlyDestroy": "FALSE"}))
    jobs.append(("Aggregator_thr.cfg", "excthr2", False, THR_MODES, ["Drain"],
                 None,
                 {"NS": 2, "SrcKinds": ["yield", "apend", "throw*", "return"], "MaxSteps": 2, "MaxAcc": 3}))
    jobs.append(("Aggregator_seq.cfg", "excarg2", True, ["native/sync/fc", "coro/sync/cf"], [],
                 None,
                 {"NS": 2, "WithArg": "TRUE", "SrcKinds": ["ynull", "yield", "throw*", "return"], "MaxSteps": 3, "MaxAcc": 4,
                  "EarlyDestroy": "FALSE"}))
    rot = ctx.seed      # the failure step of the next job that has sources
    for j, (cfg, tag, witharg, modes, extra, cq, ct) in enumerate(jobs):
        consts = cq if q else ct
        if consts is None:
            continue
        ns = consts["NS"]
        consts = dict(consts)
        consts["SrcKinds"] = alphabet(consts.get("SrcKinds", STDK), rot)
        if ns:
            rot += 1
        consts = {k: str(v) for k, v in consts.items()}
        if q:
            # two of the job's modes, rotating over the jobs so that every implementation occurs in the quick tier
            modes = [modes[j % len(modes)], modes[(j + 1) % len(modes)]]

        def hdr(k, st0, witharg=witharg, modes=modes, ns=ns):
            return {"witharg": witharg, "ns": ns, "modes": modes}
        graph_replay(ctx, "Aggregator", "Aggregator", cfg, tag, rp, proj, header_fn=hdr, merge_re=MERGE,
                     must_take=(ACTIONS + extra) if ns else ["Access", "AggStart", "AggInit", "AggEnd", "Destroy"],
                     constants=consts, replay_timeout=3000, tlc_kw={"workers": 4})
    if not q:
        # 4 and 5 sources with the full alphabet: random behaviours of the specification alone (all invariants)
        for ns in (4, 5):
            path = os.path.join(vlib.BUILD, "%s_sim%d.cfg" % (ctx.prop, ns))
            vlib.write_cfg(path, open(os.path.join(vlib.VERIF, "spec/Aggregator/Aggregator_thr.cfg")).read(),
                           {"NS": str(ns), "MaxAcc": "8", "SrcKinds": alphabet(["yield", "apend", "throw*", "return"], 0)})
            res = ctx.tlc("Aggregator", "Aggregator", path, "sim%d" % ns, workers=4, simulate="num=30000", depth=200)
            if res.violation:
                ctx.tlc_violation(res, "Aggregator:sim%d" % ns)
    ctx.assume("values are (source, sequence number) pairs encoded as 100*s+j; access i passes 100+i; operation k completes with k")
    ctx.assume("controller::_count lives in the aggregate's coroutine frame and is not observable from outside: it is bound through "
               "behaviour (end reported / access hanging / drain blocking) and the observable queue content, not by direct comparison")
    ctx.assume("library preconditions respected by the history generator: one outstanding access at a time; the aggregate is destroyed "
               "only while parked (before first activation, at a co_yield, after the end); single-threaded histories never make a "
               "blocking access or the destructor wait for an operation only the same thread could complete (those run on a second "
               "thread under the controlled scheduler in two release orders); co_yield nullptr only as a source's first step")
    ctx.assume("a source fails with a user type, a non-std type or one of the library's own exception types (odd sources produce the "
               "latter the way a relaying source does: pending future, dropped promise, generator past its end); what the consumer gets "
               "is attributed to a source by the identity of the exception object (exception_ptr equality; rethrowing does not copy in "
               "the Itanium ABI) and reported with its dynamic type; fresh objects of the library's types are the library's own signals")
    ctx.assume("when several sources throw, the aggregate keeps the exception it caught last (generator_aggregator.h:128) and "
               "reports that one at the end; the access styles themselves are C13's subject: a no_more_values_exception "
               "after the end is counted as an end indication")
