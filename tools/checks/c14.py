"""C14 -- generator aggregator: union of all sources, per-source order preserved.

spec/Aggregator/Aggregator.tla enumerates source scripts, consumer accesses and completion orders lazily; every
edge of the dumped state graphs is replayed on the real cocls::generator_aggregator over scripted source generators
by harness/aggregator_replay.cpp (each path in several consumer implementations / access styles)."""
import os

import vlib
from framework import graph_replay

MERGE = r"(AggStart|AggInit|AggResume|AggLoop|AggGot|AggEnd|SrcStep|Push|Drain)$"
PLAIN = ("alive", "ast", "cscript", "obs", "queue", "waiter")
PER_SOURCE = ("sgot", "sloc", "spar", "sscr", "sseq", "sst")
ACTIONS = ["Access", "AggStart", "AggInit", "AggResume", "AggLoop", "AggGot", "AggEnd", "SrcStep", "Push", "Destroy"]


def per_source(x):
    # TLC prints a function with domain 1..N as a tuple (and the empty function as <<>>)
    if isinstance(x, list):
        return {str(i + 1): v for i, v in enumerate(x)}
    return x


def proj(st):
    d = {k: st[k] for k in PLAIN}
    for k in PER_SOURCE:
        d[k] = per_source(st[k])
    return d


SEQ_MODES = ["native/sync/fc", "coro/iter/cf", "native_raw/iter/cf", "coro/sync/fc"]
THR_MODES = ["thr_late/sync/fc", "thr_early/iter/cf", "thr_early/sync/cf", "thr_late/iter/fc"]
ARGK = '{"ynull", "yield", "apend", "throw", "return"}'


def run(ctx):
    rp = vlib.compile_harness(vlib.VERIF + "/harness/aggregator_replay.cpp", "aggregator_replay", sanitize=not ctx.quick)
    q = ctx.quick
    # (cfg, tag, with argument, modes, must_take extras, constants quick, constants thorough); None: tier skips the job
    jobs = []
    for ns in (0, 1, 2):
        jobs.append(("Aggregator_seq.cfg", "seq%d" % ns, False, SEQ_MODES, ["ExternalResolve"] if ns else [],
                     {"NS": ns}, {"NS": ns, "MaxAcc": 6 if ns else 5}))
    jobs.append(("Aggregator_seq.cfg", "seq3", False, SEQ_MODES, ["ExternalResolve"],
                 {"NS": 3, "MaxSteps": 2, "MaxAcc": 4},
                 {"NS": 3, "MaxAcc": 4}))
    jobs.append(("Aggregator_seq.cfg", "arg2", True, ["native/sync/fc", "coro/sync/cf", "native_raw/sync/cf", "coro/sync/fc"],
                 ["ExternalResolve"],
                 {"NS": 2, "WithArg": "TRUE", "SrcKinds": ARGK, "MaxAcc": 4},
                 {"NS": 2, "WithArg": "TRUE", "SrcKinds": ARGK, "MaxAcc": 6}))
    jobs.append(("Aggregator_seq.cfg", "arg3", True, ["native/sync/cf", "coro/sync/fc"], [],
                 None,
                 {"NS": 3, "WithArg": "TRUE", "SrcKinds": '{"ynull", "yield", "throw", "return"}', "MaxSteps": 3, "MaxAcc": 4}))
    jobs.append(("Aggregator_thr.cfg", "thr2", False, THR_MODES, ["ExternalResolve", "Drain"],
                 {"NS": 2, "MaxAcc": 3},
                 {"NS": 2, "MaxAcc": 5}))
    jobs.append(("Aggregator_thr.cfg", "thr3", False, THR_MODES, ["ExternalResolve", "Drain"],
                 {"NS": 3, "MaxSteps": 2, "MaxAcc": 2},
                 {"NS": 3, "MaxSteps": 2, "MaxAcc": 4}))
    jobs.append(("Aggregator_thr.cfg", "thrarg2", True, ["thr_late/sync/fc", "thr_early/sync/cf"], ["ExternalResolve", "Drain"],
                 None,
                 {"NS": 2, "WithArg": "TRUE", "SrcKinds": ARGK, "MaxAcc": 4}))
    # narrow configurations for 4 and 5 sources (two-step scripts, cut off by the access bound)
    jobs.append(("Aggregator_seq.cfg", "seq4", False, SEQ_MODES[:2], ["ExternalResolve"],
                 None,
                 {"NS": 4, "MaxSteps": 2, "MaxAcc": 5, "EarlyDestroy": "FALSE"}))
    jobs.append(("Aggregator_seq.cfg", "seq5", False, SEQ_MODES[1:3], ["ExternalResolve"],
                 None,
                 {"NS": 5, "SrcKinds": '{"yield", "apend", "return"}', "MaxSteps": 2, "MaxAcc": 4, "Classes": '{"n"}',
                  "EarlyDestroy": "FALSE"}))
    for j, (cfg, tag, witharg, modes, extra, cq, ct) in enumerate(jobs):
        consts = cq if q else ct
        if consts is None:
            continue
        ns = consts["NS"]
        consts = {k: str(v) for k, v in consts.items()}
        if q:
            # two of the job's modes, rotating over the jobs so that every implementation occurs in the quick tier
            modes = [modes[j % len(modes)], modes[(j + 1) % len(modes)]]

        def hdr(k, st0, witharg=witharg, modes=modes, ns=ns):
            return {"witharg": witharg, "ns": ns, "modes": modes}
        graph_replay(ctx, "Aggregator", "Aggregator", cfg, tag, rp, proj, header_fn=hdr, merge_re=MERGE,
                     must_take=(ACTIONS + extra) if ns else ["Access", "AggStart", "AggInit", "AggEnd", "Destroy"],
                     constants=consts, replay_timeout=3000, tlc_kw={"workers": 4})
    if not q:
        # 4 and 5 sources with the full alphabet: random behaviours of the specification alone (all invariants)
        for ns in (4, 5):
            path = os.path.join(vlib.BUILD, "%s_sim%d.cfg" % (ctx.prop, ns))
            vlib.write_cfg(path, open(os.path.join(vlib.VERIF, "spec/Aggregator/Aggregator_thr.cfg")).read(),
                           {"NS": str(ns), "MaxAcc": "8"})
            res = ctx.tlc("Aggregator", "Aggregator", path, "sim%d" % ns, workers=4, simulate="num=30000", depth=200)
            if res.violation:
                ctx.tlc_violation(res, "Aggregator:sim%d" % ns)
    ctx.assume("values are (source, sequence number) pairs encoded as 100*s+j; access i passes 100+i; operation k completes with k")
    ctx.assume("controller::_count lives in the aggregate's coroutine frame and is not observable from outside: it is bound through "
               "behaviour (end reported / access hanging / drain blocking) and the observable queue content, not by direct comparison")
    ctx.assume("library preconditions respected by the history generator: one outstanding access at a time; the aggregate is destroyed "
               "only while parked (before first activation, at a co_yield, after the end); single-threaded histories never make a "
               "blocking access or the destructor wait for an operation only the same thread could complete (those run on a second "
               "thread under the controlled scheduler in two release orders); co_yield nullptr only as a source's first step")
    ctx.assume("when several sources throw, the aggregate keeps the exception it caught last (generator_aggregator.h:128) and "
               "reports that one at the end; the access styles themselves are C13's subject: a no_more_values_exception "
               "after the end is counted as an end indication")
