// C03: awaiter::resume_chain_set_ready resolves with exchange(&ready, memory_order_acquire): the winner's
// future::set (plain stores of value + state) is never *released*, so a thread that learns readiness
// through ready() (load acquire) or through the refused-subscription fence has no happens-before edge to
// the payload.  Build with -fsanitize=thread: TSan reports future::set vs future::value (exit code 66).
#include <cocls/future.h>
#include <thread>
#include <cstdio>
int main() {
    for (int i = 0; i < 200; i++) {
        cocls::future<int> f;
        auto p = f.get_promise();
        std::thread a([&] { p(42); });
        while (!f.ready()) {}
        int v = f.value();
        a.join();
        if (v != 42) return 1;
    }
    return 0;
}
