// own handle LAST in an awaited suspend point: the awaiting coroutine is resumed twice
#include <cocls/future.h>
#include <cocls/async.h>
#include <cocls/self.h>
#include <cocls/suspend_point.h>
#include <cstdio>
static int after_await = 0, parked_resumed = 0;
struct park { // suspends for ever unless somebody (wrongly) resumes the handle
    bool await_ready() const noexcept { return false; }
    void await_suspend(std::coroutine_handle<>) const noexcept {}
    void await_resume() const noexcept { parked_resumed++; }
};
cocls::async<void> coro() {
    cocls::suspend_point<void> sp = co_await cocls::self();   // [me]
    co_await sp;
    after_await++;
    co_await park{};                          // nobody holds this handle: must never continue
}
int main() {
    coro().detach();
    printf("after_await=%d parked_resumed=%d\n", after_await, parked_resumed);
    return (after_await == 1 && parked_resumed == 0) ? 0 : 1;
}
