// C16: remainder of the copy-of-a-parked-subscriber defect (publisher.h:188-195 at 5fcdbbb).  A parked
// subscriber's registration already points to the value it is waiting for (advance_suspend_lk
// pre-increments _pos); subscribe_lk(Handle, sub) compensates for that only while the awaiter is still
// registered (`o._awt ? o._pos-1 : o._pos`).  push_lk takes the awaiter out (`x._awt = nullptr`) in its
// critical section and resumes the waiters afterwards, one by one, outside the lock: from that moment
// until the woken subscriber has fetched its value nothing tells a copy that the original's position is
// one ahead of the value it holds.  Purely sequential: two subscribers A and B are parked; publish(1)
// collects both and resumes A first; A's resumption handler (a resumed coroutine, a callback) copies B,
// which has been collected but has not been resumed yet.  B then receives 1; its copy starts AFTER 1
// and never sees it -- "a copy of a subscriber continues independently from the original's position".
// The same window exists for a copy made by another thread between the publisher's critical section and
// the original's get_value.  Returns 1 when the copy misses value 1, 0 when it receives it.
#include <cocls/publisher.h>
#include <cstdio>
#include <memory>
using Sub = cocls::subscriber<int>;
static Sub *b_ptr = nullptr;
static std::unique_ptr<Sub> copy_of_b;
static cocls::suspend_point<void> a_resumed(cocls::awaiter *, void *) noexcept {
    copy_of_b = std::make_unique<Sub>(*b_ptr);     // B: awaiter already taken out by push_lk, not resumed yet
    return {};
}
static cocls::suspend_point<void> b_resumed(cocls::awaiter *, void *) noexcept { return {}; }
int main() {
    cocls::publisher<int> pub;
    Sub a(pub), b(pub);                            // registrations 0 and 1: A is resumed first
    b_ptr = &b;
    auto awt_a = a.next();
    auto awt_b = b.next();
    if (awt_a.await_ready() || !awt_a.await_suspend(&a_resumed, nullptr)) return 100;   // A parked
    if (awt_b.await_ready() || !awt_b.await_suspend(&b_resumed, nullptr)) return 100;   // B parked
    pub.publish(1);                                // resumes A (which copies B), then B
    bool ra = awt_a.await_resume();
    bool rb = awt_b.await_resume();
    int va = ra ? a.value() : -1, vb = rb ? b.value() : -1;
    bool rc = copy_of_b->next_ready();             // the copy continues from B's position: expected 1
    int vc = rc ? copy_of_b->value() : -1;
    pub.publish(2);
    bool rc2 = copy_of_b->next_ready();
    int vc2 = rc2 ? copy_of_b->value() : -1;
    printf("A got %d, B got %d; copy of B: first %d(%d) then %d(%d) -- expected 1 then 2\n", va, vb, vc, rc, vc2, rc2);
    int bad = !(rc && vc == 1 && rc2 && vc2 == 2);
    copy_of_b.reset();
    return bad;
}
