// C16: a parked subscriber's registration already points to the value it is waiting for
// (advance_suspend_lk pre-increments _pos, publisher.h:224); subscribe_lk(Handle, sub)
// (publisher.h:188-191) copies that position as if it were the position of the value the original
// holds, so a copy taken while the original's coroutine is suspended in `co_await next()` skips
// one value that the original still receives.  Returns non-zero when the copy misses value 2.
#include <cocls/publisher.h>
#include <cstdio>
static cocls::suspend_point<void> wake(cocls::awaiter *, void *) noexcept { return {}; }
int main() {
    cocls::publisher<int> pub;
    cocls::subscriber<int> orig(pub);
    pub.publish(1);
    orig.next_ready();                             // original holds 1
    auto awt = orig.next();
    if (awt.await_ready() || !awt.await_suspend(&wake, nullptr)) return 100;   // parked, waiting for 2
    cocls::subscriber<int> copy(orig);             // should continue after 1
    pub.publish(2);
    pub.publish(3);
    bool a = awt.await_resume();
    bool b = copy.next_ready();
    printf("original: %d value=%d | copy: %d value=%d (expected 2)\n", a, a ? orig.value() : -1, b, b ? copy.value() : -1);
    return !(b && copy.value() == 2);
}
