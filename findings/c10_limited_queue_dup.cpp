// C10: limited_queue::push emplaces the item AND (when size >= limit) stores a second copy in
// _blocked: limit not enforced, items duplicated.  limit=2: push 1,2,3 -> size()==3, pops 1,2,3,2,3.
#include <cocls/queue.h>
#include <cstdio>
int main() {
    cocls::limited_queue<int> q(2);
    auto f1 = q.push(1); auto f2 = q.push(2); auto f3 = q.push(3);
    printf("size=%zu ready=%d%d%d\n", q.size(), (int) f1.ready(), (int) f2.ready(), (int) f3.ready());
    int bad = q.size() > 2;
    std::vector<int> got;
    for (int i = 0; i < 3; i++) { auto p = q.pop(); got.push_back(p.wait()); }
    while (!q.empty()) { auto p = q.pop(); got.push_back(p.wait()); }
    for (int v : got) printf("%d ", v);
    printf("\n");
    bad |= got.size() != 3;
    bad |= !f2.ready();   // second push must complete immediately (1 item waiting < limit 2)
    return bad;
}
