// C16: get_value_lk (publisher.h:242-249) returns, in the skipping modes, a value that is not the
// one the registration's _pos points to, and leaves _pos behind; the next advance_lk then lands on
// the value that was already delivered.  Purely sequential: a parked skip_to_recent subscriber is
// woken by a batch of two -> it receives 3, and 3 again.  Same for skip_if_behind when the batch is
// larger than max_queue_len.  Returns non-zero when a value is delivered twice.
#include <cocls/publisher.h>
#include <cstdio>
#include <vector>
static cocls::suspend_point<void> wake(cocls::awaiter *, void *) noexcept { return {}; }
static int run(cocls::subscribtion_type t, std::size_t maxlen, std::vector<int> batch) {
    cocls::publisher<int> pub(maxlen, 1);
    cocls::subscriber<int> sub(pub, t);
    pub.publish(1);
    sub.next_ready();                              // 1
    auto awt = sub.next();
    if (awt.await_ready() || !awt.await_suspend(&wake, nullptr)) return 100;   // parked
    pub.publish(batch.begin(), batch.end());       // wakes the subscriber
    bool a = awt.await_resume();
    int v1 = a ? sub.value() : -1;
    bool b = sub.next_ready();
    int v2 = b ? sub.value() : -1;
    printf("mode=%d: %d(%d) then %d(%d) position=%zu\n", (int) t, v1, a, v2, b, sub.position());
    return a && b && v1 == v2;
}
int main() {
    int r1 = run(cocls::subscribtion_type::skip_to_recent, 10, {2, 3});
    int r2 = run(cocls::subscribtion_type::skip_if_behind, 2, {2, 3, 4});
    return r1 | (r2 << 1);
}
