// C16: subscriber::next_awt::operator bool (publisher.h:442-448) calls co_awaiter::wait() when the
// value is not ready at once; wait() ends in co_awaiter::await_resume() == _owner.value(), not in
// next_awt::await_resume() == check_next().  Whenever the blocking form (`while (sub.next())`,
// `for (auto &x: sub)`) really has to wait -- or the subscriber was kicked -- the result is
// bool(previous value): the old value is seen again, the new one is lost, a kicked subscriber
// never sees end of stream.  Returns non-zero when observed.
#include <cocls/publisher.h>
#include <cstdio>
#include <thread>
int main() {
    int bad = 0;
    {   // (a) single threaded: kicked subscriber
        cocls::publisher<int> pub;
        cocls::subscriber<int> sub(pub);
        pub.publish(7);
        bool a = sub.next();
        pub.kick(&sub);
        bool b = sub.next();                       // expected false (kicked)
        printf("kicked: first=%d second=%d\n", a, b);
        bad |= b;
    }
    {   // (b) the call really blocks; the publisher thread publishes 2 and 3
        cocls::publisher<int> pub;
        cocls::subscriber<int> sub(pub);
        pub.publish(1);
        bool a = sub.next();
        std::thread t([&] {
            std::this_thread::sleep_for(std::chrono::milliseconds(100));
            pub.publish(2);
        });
        bool b = sub.next();                       // blocks until 2 is published
        int v = b ? sub.value() : -1;              // expected 2
        t.join();
        pub.publish(3);
        bool c = sub.next();
        printf("blocked: %d,%d,%d values 1,%d,%d\n", a, b, c, v, c ? sub.value() : -1);
        bad |= (v != 2) << 1;
    }
    return bad;
}
