// C18: the two future_conv forms whose source is future<void> (`To (Context::*)()` and
// `suspend_point<void> (Context::*)(promise<To>&)`) never look at the source future: when the awaited
// future<void> resolves with an exception (or a broken promise) the converter is still called and the
// outer future receives the converted VALUE -- the source's error is silently lost.
#include <cocls/future.h>
#include <cocls/future_conv.h>
#include <cstdio>
struct E : std::exception {};
struct C {
    int calls = 0;
    int conv_fn() { calls++; return 7; }
    cocls::future_conv<&C::conv_fn> conv{this};
};
int main() {
    C c;
    cocls::promise<void> sp;
    cocls::future<int> outer = c.conv << [&] { return cocls::future<void>([&](cocls::promise<void> p) { sp = std::move(p); }); };
    sp(std::make_exception_ptr(E()));
    try {
        int v = outer.wait();
        printf("outer got VALUE %d although the source failed (converter calls=%d)\n", v, c.calls);
        return 1;
    } catch (const E &) {
        printf("outer got the source's exception (converter calls=%d)\n", c.calls);
        return c.calls == 0 ? 0 : 2;
    }
}
