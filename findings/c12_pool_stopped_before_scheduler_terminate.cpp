// candidate defect D: pool stopped before the scheduler is destroyed -> ~scheduler rethrows await_canceled_exception -> std::terminate
#include <cocls/scheduler.h>
#include <cocls/thread_pool.h>
#include <cstdio>
#include <thread>
using namespace std::chrono_literals;
int main() {
    std::set_terminate([]{ puts("std::terminate called (from ~scheduler)"); fflush(stdout); _exit(42); });
    cocls::thread_pool pool(1);
    auto *sch = new cocls::scheduler(pool);
    cocls::future<void> f = sch->sleep_until(std::chrono::system_clock::now() + 200ms);
    std::this_thread::sleep_for(50ms);           // the worker coroutine now waits in wait_until(+200ms) on the pool thread
    puts("pool.stop() ..."); fflush(stdout);
    auto t0 = std::chrono::steady_clock::now();
    pool.stop();                                  // returns only when the deadline has passed (join of the waiting pool thread)
    printf("pool.stop() returned after %ld ms; sleep future ready=%d\n", (long) std::chrono::duration_cast<std::chrono::milliseconds>(std::chrono::steady_clock::now() - t0).count(), (int) f.ready());
    fflush(stdout);
    delete sch;                                   // _fut holds await_canceled_exception: wait() rethrows inside the noexcept destructor
    printf("scheduler destroyed; sleep future ready=%d\n", (int) f.ready());
    return 0;
}
