// C19 -- reusable_storage_mtsafe hands its block to two simultaneously live frames.
//
// reusable_storage::alloc (coro_storage.h:49-53) grows with
//         ::operator delete(_ptr);  _ptr = ::operator new(sz);
// so between the two calls _ptr holds the address of a released block.  reusable_storage_mtsafe::dealloc
// (coro_storage.h:166-174) decides "is this the shared block?" by `ptr == me->_ptr`.  If, in that window,
// another thread's heap-fallback frame is given the just released address (any allocator may do that)
// and finishes, its dealloc takes the fallback block for the shared block: it clears _busy (while the
// first thread is still inside alloc and will go on to use the shared block) and never frees the
// fallback block.  The next coroutine created on the storage gets the block the first one lives in.
//
// This program makes the interleaving deterministic: operator delete of thread A pauses after releasing
// the old block until thread B has created and finished a coroutine; the allocator keeps the last freed
// block and hands it out again for the next request of the same size.
// TLC counterexample of spec/Storage/Storage.tla (Storage_mt2alloc.cfg, Fixed = FALSE), same history:
//   A: create small, finish | A: create medium (exchange, delete old ...) | B: create small (busy -> new:
//   gets the released address), finish (ptr == _ptr -> _busy=false, block leaked) | A: ... new, frame lives
//   | anybody: create small -> not busy, fits -> same block as A's live frame.
//
// build: g++ -std=c++20 -O1 -I/repo/src -I/repo/src/cocls findings/c19_mtsafe_stale_ptr.cpp -lpthread
// prints "DEFECT ..." and exits 1 on the defective tree, "ok" and 0 when _ptr never dangles.
#include <cocls/future.h>
#include <cocls/async.h>
#include <cocls/coro_storage.h>
#include <cocls/with_allocator.h>

#include <atomic>
#include <coroutine>
#include <cstdio>
#include <cstdlib>
#include <new>
#include <thread>

// ---- allocator: remembers the last freed block and reuses it for an equally sized request -------------
static std::atomic<void *> cached{nullptr};
static std::atomic<std::size_t> cached_size{0};
static std::atomic<int> stage{0};            // 1: A is inside delete(old) ; 2: B is done
static thread_local bool is_A = false;
static std::atomic<bool> arm{false};
static std::atomic<long> live_blocks{0};

void *operator new(std::size_t sz) {
    void *c = cached.load();
    if (c && cached_size.load() == sz && cached.compare_exchange_strong(c, nullptr)) { live_blocks++; return c; }
    std::size_t *p = static_cast<std::size_t *>(malloc(sz + 16));
    if (!p) throw std::bad_alloc();
    p[0] = sz;
    live_blocks++;
    return p + 2;
}
void operator delete(void *ptr) noexcept {
    if (!ptr) return;
    live_blocks--;
    std::size_t sz = static_cast<std::size_t *>(ptr)[-2];
    void *old = cached.exchange(ptr);
    cached_size.store(sz);
    if (old) free(static_cast<std::size_t *>(old) - 2);
    if (is_A && arm.exchange(false)) {       // A has released the old shared block: let B run now
        stage.store(1);
        while (stage.load() != 2) std::this_thread::yield();
    }
}
void operator delete(void *p, std::size_t) noexcept { operator delete(p); }

// ---- coroutines that stay alive until told to finish ---------------------------------------------------
struct Gate {
    std::coroutine_handle<> *out;
    bool await_ready() const noexcept { return false; }
    void await_suspend(std::coroutine_handle<> h) noexcept { *out = h; }
    void await_resume() const noexcept {}
};
using storage_t = cocls::reusable_storage_mtsafe;
template <std::size_t N>
static cocls::with_allocator<storage_t, cocls::async<void>> coro(storage_t &, std::coroutine_handle<> *h, void **where) {
    volatile char buf[N];
    buf[0] = 1;
    *where = const_cast<char *>(&buf[0]);
    co_await Gate{h};
    buf[N - 1] = buf[0];
}
template <std::size_t N>
static void create(storage_t &st, std::coroutine_handle<> *h, void **where) {
    auto c = coro<N>(st, h, where);
    auto sp = c.detach();
    sp.pop().resume();          // runs up to the gate
}

int main() {
    storage_t st;
    std::coroutine_handle<> h1, h2, h3, h4;
    void *w1, *w2, *w3, *w4;
    is_A = true;
    create<16>(st, &h1, &w1);    // A: small frame in the shared block ...
    h1.resume();                 // ... finished: _busy = false, capacity = small
    std::thread B([&] {
        while (stage.load() != 1) std::this_thread::yield();
        create<16>(st, &h3, &w3);    // B: storage busy -> heap fallback; the allocator returns the address _ptr still holds
        h3.resume();                 // B: finished: `ptr == me->_ptr` -> _busy = false, block not freed
        stage.store(2);
    });
    arm.store(true);
    create<256>(st, &h2, &w2);   // A: medium frame: grows (delete old | pause | new), frame stays alive
    B.join();
    create<16>(st, &h4, &w4);    // next coroutine: storage "not busy", fits -> the block A's frame lives in
    bool overlap = static_cast<char *>(w4) >= static_cast<char *>(w2) - 256 && static_cast<char *>(w4) < static_cast<char *>(w2) + 256 + 256;
    if (overlap) {
        printf("DEFECT: two live coroutine frames share the storage's block (local arrays at %p and %p); heap blocks live: %ld\n", w2, w4, live_blocks.load());
        fflush(stdout);
        _exit(1);                // finishing the two coroutines would corrupt the heap
    }
    h4.resume();
    h2.resume();
    printf("ok\n");
    return 0;
}
