// C11: thread_pool::run(async<T>) enqueues a closure that holds only the bare coroutine handle
// (resume(fn.start(promise))).  When the pool is already stopped (or stop() swaps the closure out of
// the queue) the closure dies without a cancel path: the future stays pending forever and the
// coroutine frame leaks.  Expected: the returned future reports a broken promise.
#include <cocls/thread_pool.h>
#include <cstdio>
static cocls::async<int> coro() { co_return 1; }
int main() {
    cocls::thread_pool pool(1);
    pool.stop();
    cocls::future<int> f = pool.run(coro());
    if (!f.ready()) { printf("future pending forever (submission forgotten)\n"); _exit(1); }
    try { (void) f.value(); printf("unexpected value\n"); return 2; }
    catch (const cocls::await_canceled_exception &) { printf("cancelled (broken promise)\n"); return 0; }
}
