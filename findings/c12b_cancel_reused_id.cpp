// C12: remove()'s find_if matches an already emptied (cancelled) entry with the same id, so a later
// sleep with a reused id cannot be cancelled: A(10,a), S1(50,x); cancel(x); S2(60,x); cancel(x) -> false.
#include <cocls/scheduler.h>
#include <cstdio>
int main() {
    cocls::scheduler s;
    int a, x;
    auto t0 = std::chrono::system_clock::time_point();
    auto fa = s.sleep_until(t0 + std::chrono::seconds(10), &a);
    auto f1 = s.sleep_until(t0 + std::chrono::seconds(50), &x);
    bool c1 = s.cancel(&x);
    auto f2 = s.sleep_until(t0 + std::chrono::seconds(60), &x);
    bool c2 = s.cancel(&x);
    printf("c1=%d c2=%d f2.ready=%d\n", (int) c1, (int) c2, (int) f2.ready());
    int rc = (c1 && c2 && f2.ready()) ? 0 : 1;
    s.cancel(&a); s.cancel(&x);
    while (!fa.ready() || !f2.ready()) { auto e = s.get_expired(std::chrono::system_clock::time_point::max()); if (std::holds_alternative<cocls::promise<void>>(e)) std::get<cocls::promise<void>>(e)(); else break; }
    return rc;
}
