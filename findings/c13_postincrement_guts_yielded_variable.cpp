// post-increment of the generator iterator moved the current item out of the body's own variable
#include <cocls/generator.h>
#include <string>
#include <vector>
#include <cstdio>
cocls::generator<std::string> paths() {
    std::string path;
    for (const char *part : {"/usr", "/local", "/share"}) { path += part; co_yield path; }
}
int main() {
    auto gen = paths();
    std::vector<std::string> got;
    auto it = gen.begin();
    while (it != gen.end()) { auto z = it++; got.push_back(z._v); }
    for (auto &s : got) printf("%s\n", s.c_str());
    return got == std::vector<std::string>{"/usr", "/usr/local", "/usr/local/share"} ? 0 : 1;
}
