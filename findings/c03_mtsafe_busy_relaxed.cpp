// C03/C19: reusable_storage_mtsafe::_busy is exchanged and stored with memory_order_relaxed, so the block
// released by one thread is reused by another without happens-before: the frames race.
// Build with -fsanitize=thread (exit code 66 when TSan reports).
#include <cocls/future.h>
#include <cocls/async.h>
#include <cocls/coro_storage.h>
#include <cocls/with_allocator.h>
#include <thread>
static cocls::with_allocator<cocls::reusable_storage_mtsafe, cocls::async<int> > coro(cocls::reusable_storage_mtsafe &, int v) {
    int buf[16]; for (int i = 0; i < 16; i++) buf[i] = v + i;
    int s = 0; for (int i = 0; i < 16; i++) s += buf[i];
    co_return s;
}
int main() {
    cocls::reusable_storage_mtsafe st;
    { (void) coro(st, 0).join(); }  // warm up: block allocated
    std::thread a([&] { for (int i = 0; i < 20000; i++) (void) coro(st, i).join(); });
    std::thread b([&] { for (int i = 0; i < 20000; i++) (void) coro(st, i).join(); });
    a.join(); b.join();
    return 0;
}
