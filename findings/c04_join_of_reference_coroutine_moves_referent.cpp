// async<T&>::join() moved the result out of the referenced object (which the coroutine does not own)
#include <cocls/future.h>
#include <cocls/async.h>
#include <string>
#include <cstdio>
static std::string g = "a string long enough to live on the heap, not in the small buffer";
cocls::async<std::string &> rc() { co_return g; }
int main() {
    std::size_t before = g.size();
    decltype(auto) v = rc().join();
    printf("joined size=%zu, referent size before=%zu after=%zu\n", std::string(v).size(), before, g.size());
    return g.size() == before ? 0 : 1;
}
