// C12: scheduler::remove indexes _scheduled[0] after pop_item() emptied the vector.
// A(10,a), B(20,b); cancel(b); get_expired(15) -> A; cancel(b) again -> out-of-bounds (SIGSEGV / assertion).
#include <cocls/scheduler.h>
#include <cstdio>
int main() {
    cocls::scheduler s;
    int a, b;
    auto t0 = std::chrono::system_clock::time_point();
    auto fa = s.sleep_until(t0 + std::chrono::seconds(10), &a);
    auto fb = s.sleep_until(t0 + std::chrono::seconds(20), &b);
    bool c1 = s.cancel(&b);
    auto e = s.get_expired(t0 + std::chrono::seconds(15));
    if (std::holds_alternative<cocls::promise<void>>(e)) std::get<cocls::promise<void>>(e)();
    bool c2 = s.cancel(&b);
    printf("c1=%d c2=%d\n", (int) c1, (int) c2);
    return (c1 && !c2) ? 0 : 1;
}
