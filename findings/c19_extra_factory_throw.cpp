// C19 -- promise_extra_storage::alloc does not give the memory back when the user's factory throws.
//
// coro_storage.h:228-233
//         void *ptr = Alloc::alloc(sz+sizeof(T));
//         void *inv = static_cast<std::uint8_t *>(ptr)+sz;
//         inventory = new(inv) T(_factory());          // <- user code, may throw
//         return ptr;
// When _factory() throws, the exception leaves alloc (and the coroutine's creation) while the memory obtained
// from the base policy stays where it is:
//   * promise_extra_storage<T, default_storage>: the heap block is never released;
//   * promise_extra_storage<T, reusable_storage_mtsafe>: _busy stays set for ever -- every later frame is a heap
//     fallback ("after warm-up the reusing policies allocate no further heap memory" no longer holds); when the
//     storage was busy at the time, the fallback block is never released;
//   * a stack_storage base that had to fall back to the heap loses that block as well.
// Minimal history (Storage.tla, ThrowFixed = FALSE): CreateThrow(t1,1)  -- one creation whose factory throws.
// Minimal repair: catch, `Alloc::dealloc(ptr, sz+sizeof(T));` (the BASE's dealloc, with the size its alloc got --
// not promise_extra_storage::dealloc, which would destroy an object that was never constructed), rethrow.
//
// build: g++ -std=c++20 -O1 -I/repo/src -I/repo/src/cocls findings/c19_extra_factory_throw.cpp -lpthread
// prints "DEFECT ..." and exits 1 on the defective tree, "ok" and 0 on a repaired one.
#include <cocls/future.h>
#include <cocls/async.h>
#include <cocls/coro_storage.h>
#include <cocls/with_allocator.h>

#include <cstdio>
#include <cstdlib>
#include <new>
#include <stdexcept>

static long live_blocks = 0, news = 0;
void *operator new(std::size_t sz) { void *p = malloc(sz ? sz : 1); if (!p) throw std::bad_alloc(); live_blocks++; news++; return p; }
void operator delete(void *p) noexcept { if (p) { live_blocks--; free(p); } }
void operator delete(void *p, std::size_t) noexcept { operator delete(p); }

struct Extra { int v; };
static bool fail = false;
static Extra make() { if (fail) throw std::runtime_error("factory"); return Extra{1}; }

template <typename St>
static cocls::with_allocator<St, cocls::async<int>> coro(St &, int v) { co_return v; }

template <typename St>
static int round_trip(St &st, int v) { return coro(st, v).join(); }

int main() {
    int bad = 0;
    {
        using St = cocls::promise_extra_storage<Extra, cocls::default_storage>;
        St st(&make);
        long before = live_blocks;
        fail = true;
        try { round_trip(st, 1); printf("exception lost\n"); bad++; } catch (const std::runtime_error &) {}
        fail = false;
        if (live_blocks != before) { printf("DEFECT: default_storage base: %ld heap block(s) never released after the factory threw\n", live_blocks - before); bad++; }
    }
    {
        using St = cocls::promise_extra_storage<Extra, cocls::reusable_storage_mtsafe>;
        St st(&make);
        round_trip(st, 1);                     // warm-up: the shared block exists now
        fail = true;
        try { round_trip(st, 2); printf("exception lost\n"); bad++; } catch (const std::runtime_error &) {}
        fail = false;
        long n0 = news;
        round_trip(st, 3);                     // an equally sized frame on a warm, idle storage
        if (news != n0) { printf("DEFECT: reusable_storage_mtsafe base: still busy after the factory threw, %ld heap allocation(s) for a frame on the warm storage\n", news - n0); bad++; }
    }
    if (!bad) printf("ok\n");
    return bad ? 1 : 0;
}
