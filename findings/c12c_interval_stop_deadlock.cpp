// C12: interval()'s stop callback locks _mx and then calls cancel() -> remove() locks _mx again:
// self-deadlock when the stop token fires while the interval sleep is pending (run under `timeout`).
#include <cocls/scheduler.h>
#include <cstdio>
int main() {
    cocls::scheduler s;
    std::stop_source src;
    auto gen = s.interval(std::chrono::seconds(1000), src.get_token());
    auto f = gen();                 // starts the generator: it parks in sleep_until
    src.request_stop();             // stop callback -> hangs here on the unfixed tree
    printf("stop returned\n");
    return 0;
}
