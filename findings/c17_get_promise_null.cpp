// C17: shared_future::init_if_needed has its condition inverted (`if (_ptr) _ptr = make_shared`), so
// get_promise() on a default-constructed shared_future dereferences a null pointer.
#include <cocls/shared_future.h>
#include <cstdio>
int main() {
    cocls::shared_future<int> f;
    auto p = f.get_promise();
    p(42);
    int v = f.wait();
    printf("v=%d\n", v);
    return v == 42 ? 0 : 1;
}
