// a push whose item constructor throws while a pop is waiting lost the waiting pop for ever
#include <cocls/queue.h>
#include <cocls/future.h>
#include <cstdio>
#include <stdexcept>
struct Item {
    int v;
    Item(int x) : v(x) { if (x < 0) throw std::runtime_error("bad item"); }
};
template<typename Q> int scenario(const char *name, Q &q) {
    cocls::future<Item> f = q.pop();          // parked: the queue is empty
    bool threw = false;
    try { (void) q.push(-1); } catch (const std::runtime_error &) { threw = true; }
    (void) q.push(7);                          // must be handed over to the waiting pop
    bool ok = threw && f.ready();
    int got = -100;
    if (f.ready()) { try { got = f.value().v; } catch (...) { got = -200; } }
    printf("%s: threw=%d ready=%d got=%d\n", name, threw, (int) f.ready(), got);
    if (!f.ready()) { puts("the waiting pop is orphaned (still pending)"); fflush(stdout); _Exit(1); }   // destroying a pending future is UB
    return ok && got == 7 ? 0 : 1;
}
int main() {
    int rc = 0;
    { cocls::queue<Item> q; rc |= scenario("queue", q); if (rc) { puts("FAIL"); _Exit(1); } }
    { cocls::limited_queue<Item> q(2); rc |= scenario("limited_queue", q); if (rc) { puts("FAIL"); _Exit(1); } }
    puts("ok");
    return rc;
}
