// C16: next_ready() cannot report end of stream (documented), but get_value_lk does not make the
// "left behind" state of an all_values subscriber permanent (publisher.h:239): after a false
// next_ready() the following calls simply continue further up the stream -- an all_values
// subscriber observes a gap and never an end-of-stream.  In the skipping modes a polled end of a
// closed stream leaves _pos past the end (publisher.h:234 tests `== _pos` only) and the next
// next() hands out an old value again -- or, with nothing published, indexes the empty deque (crash).
// Returns non-zero (or dies) when observed.
#include <cocls/publisher.h>
#include <cstdio>
int main() {
    int bad = 0;
    {
        cocls::publisher<int> pub(2, 1);           // keeps at most 2 values
        cocls::subscriber<int> sub(pub);           // all_values
        for (int i = 1; i <= 4; i++) pub.publish(i);   // window {4,3}: the subscriber lost 1 and 2
        bool a = sub.next_ready();                 // false: value 1 is gone (this is its end of stream)
        bool b = sub.next_ready();                 // false: value 2 is gone
        bool c = sub.next();                       // expected false (dropped); delivers 3
        printf("all_values: %d %d %d value=%d\n", a, b, c, c ? sub.value() : -1);
        bad |= c;
    }
    {
        cocls::publisher<int> pub;
        cocls::subscriber<int> sub(pub, cocls::subscribtion_type::skip_to_recent);
        pub.publish(1);
        pub.publish(2);
        bool a = sub.next_ready();                 // 2
        pub.close();
        bool b = sub.next_ready();                 // false (end of stream, not reportable)
        bool c = sub.next();                       // expected false; delivers 2 again
        printf("skip_to_recent: %d %d %d value=%d\n", a, b, c, c ? sub.value() : -1);
        bad |= c << 1;
    }
    fflush(stdout);
    {   // nothing published, closed: the second poll reads _q[size()-1] of an empty deque (SIGSEGV)
        cocls::publisher<int> pub;
        pub.close();
        cocls::subscriber<int> sub(pub, cocls::subscribtion_type::skip_if_behind);
        bool a = sub.next_ready();                 // false
        bool b = sub.next_ready();                 // expected false; crashes / garbage
        printf("skip_if_behind on an empty closed stream: %d %d\n", a, b);
        bad |= b << 2;
    }
    return bad;
}
