// C16: advance_suspend_lk (publisher.h:223) returns early on _closed without advancing.  When close()
// lands between the subscriber's ready() (false: caught up) and its subscribe(), await_resume() ->
// check_next() -> get_value_lk reads the position of the *previous* value: the subscriber receives
// value 1 twice before end of stream.  (In the skipping modes with nothing published yet the same
// window reads _q[0] of an empty deque.)  The three calls below are what `co_await sub.next()` does
// on the subscriber's thread while another thread closes the publisher.
// Returns non-zero when the duplicate is observed.
#include <cocls/publisher.h>
#include <cstdio>
static cocls::suspend_point<void> wake(cocls::awaiter *, void *) noexcept { return {}; }
int main() {
    cocls::publisher<int> pub;
    cocls::subscriber<int> sub(pub);
    pub.publish(1);
    bool first = sub.next();                       // value 1
    int v1 = sub.value();
    auto awt = sub.next();
    bool ready = awt.await_ready();                // false: caught up, not closed
    pub.close();                                   // other thread
    bool parked = awt.await_suspend(&wake, nullptr);   // false: closed
    bool got = awt.await_resume();                 // expected: false (closed and drained)
    int v2 = got ? sub.value() : -1;
    printf("first=%d value=%d | ready=%d parked=%d got=%d value=%d\n", first, v1, ready, parked, got, v2);
    return got && v2 == v1;                        // duplicate delivered
}
