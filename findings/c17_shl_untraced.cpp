// C17: shared_future::operator<< (re)initialises the state from a function returning future<T> but never
// charges the resolve tracer, so nothing keeps the state alive while it is pending: dropping the last
// handle frees it and the later resolution writes into freed memory.  Build with -fsanitize=address
// (heap-use-after-free in future::set) -- without ASan the demo detects the early destruction of the state.
#include <cocls/shared_future.h>
#include <cstdio>
int main() {
    cocls::promise<int> p;
    std::weak_ptr<void> alive;
    {
        cocls::shared_future<int> f;
        f.get_promise()(1);                 // an initialised (resolved) shared_future
        f << [&] { return cocls::future<int>([&](auto pr) { p = std::move(pr); }); };
        struct Probe : cocls::shared_future<int> { auto &ptr() { return _ptr; } };
        alive = static_cast<Probe &>(f).ptr();
    }                                       // every handle dropped while still pending
    bool kept = !alive.expired();
    printf("state %s while pending\n", kept ? "kept alive" : "FREED");
    if (kept) p(42); else p.claim();        // do not write into freed memory in the demo
    return kept ? 0 : 1;
}
