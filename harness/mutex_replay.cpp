// mutex_replay.cpp -- replays schedules of spec/Mutex/Mutex.tla on the real cocls::mutex with real
// threads under the controlled scheduler at the finest grain (yield before AND after every
// instrumented atomic operation, so the plain code between two atomic operations is its own step).
//
// header: {"P":{"p1":"co"|"bl"|"try",...}, "rel":{"p1":"discard"|"await"|"dtor",...}}
// step label: Action(thread)   (threads are named after the party they start with)
// projection: {"acts":{p:n},"chain":[...],"done":{p:bool},"incs":[...],"pend":{t:..},"queue":[...],"req":..,"tryres":{p:..}}
#define REPLAY_COUNT_ALLOCS
#include <cocls/mutex.h>
#include <cocls/future.h>
#include <cocls/async.h>
#include <cocls_verif/vsched.h>
#include "replay_common.h"

#include <set>

using namespace rp;
using cocls_verif::vsched;
using cocls_verif::op_t;

// Build levels (a representation change of the mutex must degrade the projection, not break the check; the driver compares
// only the part of the expected projection that the build can observe - tools/checks/mutexlib.py OBS_LEVEL):
//   default            everything
//   -DMUTEX_NO_QUEUE   without the owner-private FIFO member (mutex::_queue): no "queue"
//   -DMUTEX_NO_PRIVATE without any private data member: no "req" / "chain" / "queue"; an atomic operation is attributed to the
//                      request stack when the object it touches lies inside the mutex object
#if defined(MUTEX_NO_PRIVATE) && !defined(MUTEX_NO_QUEUE)
#define MUTEX_NO_QUEUE
#endif
struct MProbe : cocls::mutex {
#ifndef MUTEX_NO_PRIVATE
    static auto req_mp() { return &MProbe::_requests; }
#endif
#ifndef MUTEX_NO_QUEUE
    static auto queue_mp() { return &MProbe::_queue; }
#endif
    static cocls::awaiter *door() { return doorman(); }
};

struct World {
    cocls::mutex mx;
    std::map<std::string, std::string> kind, rel;
    std::map<std::string, int> tid;
    std::map<std::string, int> acts;
    std::map<std::string, bool> done;
    std::map<std::string, std::string> tryres;
    std::set<std::string> incs;
    // multi-round mode (spec/Mutex/MutexRounds.tla): header fields "rounds", "foreign", "await", "reuse"
    bool multi = false, reuse = false, nowarm = false;
    std::map<std::string, int> rounds, bodies;
    std::set<std::string> foreign;
    std::map<std::string, cocls::mutex::ownership> slot;   // ownership objects handed to helper threads
    std::map<std::string, bool> slotfull;
    std::map<std::string, std::string> publishing;          // thread -> party whose lock() it currently executes
    std::map<std::uint64_t, std::string> node_of;
    std::atomic<long> frames{0};   // operator new calls made while creating coroutine frames
    std::atomic<long> allocs{0};   // every other operator new call made by party threads (library's own)
    vsched sched;
};

// is `obj` the mutex's request stack?
static bool is_req_obj(World &w, const void *obj) {
#ifndef MUTEX_NO_PRIVATE
    return obj == &(w.mx.*MProbe::req_mp());
#else
    const char *b = reinterpret_cast<const char *>(&w.mx), *o = reinterpret_cast<const char *>(obj);
    return o >= b && o < b + sizeof(w.mx);
#endif
}

static void body(World &w, const std::string &p) {
    alloc_pause np;   // harness bookkeeping below
    w.acts[p]++;
    w.incs.insert(p);
    vsched::mark("cs");
    w.incs.erase(p);
    w.done[p] = true;
    w.bodies[p]++;
}

static thread_local std::string *tl_thread = nullptr;   // name of the running harness thread

// the party announces itself before every lock(): coroutines migrate between threads, and the node a thread is
// about to publish belongs to the party whose code it executes
static void announce(World &w, const std::string &p) {
    alloc_pause np;
    if (tl_thread) w.publishing[*tl_thread] = p;
}

// one party's release in multi-round mode: hand the object to the helper thread, or release it here
static void hand_to_helper(World &w, const std::string &p, cocls::mutex::ownership &own) {
    w.slot[p] = std::move(own);
    alloc_pause np;
    w.slotfull[p] = true;
}

// multi-round coroutine party: ONE ownership object is reused (move-assigned) in every round; with `reuse` also one
// awaiter object is co_awaited again in every round
static cocls::async<void> co_party_rounds(World &w, std::string p, std::string rel, int rounds, bool foreign, bool reuse) {
    cocls::mutex::ownership own;
    auto lk = w.mx.lock();
    for (int r = 0; r < rounds; r++) {
        announce(w, p);
        if (reuse) own = co_await lk; else own = co_await w.mx.lock();
        body(w, p);
        if (foreign) hand_to_helper(w, p, own);
        else if (rel == "discard") own.release();
        else if (rel == "await") co_await own.release();
        else if (rel == "assign") own = cocls::mutex::ownership();  // released by move-assigning over the holding object
        else { cocls::mutex::ownership last(std::move(own)); }     // "dtor": released by the destructor of `last`
    }
}

static cocls::async<void> co_party(World &w, std::string p, std::string rel) {
    cocls::mutex::ownership own = co_await w.mx.lock();
    body(w, p);
    if (rel == "discard") own.release();
    else if (rel == "await") co_await own.release();
    else if (rel == "assign") own = cocls::mutex::ownership();   // released by move-assigning over the holding object
    // "dtor": released by the destructor of `own`
}

static std::string pend_of(World &w, const std::string &name) {
    int t = w.tid[name];
    if (w.sched.done(t)) return "done";
    const auto &e = w.sched.pending(t);
    // classification by operation kind, operands and by WHICH atomic object is touched (robust against
    // renamed or restructured functions): the mutex's request stack vs. a sync_awaiter flag
    const std::uint64_t door = (std::uint64_t) reinterpret_cast<std::uintptr_t>(MProbe::door());
    std::string site = std::string("?") + cocls_verif::op_name(e.op) + "@" + e.func;
    switch (e.op) {
        case op_t::mark: site = e.tag; break;
        case op_t::cas:
            if (is_req_obj(w, e.obj)) {
                if (e.arg == door) site = "try";            // null -> doorman
                else if (e.arg == 0) site = "ucas";         // doorman -> null
                else site = "sub";                          // prev -> awaiter node
            }
            break;
        case op_t::xchg:
            if (is_req_obj(w, e.obj) && e.arg == door) site = "bq";
            break;
        case op_t::store: case op_t::assign:
            if (!is_req_obj(w, e.obj)) site = "fstore";
            break;
        case op_t::notify: site = "notify"; break;
        case op_t::wait: site = "wait"; break;
        default: break;
    }
    return std::string(w.sched.pending_after(t) ? "post:" : "pre:") + site;
}

static std::string name_of(World &w, cocls::awaiter *n) {
    if (n == nullptr) return "null";
    if (n == MProbe::door()) return "door";
    auto it = w.node_of.find((std::uint64_t) reinterpret_cast<std::uintptr_t>(n));
    return it == w.node_of.end() ? "unknown" : it->second;
}


static void learn_nodes(World &w) {
    for (auto &kv : w.tid) {
        int t = kv.second;
        if (w.sched.parked(t) && !w.sched.pending_after(t) && w.sched.pending(t).op == op_t::cas) {
            const auto &e = w.sched.pending(t);
            const std::uint64_t door = (std::uint64_t) reinterpret_cast<std::uintptr_t>(MProbe::door());
            if (is_req_obj(w, e.obj) && e.arg != door && e.arg != 0) {
                // one-round mode: the thread only ever publishes its own party's node; multi-round mode: the party is
                // announced by the party code itself right before it calls lock() (w.publishing)
                w.node_of[e.arg] = w.multi ? w.publishing[kv.first] : kv.first;
            }
        }
    }
}

static J project(World &w) {
    learn_nodes(w);
    J m = J::map();
#ifndef MUTEX_NO_PRIVATE
    cocls::awaiter *top = (w.mx.*MProbe::req_mp()).verif_peek();
    m.set("req", name_of(w, top));
    J chain = J::list();
    {
        int fuel = 12;
        for (cocls::awaiter *n = top; n && fuel--; n = n->_next) {
            std::string nm = name_of(w, n);
            chain.push(nm);
            if (nm == "door" || nm == "unknown") break;
        }
    }
    m.set("chain", chain);
#endif
#ifndef MUTEX_NO_QUEUE
    J queue = J::list();
    {
        // the owner-private queue: an intrusive list through _next as the code keeps it today; a container of
        // awaiter pointers is projected element by element (representation changes must not break the check)
        auto walk = [&](auto &q) {      // generic lambda: only the matching branch is instantiated
            using Q = std::remove_reference_t<decltype(q)>;
            if constexpr (std::is_pointer_v<Q>) {
                int fuel = 12;
                for (cocls::awaiter *n = q; n && fuel--; n = n->_next) {
                    std::string nm = name_of(w, n);
                    queue.push(nm);
                    if (nm == "unknown") break;
                }
            } else {
                for (auto it = q.begin(); it != q.end(); ++it) queue.push(name_of(w, *it));
            }
        };
        walk(w.mx.*MProbe::queue_mp());
    }
    m.set("queue", queue);
#endif
    J acts = J::map(), done = J::map(), tryres = J::map(), pend = J::map();
    for (auto &kv : w.kind) {
        acts.set(kv.first, w.acts[kv.first]);
        if (w.multi) done.set(kv.first, w.bodies[kv.first]); else done.set(kv.first, w.done[kv.first]);
        tryres.set(kv.first, w.tryres[kv.first]);
    }
    for (auto &kv : w.tid) pend.set(kv.first, pend_of(w, kv.first));
    if (w.multi) {
        J slot = J::map();
        for (auto &p : w.foreign) slot.set(p, w.slotfull[p] ? "full" : "empty");
        m.set("slot", slot);
    }
    m.set("acts", acts);
    m.set("done", done);
    m.set("tryres", tryres);
    m.set("pend", pend);
    m.set("frames", (long) w.frames.load());
    m.set("allocs", (long) w.allocs.load());
    J incs = J::list();
    for (auto &p : w.incs) incs.push(p);
    m.set("incs", incs);
    return m;
}


// A pure atomic LOAD that the specification does not expect at this point cannot by itself change the protocol state:
// it is executed silently (at most twice per thread and step; the code after it is then its own silent step at this
// grain) so that a behaviour-preserving extra load does not raise an alarm.
static void absorb_extra_loads(World &w, const std::string &expected) {
    JV exp = JReader(expected).parse();
    const JV &pend = exp.at("pend");
    for (auto &kv : pend.m) {
        auto it = w.tid.find(kv.first);
        if (it == w.tid.end()) continue;
        for (int i = 0; i < 2; i++) {
            int t = it->second;
            if (!w.sched.parked(t) || w.sched.pending_after(t)) break;
            const auto &e = w.sched.pending(t);
            if (e.op != op_t::load && e.op != op_t::conv) break;
            if (pend_of(w, kv.first) == kv.second.as_str()) break;
            w.sched.step(t);                                   // the load itself
            if (w.sched.parked(t) && w.sched.pending_after(t)) w.sched.step(t);   // the local code that follows it
        }
    }
}

struct Explore {
    FILE *out;
    std::uint64_t rng;
    std::uint64_t next() { rng ^= rng << 13; rng ^= rng >> 7; rng ^= rng << 17; return rng; }
};

static void run_one(const Scenario &sc, Reporter &rep, Explore *ex) {
    World *pw = new World();   // leaked on deadlock (stuck threads reference it)
    World &w = *pw;
    for (auto &kv : sc.hdr.at("P").m) {
        w.kind[kv.first] = kv.second.s;
        w.acts[kv.first] = 0;
        w.done[kv.first] = false;
        w.tryres[kv.first] = "none";
        w.rel[kv.first] = sc.hdr.at("rel").at(kv.first).as_str("dtor");
    }
    w.sched.yield_after = true;
    // exploration: the specification has no pure loads, so loads are not scheduling points there (a behaviour-preserving
    // extra load must not change the recorded step structure)
    if (ex) w.sched.no_yield = [](const cocls_verif::event &e) { return e.op == op_t::load || e.op == op_t::conv; };
#ifndef MUTEX_NO_PRIVATE
    if (w.sched.record_motable) cocls_verif::motable::get().label(&(w.mx.*MProbe::req_mp()), sizeof(void *), "mutex.requests");
#endif
    w.multi = sc.hdr.has("rounds");
    w.nowarm = sc.hdr.at("nowarm").as_bool(false);
    if (w.multi) {
        w.reuse = sc.hdr.at("reuse").as_bool(false);
        for (auto &kv : sc.hdr.at("rounds").m) w.rounds[kv.first] = (int) kv.second.as_int(1);
        for (auto &x : sc.hdr.at("foreign").l) { w.foreign.insert(x.as_str()); w.slot[x.as_str()]; w.slotfull[x.as_str()] = false; }
        for (auto &kv : w.kind) { w.bodies[kv.first] = 0; w.publishing[kv.first] = kv.first; }
        for (auto &f : w.foreign) w.publishing["h" + f] = "h" + f;
    }
    w.sched.install();
    for (auto &kv : w.kind) {
        std::string p = kv.first, kind = kv.second, rel = w.rel[p];
        int rounds = w.multi ? w.rounds[p] : 1;
        bool foreign = w.foreign.count(p) != 0, multi = w.multi, reuse = w.reuse;
        w.tid[p] = w.sched.spawn([pw, p, kind, rel, rounds, foreign, multi, reuse] {
            World &w = *pw;
            std::string myname = p;
            tl_thread = &myname;
            // the thread-local ready queue is constructed on first use (libstdc++'s deque allocates in its constructor): that
            // one-time cost is kept out of the accounting, EXCEPT in mixes without any coroutine party ("nowarm"), where
            // nothing may ever touch the ready queue and the count must be 0 on a fresh thread
            if (!w.nowarm) (void) cocls::coro_queue::queue_impl::instance._queue.size();
            long n0 = alloc_stats::news;
            if (kind == "co") {
                auto c = multi ? co_party_rounds(w, p, rel, rounds, foreign, reuse) : co_party(w, p, rel);      // the coroutine frame: the user's allocation
                w.frames += alloc_stats::news - n0;
                n0 = alloc_stats::news;
                c.detach();
            } else if (kind == "bl" && !multi) {
                cocls::mutex::ownership own(w.mx.lock());
                body(w, p);
                if (rel == "discard") own.release();
                else if (rel == "assign") own = cocls::mutex::ownership();
            } else if (kind == "try" && !multi) {
                cocls::mutex::ownership own = w.mx.try_lock();
                if (own) {
                    w.tryres[p] = "true";
                    body(w, p);
                    if (rel == "discard") own.release();
                    else if (rel == "assign") own = cocls::mutex::ownership();
                } else {
                    w.tryres[p] = "false";
                    w.done[p] = true;
                }
            } else if (kind == "bl") {
                cocls::mutex::ownership own;
                auto lk = w.mx.lock();
                for (int r = 0; r < rounds; r++) {
                    announce(w, p);
                    if (reuse) own = lk.wait(); else own = cocls::mutex::ownership(w.mx.lock());
                    body(w, p);
                    if (foreign) hand_to_helper(w, p, own);
                    else if (rel == "discard") own.release();
                    else if (rel == "assign") own = cocls::mutex::ownership();
                    else { cocls::mutex::ownership last(std::move(own)); }
                }
            } else if (kind == "try") {
                cocls::mutex::ownership own;
                for (int r = 0; r < rounds; r++) {
                    own = w.mx.try_lock();
                    if (own) {
                        { alloc_pause np; w.tryres[p] = "true"; }
                        body(w, p);
                        if (rel == "discard") own.release();
                        else if (rel == "assign") own = cocls::mutex::ownership();
                        else { cocls::mutex::ownership last(std::move(own)); }
                    } else {
                        alloc_pause np;
                        w.tryres[p] = "false";
                    }
                }
            }
            w.allocs += alloc_stats::news - n0;
        });
    }
    // helper threads: release the ownership objects handed over by the parties in "foreign", on their own thread
    for (auto &f : w.foreign) {
        std::string p = f, rel = w.rel[p];
        int rounds = w.rounds[p];
        w.tid["h" + p] = w.sched.spawn([pw, p, rel, rounds] {
            World &w = *pw;
            std::string myname = "h" + p;
            tl_thread = &myname;
            (void) cocls::coro_queue::queue_impl::instance._queue.size();
            long n0 = alloc_stats::news;
            for (int r = 0; r < rounds; r++) {
                vsched::mark("hrel");
                cocls::mutex::ownership o(std::move(w.slot[p]));
                { alloc_pause np; w.slotfull[p] = false; }
                if (rel == "discard") o.release();
                else if (rel == "assign") o = cocls::mutex::ownership();
                // otherwise released by the destructor of `o`
            }
            w.allocs += alloc_stats::news - n0;
        });
    }
    bool bad = false;
    learn_nodes(w);
    if (ex) {
        // code -> spec: a random schedule; every step is logged with the projection after it (MutexRoundsTrace.tla)
        for (;;) {
            std::vector<std::string> en;
            for (auto &kv : w.tid) {
                int t = kv.second;
                if (!w.sched.enabled(t)) continue;
                // a helper parked at its marker can only go on once the ownership object has been handed to it
                if (!w.sched.pending_after(t) && w.sched.pending(t).op == op_t::mark && std::string(w.sched.pending(t).tag) == "hrel"
                    && !w.slotfull[kv.first.substr(1)]) continue;
                en.push_back(kv.first);
            }
            if (en.empty()) break;
            const std::string &n = en[ex->next() % en.size()];
            w.sched.step(w.tid[n]);
            learn_nodes(w);
            fprintf(ex->out, "{\"a\":\"Step\",\"t\":\"%s\",\"p\":%s}\n", n.c_str(), project(w).dump().c_str());
        }
        if (!w.sched.all_done()) fprintf(ex->out, "{\"a\":\"Deadlock\",\"t\":\"none\",\"p\":%s}\n", project(w).dump().c_str());
        fprintf(ex->out, "{\"a\":\"Reset\",\"t\":\"none\",\"p\":{}}\n");
    }
    for (std::size_t k = 0; !ex && k < sc.steps.size() && !bad; k++) {
        const Step &st = sc.steps[k];
        auto it = w.tid.find(st.sarg(0));
        if (it == w.tid.end()) { rep.error(k, "unknown thread"); bad = true; break; }
        int t = it->second;
        if (!w.sched.enabled(t)) {
            rep.diverge(k, "thread not enabled in the implementation (" + std::string(w.sched.done(t) ? "finished" : "blocked") + ") got=" + project(w).dump());
            bad = true;
            break;
        }
        // the acting thread may be parked at an unexpected pure load (no action of the specification starts with one)
        for (int i = 0; i < 2 && w.sched.parked(t) && !w.sched.pending_after(t) && (w.sched.pending(t).op == op_t::load || w.sched.pending(t).op == op_t::conv); i++) {
            w.sched.step(t);
            if (w.sched.parked(t) && w.sched.pending_after(t)) w.sched.step(t);
        }
        learn_nodes(w);
        if (!w.sched.enabled(t)) { rep.diverge(k, "thread not enabled after an absorbed load got=" + project(w).dump()); bad = true; break; }
        w.sched.step(t);
        absorb_extra_loads(w, st.expected);
        if (!rep.check(k, project(w))) bad = true;
    }
    bool drained = w.sched.drain();
    if (!drained && !bad) rep.diverge(sc.steps.size() - 1, "deadlock: threads blocked at the end of the schedule got=" + project(w).dump());
    if (drained && !bad && !ex) {
        for (auto &kv : w.kind) {
            if (w.multi) {
                if (kv.second != "try" && (w.acts[kv.first] != w.rounds[kv.first] || w.bodies[kv.first] != w.rounds[kv.first])) {
                    rep.diverge(sc.steps.size() - 1, "party " + kv.first + " not activated exactly once per round"); break;
                }
                continue;
            }
            if (!w.done[kv.first]) { rep.diverge(sc.steps.size() - 1, "party " + kv.first + " never finished its round"); break; }
            if (kv.second != "try" && w.acts[kv.first] != 1) { rep.diverge(sc.steps.size() - 1, "party " + kv.first + " not activated exactly once"); break; }
        }
    }
    w.sched.uninstall();
    if (!drained) {
        fflush(stdout);
        _exit(1);
    }
    w.sched.join_all();
    delete pw;
}

static void run(const Scenario &sc, Reporter &rep) {
    if (!sc.hdr.has("explore")) { run_one(sc, rep, nullptr); return; }
    const JV &e = sc.hdr.at("explore");
    FILE *f = fopen(e.at("out").as_str().c_str(), "w");
    if (!f) { rep.error(0, "cannot open trace output"); return; }
    Explore ex{f, (std::uint64_t) e.at("seed").as_int(1) * 2654435761ULL + 88172645463325252ULL};
    for (long i = 0; i < e.at("runs").as_int(1); i++) run_one(sc, rep, &ex);
    fclose(f);
}

int main() {
    return replay_main(std::cin, run);
}
