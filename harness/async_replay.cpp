// async_replay.cpp -- replays behaviours of spec/Async/Async.tla on the real cocls::async<T>
// (src/cocls/async.h, future.h, with_allocator.h).
//
// Every coroutine of a scenario is the same scripted body (an interpreter of the program's step list,
// see the specification for the step alphabet) instantiated three ways:
//   cocls::async<T>                                        frame through global operator new
//   cocls::with_allocator<CountStore, cocls::async<T>>     frame through a counting storage policy
//   cocls::future<T>                                       "coroutine function returning future<T>"
// with a RAII guard ARGUMENT (its copy inside the frame counts ac/ad and logs the frame destruction) and
// a RAII guard LOCAL (lc/ld).  Native driver steps (Setup, Create, RootStart, DropObj, Resolve, Finish)
// are executed one by one; the internal actions of the specification were merged into them.
//
// Result types: int, void and Tracked ("trk"): an owning object (heap buffer, 48 bytes) that counts the copies it went
// through and marks moved-from sources; every party looks at the object it receives BY REFERENCE (or, for join(),
// at the returned prvalue) and reports its copy count and moved-from flag; "pay" is the global account of
// tracked objects (alive, copies made anywhere, destructions of something that is not alive).
//
// header: {"alloc":"new"|"count", "other":bool, "obs":"alloc"?}   other: promises are resolved on a fresh thread;
//   obs=alloc adds "la": operator new calls made inside the driver steps that are neither a coroutine frame nor
//   the construction of a payload from its id by a body / by native code (= allocations of the library itself,
//   including copies of a payload it makes)
// label : Setup(i) | Create | RootStart | DropObj | Resolve(k,"val"|"exc"|"canceled") | Finish
// projection after every step:
//   {"P":program text, "blocked":bool, "chk":"ok"|<failed replayer-side check>,
//    "c":[per coroutine {"bind":"gone"|"null"|"root"|"loc"|"other","cnt":{ac,ad,end,lc,ld,run},
//                        "fut":{st,v},"obj":"none"|"holds"|"empty","seen":{st,v}}],
//    "pay":{live,copies,dbl}; seen and cb additionally carry cp (copies of the received object) and mf (moved-from),
//    "cb":{sub,n,alive,cp,mf} callback awaiter subscribed by native code on its future,
//    "ev":[[c,tag]...], "ext":[state...], "live":frames alive (allocation balance), "ret":{st,v}}
// Scenarios with header {"race":true,"form":..,"T":..} replay spec/Async/AsyncJoin.tla: a blocking delivery (join(),
// start()+wait()/join()/sync()) racing with the completion of the coroutine on another thread, both threads managed
// by vsched and yielding exactly at the atomic operations on the bound future's slot and on the sync_awaiter's flag;
// labels JCheck JCas JWait FXchg FStore FNotify; projection {"j","f": pending operation of either thread, "slot",
// "got":{st,v,cp,mf} what the party returned with, "end","ad": body ends / frame destructions}.
// join() is executed on a thread managed by the controlled scheduler (cocls_verif/vsched.h): when the
// body suspends, that thread blocks in sync_awaiter and the scenario continues on the controller thread
// ("completion on another thread").
#define REPLAY_COUNT_ALLOCS
#include <cocls/async.h>
#include <cocls/future.h>
#include <cocls/with_allocator.h>
#include <cocls_verif/vsched.h>
#include "replay_common.h"

#include <optional>
#include <thread>

using namespace rp;
using cocls_verif::vsched;

struct TestExc : std::exception {
    int code;
    explicit TestExc(int c) : code(c) {}
};

static constexpr int MAXC = 8;    // coroutines per program
static constexpr int MAXK = 4;    // external futures per program
static constexpr int MAXEV = 128;

enum Kind { K_AW, K_CO, K_DA, K_DD, K_ST, K_FC, K_RF, K_PA, K_PD, K_RET, K_THR, K_VF, K_BAD };
struct StepDef { Kind k; int a; };
struct Program {
    std::string text, T, root;
    int K = 0;
    std::vector<std::vector<StepDef>> body;   // index 1..N
    int N() const { return (int) body.size() - 1; }
};

static Kind kind_of(const std::string &s) {
    static const char *names[] = {"aw", "co", "da", "dd", "st", "fc", "rf", "pa", "pd", "ret", "thr", "vf"};
    for (int i = 0; i < 12; i++) if (s == names[i]) return (Kind) i;
    return K_BAD;
}

// "int|start|1|co2,ret0;aw1,ret0"
static bool parse_program(const std::string &t, Program &p) {
    p = Program();
    p.text = t;
    std::vector<std::string> f;
    std::string cur;
    for (char ch : t) { if (ch == '|') { f.push_back(cur); cur.clear(); } else cur += ch; }
    f.push_back(cur);
    if (f.size() != 4) return false;
    p.T = f[0]; p.root = f[1]; p.K = atoi(f[2].c_str());
    p.body.emplace_back();
    std::vector<StepDef> b;
    std::string tok;
    auto flush_tok = [&]() -> bool {
        if (tok.empty()) return true;
        std::size_t i = 0;
        while (i < tok.size() && isalpha((unsigned char) tok[i])) i++;
        StepDef s{kind_of(tok.substr(0, i)), atoi(tok.c_str() + i)};
        tok.clear();
        if (s.k == K_BAD) return false;
        b.push_back(s);
        return true;
    };
    for (char ch : f[3]) {
        if (ch == ',') { if (!flush_tok()) return false; }
        else if (ch == ';') { if (!flush_tok()) return false; p.body.push_back(b); b.clear(); }
        else tok += ch;
    }
    if (!flush_tok()) return false;
    p.body.push_back(b);
    return p.N() >= 1 && p.N() <= MAXC && p.K <= MAXK;
}

// ---- observation state shared by all instantiations (one scenario at a time) ---------------------
enum { S_NONE, S_PENDING, S_VAL, S_EXC, S_CANCELED, S_TRUE, S_FALSE, S_OTHER };
static const char *st_name(int s) {
    static const char *n[] = {"none", "pending", "val", "exc", "canceled", "true", "false", "other"};
    return n[s];
}
struct Res { int st = S_NONE; int v = 0; int cp = 0; bool mf = false; };

// ---- tracked payload ---------------------------------------------------------------------------------
struct Tracked {
    static constexpr unsigned ALIVE = 0x600dcafe, DEAD = 0xdeadbeef;
    static inline int live = 0, copies_total = 0, dbl = 0, id_ctors = 0, bufs = 0;
    static void reset() { live = 0; copies_total = 0; dbl = 0; id_ctors = 0; bufs = 0; }
    static char *get() { bufs++; return new char[24]; }
    static void put(char *b) { if (b) { bufs--; delete[] b; } }
    int id;
    int copies = 0;          // copy constructions / assignments in the history of this object
    bool moved_from = false;
    long pad[3] = {1, 2, 3};
    char *buf;               // owned: a copy allocates, a move steals
    unsigned magic = ALIVE;
    Tracked() : Tracked(-7) {}   // (only so that library code that value-initialises a result still compiles)
    explicit Tracked(int id_) : id(id_), buf(get()) { live++; id_ctors++; memset(buf, 'x', 24); }
    Tracked(const Tracked &o) : id(o.id), copies(o.copies + 1), moved_from(o.moved_from), buf(o.buf ? get() : nullptr) {
        if (buf) memcpy(buf, o.buf, 24);
        live++; copies_total++;
    }
    Tracked(Tracked &&o) noexcept : id(o.id), copies(o.copies), moved_from(o.moved_from), buf(o.buf) {
        o.buf = nullptr; o.moved_from = true; live++;
    }
    Tracked &operator=(const Tracked &o) {
        if (this != &o) {
            put(buf);
            id = o.id; copies = o.copies + 1; moved_from = o.moved_from;
            buf = o.buf ? get() : nullptr;
            if (buf) memcpy(buf, o.buf, 24);
            copies_total++;
        }
        return *this;
    }
    Tracked &operator=(Tracked &&o) noexcept {
        if (this != &o) {
            put(buf);
            id = o.id; copies = o.copies; moved_from = o.moved_from; buf = o.buf;
            o.buf = nullptr; o.moved_from = true;
        }
        return *this;
    }
    ~Tracked() {
        if (magic != ALIVE) { dbl++; return; }
        magic = DEAD;
        live--;
        put(buf);
        buf = nullptr;
    }
};
static_assert(sizeof(Tracked) > sizeof(void *) && !std::is_trivially_copyable_v<Tracked>);

// payload traits: how a result is made from its id and what a party reads off the object it received
template <typename T> struct PT {
    static T make(int id) { return T(id); }
    static Res val(const T &x) { return Res{S_VAL, (int) x, 0, false}; }
};
template <> struct PT<Tracked> {
    static Tracked make(int id) { return Tracked(id); }
    static Res val(const Tracked &x) { return Res{S_VAL, x.id, x.copies, x.moved_from}; }
};
// the external futures carry no payload of interest
// reference results ("ref"): the coroutine is async<Tracked &> and returns a reference to an object the world owns
template <> struct PT<Tracked &> : PT<Tracked> {};
template <typename T> using ExtT = std::conditional_t<std::is_same_v<std::remove_reference_t<T>, Tracked>, int, T>;

struct CoStat {
    int run = 0, end = 0, lc = 0, ld = 0, ac = 0, ad = 0;
    int sa = 0, sd = 0;           // counting storage: allocations / deallocations of this coroutine's frame
    bool via_store = false;
    void *haddr = nullptr;        // frame address (coroutine handle)
    Res seen;
    int acc = 0;
};
struct Stats {
    CoStat co[MAXC + 1];
    int ev_c[MAXEV];
    char ev_t[MAXEV];
    int nev = 0;
    int store_double = 0;         // deallocation of a block that is not live
    void log(int c, char t) { if (nev < MAXEV) { ev_c[nev] = c; ev_t[nev] = t; nev++; } }
};
static Stats *g_stats = nullptr;

// ---- counting storage policy for with_allocator ---------------------------------------------------
// Blocks are kept until the end of the scenario (a second destruction of a frame then touches memory
// that is still mapped and shows up in the counters instead of crashing the replayer).
struct CountStore {
    int c = 0;
    struct Block { void *p; int c; bool live; };
    static inline Block blocks[64];
    static inline int nblocks = 0;
    void *alloc(std::size_t sz) {
        void *p = malloc(sz);
        if (nblocks < 64) blocks[nblocks++] = Block{p, c, true};
        g_stats->co[c].sa++;
        return p;
    }
    static void dealloc(void *p, std::size_t) {
        for (int i = 0; i < nblocks; i++) if (blocks[i].p == p) {
            g_stats->co[blocks[i].c].sd++;
            if (!blocks[i].live) g_stats->store_double++;
            blocks[i].live = false;
            return;
        }
        g_stats->store_double++;
    }
    static void release_all() {
        for (int i = 0; i < nblocks; i++) free(blocks[i].p);
        nblocks = 0;
    }
};

static long alloc_news() { return alloc_stats::g_news.load(); }
static long alloc_balance() { return alloc_stats::g_news.load() - alloc_stats::g_deletes.load(); }
static void warm_thread() { (void) cocls::coro_queue::queue_impl::instance._queue.size(); }

// ---- probes -----------------------------------------------------------------------------------------
template <typename T>
struct AProbe : cocls::async<T> {
    AProbe(cocls::async<T> &&a) : cocls::async<T>(std::move(a)) {}
    bool holds() const { return this->_h != nullptr; }
    void *addr() const { return this->_h.address(); }
};
template <typename T>
struct FProbe : cocls::future<T> {
    static auto state_mp() { return &FProbe::_state; }
    static auto slot_mp() { return &FProbe::_awaiter; }
    static auto exc_mp() { return &FProbe::_exception; }
};

template <typename T>
struct PProbe : cocls::promise<T> {
    static auto owner_mp() { return &PProbe::_owner; }
};

template <typename T>
static Res fut_state(cocls::future<T> &f) {
    Res r;
    if (!f.ready()) { r.st = S_PENDING; return r; }
    using S = cocls::future_common::State;
    auto st = f.*FProbe<T>::state_mp();
    if (st == S::value || st == S::value_ref) {
        // value() returns a reference: to the stored object, or (value_ref: a reference result, possibly seen through
        // a value future constructed from a reference coroutine) to the object the coroutine referred to
        if constexpr (std::is_void_v<T>) r.st = S_VAL;
        else {
            try { r = PT<T>::val(f.value()); }
            catch (...) { r.st = S_OTHER; }
        }
    }
    else if (st == S::exception) {
        r.st = S_EXC;
        try { std::rethrow_exception(f.*FProbe<T>::exc_mp()); }
        catch (const TestExc &e) { r.v = e.code; }
        catch (const cocls::await_canceled_exception &) { r.v = 200; }
        catch (...) { r.v = -1; }
    } else if (st == S::not_value) r.st = S_CANCELED;
    else r.st = S_OTHER;
    return r;
}

// callback awaiter native code subscribes on its future: fires inside future::resolve()
struct CbAwaiter : cocls::awaiter {
    bool sub = false;
    int n = 0;
    int alive = -1;                 // -1 not fired; 1 / 0: frame of coroutine 1 existed / did not exist when fired
    bool (*alive_fn)(void *) = nullptr;
    Res (*obs_fn)(void *) = nullptr;   // what the callback reads off the future (by reference)
    Res obs;
    void *ctx = nullptr;
    CbAwaiter() { set_resume_fn(&CbAwaiter::fire, this); }
    static cocls::suspend_point<void> fire(cocls::awaiter *me, void *) noexcept {
        auto self = static_cast<CbAwaiter *>(me);
        self->n++;
        self->sub = false;
        self->alive = self->alive_fn(self->ctx) ? 1 : 0;
        self->obs = self->obs_fn(self->ctx);
        return {};
    }
};

// ---- the world of one scenario ----------------------------------------------------------------------
template <typename T> struct World;

template <typename T>
struct Guard {
    World<T> *w; int c; bool copy;
    Guard(World<T> &w_, int c_) : w(&w_), c(c_), copy(false) {}
    Guard(Guard &&o) : w(o.w), c(o.c), copy(true) { w->st.co[c].ac++; }
    Guard(const Guard &) = delete;
    ~Guard() { if (copy) { w->st.co[c].ad++; w->st.log(c, 'x'); } }
};
template <typename T>
struct Local {
    World<T> *w; int c;
    Local(World<T> &w_, int c_) : w(&w_), c(c_) { w->st.co[c].lc++; }
    ~Local() { w->st.co[c].ld++; }
};
// learns the frame address from inside the body without suspending
template <typename T>
struct GrabHandle {
    World<T> *w; int c;
    bool await_ready() const noexcept { return false; }
    bool await_suspend(std::coroutine_handle<> h) noexcept { w->st.co[c].haddr = h.address(); return false; }
    void await_resume() const noexcept {}
};

template <typename T> cocls::async<T> body_new(World<T> &w, int c, Guard<T> g);
template <typename T> cocls::with_allocator<CountStore, cocls::async<T>> body_cnt(CountStore &s, World<T> &w, int c, Guard<T> g);
template <typename T> cocls::future<T> body_fut(World<T> &w, int c, Guard<T> g);

template <typename T>
struct World {
    Program prog;
    Stats st;
    bool counting = false, other = false;
    CountStore stores[MAXC + 1];
    AProbe<T> *objp[MAXC + 1] = {};
    cocls::future<T> *locf[MAXC + 1] = {};
    // reference results: V is the value type; a value future future<V> may be constructed from a reference coroutine
    // (future.h:232-236 with the ReturnsFuture concept, common.h:78-80): the object inside it IS a future<V &>
    using V = std::remove_reference_t<T>;
    static constexpr bool is_ref = std::is_reference_v<T>;
    cocls::future<V> *locvf[MAXC + 1] = {};
    std::optional<Tracked> referent[MAXC + 1];     // [c]: what coroutine c refers to; [0]: what native code puts into a claimed promise
    int nref = 0;
    long bufs_base = 0;
    // external futures
    using E = ExtT<T>;
    alignas(cocls::future<E>) unsigned char extbuf[MAXK + 1][sizeof(cocls::future<E>)];
    cocls::future<E> *extf[MAXK + 1] = {};
    int ext_final[MAXK + 1] = {};   // state of an external future at the time native code destroyed it
    std::optional<cocls::promise<E>> extp[MAXK + 1];
    // root
    std::optional<AProbe<T>> rootobj;
    alignas(16) unsigned char rootbuf[sizeof(cocls::future<T>) > sizeof(cocls::future<V>) ? sizeof(cocls::future<T>) : sizeof(cocls::future<V>)];
    cocls::future<T> *rootf = nullptr;
    cocls::future<V> *rootvf = nullptr;            // native code's future when it is a VALUE future over a reference coroutine
    Res ret;
    CbAwaiter cbaw;
    // accounting
    long base = 0, adj = 0, adj_before_join = 0;
    long step_news = 0, adj_news = 0;   // operator new calls inside driver steps / of them harness infrastructure
    bool obs_alloc = false;
    std::string chk = "ok";
    // join thread
    std::unique_ptr<vsched> sched;
    int jt = -1;
    bool blocked = false;

    struct Infra {   // harness infrastructure allocations are not library allocations
        World &w; long b0, n0;
        explicit Infra(World &w_) : w(w_), b0(alloc_balance()), n0(alloc_news()) {}
        ~Infra() { w.adj += alloc_balance() - b0; w.adj_news += alloc_news() - n0; }
    };
    // library code on a fresh thread: the thread's own bookkeeping (thread state, its ready deque) is released by the
    // time join() returns and its operator new calls are not the library's
    template <typename F> void on_fresh_thread(F &&f) {
        long n0 = alloc_news(), lib = 0;
        std::thread th([&] { warm_thread(); long a = alloc_news(); f(); lib = alloc_news() - a; });
        th.join();
        adj_news += (alloc_news() - n0) - lib;
    }

    cocls::async<T> make(int c) {
        if (counting) {
            stores[c].c = c;
            st.co[c].via_store = true;
            return body_cnt<T>(stores[c], *this, c, Guard<T>(*this, c));
        }
        return body_new<T>(*this, c, Guard<T>(*this, c));
    }

    void fail(const std::string &what) { if (chk == "ok") chk = what; }

    // ---- driver steps ----
    void setup() {
        g_stats = &st;
        Tracked::reset();
        warm_thread();
        // a fresh ready deque: its cursor is far from a node boundary (crossing one costs an operator new)
        std::deque<std::coroutine_handle<>>().swap(cocls::coro_queue::queue_impl::instance._queue);
        for (int k = 1; k <= prog.K; k++) {
            extf[k] = new (extbuf[k]) cocls::future<E>();
            extp[k].emplace(extf[k]->get_promise());
        }
        if constexpr (is_ref) {
            for (int c = 0; c <= prog.N(); c++) { referent[c].emplace(c == 0 ? 77 : -1); nref++; }
            Tracked::id_ctors = 0;
        }
        bufs_base = Tracked::bufs;
        base = alloc_balance();
        step_news = 0; adj_news = 0;   // (run_typed adds this step's own window afterwards: see there)
    }
    void create() {
        rootobj.emplace(make(1));
        st.co[1].haddr = rootobj->addr();
        objp[1] = &*rootobj;
    }
    void do_join() {
        try {
            if constexpr (std::is_void_v<T>) { rootobj->join(); ret = Res{S_VAL, 0}; }
            else {
                // the returned prvalue itself (no copy, no move by the party); for a reference coroutine: whatever
                // join() is declared to return
                decltype(auto) v = rootobj->join();
                ret = PT<T>::val(v);
            }
        } catch (const TestExc &e) { ret = Res{S_EXC, e.code}; }
        catch (const cocls::await_canceled_exception &) { ret = Res{S_EXC, 200}; }
        catch (...) { ret = Res{S_OTHER, 0}; }
        st.co[1].seen = ret;
    }
    void run_join_thread() {
        while (sched->enabled(jt)) sched->step(jt);
        if (sched->done(jt)) {
            long n0 = alloc_news();
            sched->join_all();
            sched->uninstall();
            sched.reset();
            adj = adj_before_join;   // thread, its ready deque and the scheduler are gone: no infrastructure left
            adj_news += alloc_news() - n0;
            blocked = false;
        } else blocked = true;
    }
    cocls::future<V> value_future_fn() { return make(1); }
    void subscribe_cb() {
        cbaw.ctx = this;
        cbaw.alive_fn = [](void *c) { return static_cast<World *>(c)->frame_alive(1); };
        cbaw.obs_fn = [](void *c) {
            auto w = static_cast<World *>(c);
            return w->rootvf ? w->read_api(*w->rootvf, false) : w->read_api(*w->rootf, false);
        };
        if (rootvf ? rootvf->subscribe(&cbaw) : rootf->subscribe(&cbaw)) cbaw.sub = true;
    }
    void root_start() {
        const std::string &m = prog.root;
        if (m == "detach") {
            rootobj->detach();
        } else if (m == "start") {
            rootf = new (rootbuf) cocls::future<T>(rootobj->start());
            subscribe_cb();
        } else if (m == "fctor") {
            rootf = new (rootbuf) cocls::future<T>(*rootobj);
            subscribe_cb();
        } else if (m == "poolrun") {
            // the body of thread_pool::run(async<T>&), thread_pool.h:289-299, with run_detached replaced by
            // "a fresh thread runs the closure and destroys it"
            rootf = new (rootbuf) cocls::future<T>([&](auto promise) {
                auto closure = [fn = cocls::async<T>(std::move(*rootobj)), promise = std::move(promise)]() mutable {
                    fn.start(promise);
                };
                on_fresh_thread([&] { closure(); });
            });
            subscribe_cb();
        } else if (m == "vfctor") {
            // future<V> f(ref_coroutine)
            rootvf = new (rootbuf) cocls::future<V>(*rootobj);
            subscribe_cb();
        } else if (m == "vshift") {
            // future<V> f; f << ref_coroutine   (result_of, future.h:295-313)
            rootvf = new (rootbuf) cocls::future<V>();
            (*rootvf) << *rootobj;
            subscribe_cb();
        } else if (m == "vretfn") {
            // a plain function declared future<V> that returns the reference coroutine
            rootvf = new (rootbuf) cocls::future<V>(value_future_fn());
            subscribe_cb();
        } else if (m == "retfut") {
            rootf = new (rootbuf) cocls::future<T>(body_fut<T>(*this, 1, Guard<T>(*this, 1)));
            subscribe_cb();
        } else if (m == "startp" || m == "claimed") {
            rootf = new (rootbuf) cocls::future<T>();
            cocls::promise<T> p = rootf->get_promise();
            if (m == "claimed") {
                if constexpr (std::is_void_v<T>) p(); else if constexpr (is_ref) p(*referent[0]); else p(PT<T>::make(77));
            }
            bool r = rootobj->start(p);
            ret = Res{r ? S_TRUE : S_FALSE, 0};
            if (m == "startp") subscribe_cb();
        } else if (m == "join") {
            adj_before_join = adj;
            {
                Infra i(*this);   // while the thread lives its bookkeeping is not library allocation
                sched.reset(new vsched());
                sched->log_enabled = false;
                sched->install();
                jt = sched->spawn([this] { warm_thread(); vsched::mark("go"); do_join(); });
            }
            run_join_thread();
        }
    }
    void resolve_here(int k, const std::string &how) {
        cocls::promise<E> &p = *extp[k];
        if (how == "val") { if constexpr (std::is_void_v<E>) p(); else p(5); }
        else if (how == "exc") p(std::make_exception_ptr(TestExc(100 + k)));
        else p(cocls::drop);
    }
    void resolve(int k, const std::string &how) {
        if (other) {
            // thread bookkeeping (thread state, the thread's own ready deque) is released by the time join()
            // returns; what remains in the balance is what the library code on that thread allocated / freed
            on_fresh_thread([&] { resolve_here(k, how); });
        } else resolve_here(k, how);
        if (sched) run_join_thread();
    }
    void drop_obj() { rootobj.reset(); objp[1] = nullptr; }
    void finish() {
        if (rootf) {
            st.co[1].seen = rootf->ready() ? read_api(*rootf, true) : fut_state(*rootf);   // start() + wait()
            if (rootf->ready()) { rootf->~future(); rootf = nullptr; }
            else fail("root future still pending at the end");
        }
        if (rootvf) {
            st.co[1].seen = rootvf->ready() ? read_api(*rootvf, true) : fut_state(*rootvf);
            if (rootvf->ready()) { rootvf->~future(); rootvf = nullptr; }   // must not destroy anything it does not own
            else fail("root future still pending at the end");
        }
        for (int k = 1; k <= prog.K; k++) {
            extp[k].reset();
            ext_final[k] = fut_state(*extf[k]).st;
            if (extf[k]->ready()) { extf[k]->~future(); extf[k] = nullptr; }
            else fail("external future still pending at the end");
        }
    }

    // ---- race of a blocking delivery with a completion on another thread (AsyncJoin.tla) ----
    int ft = -1;
    cocls::future<T> *bound = nullptr;     // the future the coroutine is bound to (a temporary inside join() / a local)
    static inline const void *race_ext[2] = {nullptr, nullptr};
    // scheduling points: marks, the load in future_common::ready, the CAS in subscribe_check_ready, the exchange in
    // resume_chain_set_ready, the store in sync_awaiter::wakeup, notify (wait is always one); never the operations on
    // the external future / its promise (that race is the Future protocol's own business, C01/C02)
    static bool race_no_yield(const cocls_verif::event &e) {
        using cocls_verif::op_t;
        if (e.op == op_t::mark) return false;
        for (const void *x : race_ext) if (x && e.obj == x) return true;
        switch (e.op) {
            case op_t::load: case op_t::conv: return strstr(e.func, "future_common::ready(") == nullptr;
            case op_t::cas: return strstr(e.func, "subscribe_check_ready") == nullptr;
            case op_t::xchg: return strstr(e.func, "resume_chain_set_ready") == nullptr;
            case op_t::store: case op_t::assign: return strstr(e.func, "wakeup") == nullptr;
            case op_t::notify: return false;
            default: return true;
        }
    }
    void race_party(const std::string &form) {
        if (form == "join") { do_join(); return; }
        try {
            cocls::future<T> f = rootobj->start();
            if constexpr (std::is_void_v<T>) {
                if (form == "wait") f.wait(); else if (form == "fjoin") f.join(); else { f.sync(); f.value(); }
                ret = Res{S_VAL, 0};
            } else {
                if (form == "wait") ret = PT<T>::val(f.wait());
                else if (form == "fjoin") ret = PT<T>::val(f.join());
                else { f.sync(); ret = PT<T>::val(f.value()); }
            }
        } catch (const TestExc &e) { ret = Res{S_EXC, e.code}; }
        catch (...) { ret = Res{S_OTHER, 0}; }
    }
    const char *race_pend(int t) {
        using cocls_verif::op_t;
        if (sched->done(t)) return "done";
        switch (sched->pending(t).op) {
            case op_t::mark: return "mark";
            case op_t::load: case op_t::conv: return "check";
            case op_t::cas: return "cas";
            case op_t::wait: return "wait";
            case op_t::xchg: return "xchg";
            case op_t::store: case op_t::assign: return "store";
            case op_t::notify: return "notify";
            default: return "?";
        }
    }
    // brings both threads to the initial state of the specification; false: the implementation does not get there
    bool race_begin(const std::string &form, std::string &why) {
        setup();
        create();
        race_ext[0] = &(extf[1]->*FProbe<E>::slot_mp());
        race_ext[1] = &((*extp[1]).*PProbe<E>::owner_mp());
        sched.reset(new vsched());
        sched->log_enabled = false;
        sched->no_yield = &World::race_no_yield;
        sched->install();
        jt = sched->spawn([this, form] { warm_thread(); vsched::mark("go"); race_party(form); });
        sched->step(jt);     // starts the coroutine (the body suspends on ext[1]) and arrives at its first check
        if (std::string(race_pend(jt)) != "check") { why = std::string("joiner arrives at '") + race_pend(jt) + "' instead of its readiness check"; return false; }
        if (!frame_alive(1) || !st.co[1].haddr) { why = "coroutine frame not alive after the start"; return false; }
        bound = std::coroutine_handle<cocls::async_promise<T>>::from_address(st.co[1].haddr).promise()._future;
        if (!bound) { why = "coroutine not bound to a future"; return false; }
        ft = sched->spawn([this] { warm_thread(); vsched::mark("go"); resolve_here(1, "val"); });
        sched->step(ft);     // resumes the body on this thread, runs it to its end, arrives at the exchange of resolve()
        if (std::string(race_pend(ft)) != "xchg") { why = std::string("finisher arrives at '") + race_pend(ft) + "' instead of the resolving exchange"; return false; }
        return true;
    }
    J race_project() {
        J m = J::map();
        m.set("j", race_pend(jt));
        m.set("f", race_pend(ft));
        std::string slot = "gone";
        if (!sched->done(jt)) {
            cocls::awaiter *a = (bound->*FProbe<T>::slot_mp()).verif_peek();
            slot = (a == nullptr || a == &cocls::awaiter::instance) ? "none" : a == &cocls::awaiter::disabled ? "ready" : "sync";
        }
        m.set("slot", slot);
        m.set("got", seen_j(sched->done(jt) ? ret : Res()));
        m.set("end", st.co[1].end);
        m.set("ad", st.co[1].ad);
        return m;
    }

    // what a party reads off a future it owns through the public API: value() / wait() return a reference
    template <typename X>
    Res read_api(cocls::future<X> &f, bool by_wait) {
        Res r = fut_state(f);
        if constexpr (!std::is_void_v<X>) {
            if (r.st == S_VAL) {
                try { r = by_wait ? PT<X>::val(f.wait()) : PT<X>::val(f.value()); }
                catch (...) { r = Res{S_OTHER, 0}; }
            }
        }
        return r;
    }

    // ---- projection ----
    bool frame_alive(int c) const { return st.co[c].ac - st.co[c].ad == 1; }
    std::string bind_of(int c) {
        if (!frame_alive(c) || !st.co[c].haddr) return "gone";
        auto h = std::coroutine_handle<cocls::async_promise<T>>::from_address(st.co[c].haddr);
        cocls::future<T> *f = h.promise()._future;
        if (!f) return "null";
        if (f == rootf || (rootvf && (void *) f == (void *) rootvf)) return "root";
        if (f == locf[c] || (locvf[c] && (void *) f == (void *) locvf[c])) return "loc";
        return "other";
    }
    long live() {
        long n = alloc_balance() - base - adj - (Tracked::bufs - bufs_base);   // payload buffers are not frames
        for (int c = 1; c <= prog.N(); c++) n += st.co[c].sa - st.co[c].sd;
        return n;
    }
    // operator new calls of the library itself: everything inside the driver steps that is neither harness
    // infrastructure, nor a coroutine frame (one call per frame not placed by the counting storage), nor the buffer
    // of a payload constructed from its id (by a body or by native code)
    long lib_news() {
        long n = step_news - adj_news - Tracked::id_ctors;
        for (int c = 1; c <= prog.N(); c++) if (!st.co[c].via_store) n -= st.co[c].ac;
        return n;
    }
    static J seen_j(const Res &r) { J m = res_j(r); m.set("cp", r.cp); m.set("mf", r.mf); return m; }
    static J res_j(const Res &r) { J m = J::map(); m.set("st", st_name(r.st)); m.set("v", r.v); return m; }
    J project() {
        const long live_now = live();   // before the projection itself allocates
        if (!blocked) {
            if (cocls::coro_queue::is_active()) fail("coroutine mode still on when native code has control");
            if (!cocls::coro_queue::queue_impl::instance._queue.empty()) fail("ready deque not empty");
        }
        if (st.store_double) fail("counting storage: block deallocated twice");
        for (int c = 1; c <= prog.N(); c++) if (st.co[c].via_store) {
            if (st.co[c].sa != st.co[c].ac || st.co[c].sd != st.co[c].ad)
                fail("counting storage: frame alloc/dealloc of coroutine " + std::to_string(c) + " = " +
                     std::to_string(st.co[c].sa) + "/" + std::to_string(st.co[c].sd) + " but argument copies " +
                     std::to_string(st.co[c].ac) + "/" + std::to_string(st.co[c].ad));
        }
        J m = J::map();
        m.set("P", prog.text);
        m.set("blocked", blocked);
        J cl = J::list();
        for (int c = 1; c <= prog.N(); c++) {
            J o = J::map();
            o.set("bind", bind_of(c));
            J cn = J::map();
            const CoStat &s = st.co[c];
            cn.set("ac", s.ac); cn.set("ad", s.ad); cn.set("end", s.end); cn.set("lc", s.lc); cn.set("ld", s.ld); cn.set("run", s.run);
            o.set("cnt", cn);
            Res fr;
            if (c == 1) { if (rootf) fr = fut_state(*rootf); else if (rootvf) fr = fut_state(*rootvf); }
            else if (locf[c]) fr = fut_state(*locf[c]);
            else if (locvf[c]) fr = fut_state(*locvf[c]);
            o.set("fut", res_j(fr));
            o.set("obj", !objp[c] ? "none" : objp[c]->holds() ? "holds" : "empty");
            o.set("seen", seen_j(s.seen));
            cl.push(o);
        }
        m.set("c", cl);
        J cbj = J::map();
        cbj.set("sub", cbaw.sub); cbj.set("n", cbaw.n); cbj.set("alive", cbaw.alive < 0 ? "none" : cbaw.alive ? "true" : "false");
        cbj.set("cp", cbaw.obs.cp); cbj.set("mf", cbaw.obs.mf);
        m.set("cb", cbj);
        J pay = J::map();
        pay.set("live", Tracked::live - nref); pay.set("copies", Tracked::copies_total); pay.set("dbl", Tracked::dbl);
        m.set("pay", pay);
        J rm = J::list();      // has the object a reference coroutine referred to been moved from?
        for (int c = 1; c <= prog.N(); c++) rm.push(referent[c] ? referent[c]->moved_from : false);
        m.set("rm", rm);
        if (obs_alloc) m.set("la", lib_news());
        J ev = J::list();
        for (int i = 0; i < st.nev; i++) { J e = J::list(); e.push(st.ev_c[i]); e.push(std::string(1, st.ev_t[i])); ev.push(e); }
        m.set("ev", ev);
        J ex = J::list();
        for (int k = 1; k <= prog.K; k++) ex.push(st_name(extf[k] ? fut_state(*extf[k]).st : ext_final[k]));
        m.set("ext", ex);
        m.set("live", live_now);
        m.set("ret", res_j(ret));
        m.set("chk", chk);
        return m;
    }
};

// ---- the scripted body ------------------------------------------------------------------------------
template <typename T>
struct RegObj {
    World<T> &w; int c;
    RegObj(World<T> &w_, int c_, AProbe<T> *a) : w(w_), c(c_) { w.objp[c] = a; w.st.co[c].haddr = a->addr(); }
    ~RegObj() { w.objp[c] = nullptr; }
};
template <typename T>
struct RegFut {
    World<T> &w; int c;
    RegFut(World<T> &w_, int c_, cocls::future<T> *f) : w(w_), c(c_) { w.locf[c] = f; }
    ~RegFut() { w.locf[c] = nullptr; }
};

template <typename T>
struct RegVFut {
    World<T> &w; int c;
    RegVFut(World<T> &w_, int c_, cocls::future<std::remove_reference_t<T>> *f) : w(w_), c(c_) { w.locvf[c] = f; }
    ~RegVFut() { w.locvf[c] = nullptr; }
};

// co_await EXPR, record what this (awaiting) coroutine observed of child ch
#define OBSERVE(EXPR) \
    try { \
        if constexpr (std::is_void_v<T>) { co_await EXPR; w.st.co[ch].seen = Res{S_VAL, 0}; w.st.co[c].acc = 0; } \
        else { \
            /* the reference returned by await_resume is looked at inside the full expression (the awaited future may \
               be a temporary); nothing is copied by the party */ \
            w.st.co[ch].seen = PT<T>::val(co_await EXPR); \
            w.st.co[c].acc = w.st.co[ch].seen.v; \
        } \
    } catch (const TestExc &e_) { w.st.co[ch].seen = Res{S_EXC, e_.code}; } \
    catch (const cocls::await_canceled_exception &) { w.st.co[ch].seen = Res{S_EXC, 200}; } \
    w.st.log(c, 'o');

#define BODY_IMPL \
    Local<T> loc_(w, c); \
    co_await GrabHandle<T>{&w, c}; \
    w.st.co[c].run++; \
    w.st.log(c, 'b'); \
    for (std::size_t i_ = 0; i_ < w.prog.body[c].size(); i_++) { \
        const StepDef s_ = w.prog.body[c][i_]; \
        const int ch = s_.a; \
        switch (s_.k) { \
            case K_AW: { \
                try { co_await *w.extf[ch]; } \
                catch (...) { w.st.co[c].end++; w.st.log(c, 'e'); throw; } \
                w.st.log(c, 'a'); \
            } break; \
            case K_CO: { \
                AProbe<T> a(w.make(ch)); RegObj<T> ro(w, ch, &a); \
                OBSERVE(a) \
            } break; \
            case K_DA: { \
                AProbe<T> a(w.make(ch)); RegObj<T> ro(w, ch, &a); \
                co_await a.detach(); \
                w.st.log(c, 'q'); \
            } break; \
            case K_DD: { \
                AProbe<T> a(w.make(ch)); RegObj<T> ro(w, ch, &a); \
                a.detach(); \
            } break; \
            case K_ST: { \
                AProbe<T> a(w.make(ch)); RegObj<T> ro(w, ch, &a); \
                cocls::future<T> f = a.start(); RegFut<T> rf(w, ch, &f); \
                OBSERVE(f) \
            } break; \
            case K_FC: { \
                AProbe<T> a(w.make(ch)); RegObj<T> ro(w, ch, &a); \
                cocls::future<T> f(a); RegFut<T> rf(w, ch, &f); \
                OBSERVE(f) \
            } break; \
            case K_VF: { \
                /* a VALUE future constructed from the (reference) coroutine, then awaited */ \
                AProbe<T> a(w.make(ch)); RegObj<T> ro(w, ch, &a); \
                cocls::future<std::remove_reference_t<T>> f(a); RegVFut<T> rf(w, ch, &f); \
                OBSERVE(f) \
            } break; \
            case K_RF: { \
                OBSERVE(body_fut<T>(w, ch, Guard<T>(w, ch))) \
            } break; \
            case K_PA: { \
                AProbe<T> a(w.make(ch)); RegObj<T> ro(w, ch, &a); \
                cocls::future<T> f; RegFut<T> rf(w, ch, &f); \
                cocls::promise<T> p = f.get_promise(); \
                bool r = co_await a.start(p); \
                if (!r) w.fail("start(promise) with a live promise returned false"); \
                OBSERVE(f) \
            } break; \
            case K_PD: { \
                AProbe<T> a(w.make(ch)); RegObj<T> ro(w, ch, &a); \
                cocls::future<T> f; RegFut<T> rf(w, ch, &f); \
                cocls::promise<T> p = f.get_promise(); \
                bool r = a.start(p); \
                if (!r) w.fail("start(promise) with a live promise returned false"); \
                OBSERVE(f) \
            } break; \
            case K_RET: { \
                w.st.co[c].end++; w.st.log(c, 'e'); \
                if constexpr (std::is_void_v<T>) co_return; \
                else if constexpr (std::is_reference_v<T>) { \
                    w.referent[c]->id = c + 10 * w.st.co[c].acc; \
                    co_return *w.referent[c];                                                      /* reference result */ \
                } else { \
                    const int id_ = c + 10 * w.st.co[c].acc; \
                    if (s_.a == 1) { T v_ = PT<T>::make(id_); co_return v_; }                      /* co_return variable */ \
                    else if (s_.a == 2) { T v_ = PT<T>::make(id_); co_return std::move(v_); }      /* std::move(variable) */ \
                    else co_return PT<T>::make(id_);                                               /* temporary */ \
                } \
            } \
            case K_THR: { \
                w.st.co[c].end++; w.st.log(c, 'e'); \
                throw TestExc(c); \
            } \
            default: break; \
        } \
    } \
    w.fail("body without ret/thr"); \
    if constexpr (std::is_void_v<T>) co_return; else if constexpr (std::is_reference_v<T>) co_return *w.referent[c]; else co_return PT<T>::make(-1);

template <typename T>
cocls::async<T> body_new(World<T> &w, int c, Guard<T> g) { BODY_IMPL }

template <typename T>
cocls::with_allocator<CountStore, cocls::async<T>> body_cnt(CountStore &s, World<T> &w, int c, Guard<T> g) { BODY_IMPL }

template <typename T>
cocls::future<T> body_fut(World<T> &w, int c, Guard<T> g) { BODY_IMPL }

// ---- scenario driver --------------------------------------------------------------------------------
template <typename T>
static void run_typed(const Scenario &sc, Reporter &rep, const Program &prog) {
    World<T> *w = new World<T>();
    w->prog = prog;
    w->counting = sc.hdr.at("alloc").as_str("new") == "count";
    w->other = sc.hdr.at("other").as_bool(false);
    w->obs_alloc = sc.hdr.at("obs").as_str("") == "alloc";
    bool ok = true, finished = false;
    for (std::size_t k = 0; k < sc.steps.size() && ok; k++) {
        const Step &s = sc.steps[k];
        const long n0 = alloc_news();
        if (s.name == "Setup") w->setup();
        else if (s.name == "Create") w->create();
        else if (s.name == "RootStart") w->root_start();
        else if (s.name == "DropObj") w->drop_obj();
        else if (s.name == "Resolve") w->resolve(s.iarg(0), s.sarg(1));
        else if (s.name == "Finish") { w->finish(); finished = true; }
        else { rep.error(k, "unknown action"); ok = false; break; }
        if (s.name != "Setup") w->step_news += alloc_news() - n0;
        if (!rep.check(k, w->project())) ok = false;
    }
    if (ok && finished && w->chk == "ok" && !w->sched) {
        delete w;
        CountStore::release_all();
    } else {
        // a diverged / unfinished scenario may hold suspended frames, pending futures or a blocked thread:
        // nothing of it can be destroyed legally, the world is abandoned
        if (w->sched) { w->sched->uninstall(); (void) w->sched.release(); }
        CountStore::nblocks = 0;
    }
    g_stats = nullptr;
}

template <typename T>
static void run_race(const Scenario &sc, Reporter &rep) {
    World<T> *w = new World<T>();
    Program prog;
    parse_program(sc.hdr.at("T").as_str("int") + "|join|1|aw1,ret0", prog);
    w->prog = prog;
    const std::string form = sc.hdr.at("form").as_str("join");
    std::string why;
    bool ok = true;
    if (!w->race_begin(form, why)) { rep.diverge(0, why + " got=" + w->race_project().dump()); ok = false; }
    for (std::size_t k = 0; k < sc.steps.size() && ok; k++) {
        const Step &s = sc.steps[k];
        int t = s.name[0] == 'J' ? w->jt : w->ft;
        if (!w->sched->enabled(t)) {
            rep.diverge(k, std::string("thread not enabled in the implementation (") + (w->sched->done(t) ? "finished" : "blocked") +
                           ") got=" + w->race_project().dump());
            ok = false;
            break;
        }
        // the pending operation must be the one the action is about
        const char *want = s.name == "JCheck" ? "check" : s.name == "JCas" ? "cas" : s.name == "JWait" ? "wait" :
                           s.name == "FXchg" ? "xchg" : s.name == "FStore" ? "store" : s.name == "FNotify" ? "notify" : "?";
        if (std::string(w->race_pend(t)) != want) {
            rep.diverge(k, std::string("pending operation is '") + w->race_pend(t) + "' got=" + w->race_project().dump());
            ok = false;
            break;
        }
        w->sched->step(t);
        if (!rep.check(k, w->race_project())) ok = false;
    }
    bool drained = w->sched->drain(10000);
    if (ok && !drained) {
        rep.diverge(sc.steps.size() - 1, "deadlock: a thread is blocked for ever at the end of the schedule got=" + w->race_project().dump());
        ok = false;
    }
    if (drained) {
        w->sched->join_all();
        w->sched->uninstall();
        w->sched.reset();
        if (ok) {
            w->drop_obj();
            w->finish();
            if (w->chk != "ok" || Tracked::live != 0 || Tracked::dbl != 0) rep.diverge(sc.steps.size() - 1, "after the race: " + w->chk + " payload objects alive " + std::to_string(Tracked::live));
            else { delete w; w = nullptr; }
        }
    } else {
        // a thread is stuck inside library code: nothing can be unwound
        w->sched->uninstall();
        (void) w->sched.release();
    }
    CountStore::nblocks = 0;
    g_stats = nullptr;
}

static void run(const Scenario &sc, Reporter &rep) {
    if (sc.steps.empty()) return;
    if (sc.hdr.at("race").as_bool(false)) {
        const std::string T = sc.hdr.at("T").as_str("int");
        if (T == "void") run_race<void>(sc, rep);
        else if (T == "trk") run_race<Tracked>(sc, rep);
        else run_race<int>(sc, rep);
        return;
    }
    JV e0 = JReader(sc.steps[0].expected).parse();
    Program prog;
    if (sc.steps[0].name != "Setup" || !parse_program(e0.at("P").as_str(), prog)) {
        rep.error(0, "scenario does not begin with Setup / bad program text");
        return;
    }
    if (prog.T == "void") run_typed<void>(sc, rep, prog);
    else if (prog.T == "trk") run_typed<Tracked>(sc, rep, prog);
#ifndef ASYNC_NO_REF
    else if (prog.T == "ref") run_typed<Tracked &>(sc, rep, prog);
#endif
    else run_typed<int>(sc, rep, prog);
}

// what does async<T &>::join() hand out?  (the specification follows the code: constant JoinRef)
// (-DASYNC_NO_REF: build without the reference-coroutine instantiation, used by the driver when the tree under test no
// longer compiles it -- which the driver reports)
#ifndef ASYNC_NO_REF
static Tracked *g_probe_obj = nullptr;
static cocls::async<Tracked &> probe_ref_coro() { co_return *g_probe_obj; }
#endif

int main(int argc, char **argv) {
    if (argc > 1 && !strcmp(argv[1], "--probe-join-ref")) {
        const char *r = "unknown";
#ifndef ASYNC_NO_REF
        Tracked obj(1);
        g_probe_obj = &obj;
        try {
            decltype(auto) v = probe_ref_coro().join();
            if constexpr (std::is_reference_v<decltype(v)>) { if (&v == &obj && !obj.moved_from) r = "ref"; }
            else if (obj.moved_from && !v.moved_from && v.copies == 0) r = "moves";
            else if (!obj.moved_from && v.copies == 1) r = "copies";
        } catch (...) {}
#endif
        printf("JOINREF %s\n", r);
        fflush(stdout);
        _exit(0);
    }
    return replay_main(std::cin, run);
}
