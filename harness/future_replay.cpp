// future_replay.cpp -- replays schedules of spec/Future/Future.tla on the real
// cocls::future<int>/promise<int> with real threads under the controlled scheduler.
//
// header: {"R":{"r1":"val",...}, "W":{"w1":"co",...}}
//   resolver kinds: val exc drop mdes masg dtor final ovw ; waiter kinds: co hv bl cb mp
//   (mp: the callback of a callback-promise cocls::make_promise<T>(fn): no thread of its own, the future lives on the heap)
// step label: Action(thread)
// projection after each step:
//   {"allocs":n,"chain":"ready"|[waiters from top],"owner":"fut"|"null","pend":{thread:pc},
//    "res":{resolver:"none"|"true"|"false"},"resumes":{w:n},"seen":{w:{"tag","payload"}},"tag","payload"}
//   with -DPAYLOAD_TRK additionally {"arg":{value resolver:"intact"|"moved"},"live":n,"made":n}: the state of each value
//   resolver's rvalue ARGUMENT object, whether the library holds a live payload instance (0 / 1: the stored value; extra
//   temporaries of a winning call are not the property's business) and, per resolver, whether a payload instance was
//   constructed by the library on that resolver's thread (0 / 1: a refused call constructs nothing)
#define REPLAY_COUNT_ALLOCS
#include <cocls/future.h>
#include <cocls/async.h>
#include <cocls/coro_storage.h>
#include <cocls_verif/vsched.h>
#include "replay_common.h"

#include <optional>
#include <functional>

using namespace rp;
using cocls_verif::vsched;
using cocls_verif::op_t;

struct TestExc : std::exception { int who; explicit TestExc(int w) : who(w) {} };

// ---- payload: int (default) or, with -DPAYLOAD_BIG, a 64-byte tracked object: every byte carries the resolver's
// identity (integrity is checked by every reader), copies are counted (the library never needs to copy a payload that
// is constructed in place and read by reference), and it does not fit the small buffers of type-erasing wrappers
#if defined(PAYLOAD_REF)
// future<int&>: the resolver passes an lvalue, the future stores its address (state value_ref)
using Payload = int &;
static int g_refs[64];
static const bool g_refs_init = [] { for (int i = 0; i < 64; i++) g_refs[i] = i; return true; }();
#define MAKE_ARG(who) g_refs[who]
static int who_of(int v) { return v; }
static long payload_copies() { return 0; }
#elif defined(PAYLOAD_BIG)
#define MAKE_ARG(who) who
struct Big {
    int who;
    unsigned char pad[60];
    static inline std::atomic<long> copies{0};
    Big(int w) : who(w) { memset(pad, (unsigned char) w, sizeof pad); }
    Big(const Big &o) : who(o.who) { memcpy(pad, o.pad, sizeof pad); copies++; }
    Big(Big &&o) noexcept : who(o.who) { memcpy(pad, o.pad, sizeof pad); }
    Big &operator=(const Big &o) { who = o.who; memcpy(pad, o.pad, sizeof pad); copies++; return *this; }
    Big &operator=(Big &&o) noexcept { who = o.who; memcpy(pad, o.pad, sizeof pad); return *this; }
};
using Payload = Big;
static int who_of(const Big &b) {
    for (unsigned char c : b.pad) if (c != (unsigned char) b.who) return 9000 + b.who;   // torn / garbage payload
    return b.who;
}
static long payload_copies() { return Big::copies.load(); }
#elif defined(PAYLOAD_TRK)
// a move-only, instance-counted payload with a moved-from flag (optionally OVER-ALIGNED: -DPAYLOAD_ALIGN=64, alignof(T) >
// __STDCPP_DEFAULT_NEW_ALIGNMENT__).  The only way the library can make an instance is the move constructor, which marks its
// source; an instance made by the user (resolver argument, operand of co_return, bound argument) reports through its ArgRep
// whether it was consumed, also after its death.
#ifdef PAYLOAD_ALIGN
#define TRK_ALIGNAS alignas(PAYLOAD_ALIGN)
#else
#define TRK_ALIGNAS
#endif
struct Trk;
struct ArgRep { const Trk *obj = nullptr; bool dead = false; bool moved_at_death = false; };
struct TRK_ALIGNAS Trk {
    int who;
    bool moved = false;
    bool by_move;
    ArgRep *rep = nullptr;
    unsigned char pad[40];
    static inline std::atomic<long> ctors{0}, dtors{0}, mv_ctors{0}, mv_dtors{0};
    static inline thread_local long *cur_moves = nullptr;   // where the running resolver thread counts the instances made on it
    static inline bool transfer_rep = false;    // set-up of the bind form: the observed argument is the one that ends up in the closure
    Trk(int w, ArgRep *r = nullptr) : who(w), by_move(false), rep(r) {
        memset(pad, (unsigned char) w, sizeof pad);
        if (rep) rep->obj = this;
        ctors++;
    }
    Trk(Trk &&o) noexcept : who(o.who), by_move(true) {
        memcpy(pad, o.pad, sizeof pad);
        o.moved = true;
        if (transfer_rep && o.rep) { rep = o.rep; o.rep = nullptr; rep->obj = this; }
        ctors++; mv_ctors++;
        if (cur_moves) ++*cur_moves;
    }
    Trk(const Trk &) = delete;
    Trk &operator=(const Trk &) = delete;
    Trk &operator=(Trk &&) = delete;
    ~Trk() {
        if (rep) { rep->dead = true; rep->moved_at_death = moved; rep->obj = nullptr; }
        dtors++;
        if (by_move) mv_dtors++;
    }
};
using Payload = Trk;
#define MAKE_ARG(who) Trk(who)
static int who_of(const Trk &b) {
    if (b.moved) return 9000 + b.who;                                                     // a moved-from shell
    for (unsigned char c : b.pad) if (c != (unsigned char) b.who) return 9000 + b.who;   // torn / garbage payload
    return b.who;
}
static long payload_copies() { return 0; }
#else
#define MAKE_ARG(who) who
using Payload = int;
static int who_of(int v) { return v; }
static long payload_copies() { return 0; }
#endif
#ifndef PAYLOAD_TRK
struct ArgRep {};
#endif

// ---- probes: read protected state through pointers to members obtained via a derived class ------
struct FProbe : cocls::future<Payload> {
    static auto slot_mp() { return &FProbe::_awaiter; }
    static auto state_mp() { return &FProbe::_state; }
    static auto value_mp() { return &FProbe::_value; }
    static auto exc_mp() { return &FProbe::_exception; }
    static auto ptr_mp() { return &FProbe::_ptr_value; }
};
struct PProbe : cocls::promise<Payload> {
    static auto owner_mp() { return &PProbe::_owner; }
};

static thread_local long lib_allocs = 0;   // operator new calls inside library calls, per thread
// a library call in progress is visible to the controller too (the thread is parked inside it at an atomic operation): the
// projection after EVERY step includes the allocations of the calls that have not returned yet
struct ScopeReg { const long *news = nullptr; long start = 0; bool active = false; };
static thread_local ScopeReg *cur_reg = nullptr;
struct lib_scope {
    long start;
    lib_scope() : start(alloc_stats::news) { if (cur_reg) { cur_reg->news = &alloc_stats::news; cur_reg->start = start; cur_reg->active = true; } }
    ~lib_scope() { lib_allocs += alloc_stats::news - start; if (cur_reg) cur_reg->active = false; }
};

// The thread-local ready queue (std::deque) is constructed lazily once per thread; that one-time
// per-thread initialisation is not attributed to any future/promise operation (C20).
static void warm_thread() { (void) cocls::coro_queue::queue_impl::instance._queue.size(); }

struct Rec {
    std::string tag = "unread";
    std::string payload = "unread";
    int resumes = 0;
    bool done = false;
};

struct World;
static void read_result(World &w, Rec &r);
static void read_result_of(World &w, cocls::future<Payload> &f, Rec &r);

struct CbAwaiter : cocls::awaiter {
    World *world = nullptr;
    Rec *rec = nullptr;
    CbAwaiter() { set_resume_fn(&CbAwaiter::fire, this); }
    static cocls::suspend_point<void> fire(cocls::awaiter *me, void *) noexcept {
        auto self = static_cast<CbAwaiter *>(me);
        read_result(*self->world, *self->rec);
        self->rec->resumes++;
        self->rec->done = true;
        return {};
    }
};

struct World {
    cocls::future<Payload> fut;
    // the future under test: `fut`, or the heap future of a callback-promise (waiter kind "mp"), which deletes itself
    // after its callback ran (`mp_gone`: from then on the projection shows what the callback, the only observer, saw)
    cocls::future<Payload> *fp = &fut;
    const void *slot_addr = nullptr;
    bool mp = false, mp_gone = false;
    std::string mp_tag, mp_payload;
    cocls::reusable_storage mp_storage;
    std::map<std::string, ScopeReg> scopes; // per thread: the library call in progress
    std::map<std::string, int> ovw_stage;   // ovw: 0 = the assignment, 1 = the call of the moved-from source
    std::map<std::string, ArgRep> argrep;   // PAYLOAD_TRK: the argument object of every value resolver
    ArgRep bind_rep;
    long live0 = 0;
    std::map<std::string, long> moves;      // PAYLOAD_TRK: payload instances constructed (by moving) on each resolver's thread
    cocls::promise<Payload> *p = nullptr;   // heap object: alive until its destructor has returned
    const void *p_owner_addr = nullptr;
    bool fine = false;      // finest grain (FutureFine.tla): yield before AND after every atomic operation
    std::map<std::string, const void *> q_owner_addr;   // masg: the assigned-to promise of each such thread
    std::map<std::string, std::string> rkind, wkind;
    std::map<std::string, int> tid;          // thread name -> vsched id
    std::map<std::string, std::string> rres;
    std::map<std::string, Rec> recs;
    std::map<std::string, std::unique_ptr<CbAwaiter>> cbs;
    // API-form rotation: the same specification action is reached through different public entry points that are
    // documented as equivalent (promise(x) / set_value(x) / set_exception(e) / unhandled_exception();
    // subscribe(awaiter*) / co_awaiter::await_suspend(resume_fn, void*)); form = header "form" + index of the thread
    int form = 0;
    bool bound_dead = false;
    bool bind = false;      // the (single) value resolver goes through promise::bind(args...)()
    long copies0 = 0;
    std::function<bool()> call_bound;
    std::function<void()> drop_bound;
    struct FnCtx { World *world; Rec *rec; };
    std::map<std::string, std::unique_ptr<cocls::co_awaiter<cocls::future<Payload>>>> fnaw;   // cb waiters, form 1
    std::map<std::string, FnCtx> fnctx;
    std::map<std::string, cocls::awaiter *> cbnode;   // the awaiter node of every cb waiter (either form)
    std::map<std::uint64_t, std::string> node_of;   // awaiter node address -> waiter
    std::atomic<long> allocs{0};
    vsched sched;
    std::unique_ptr<cocls::suspend_point<bool>> final_sp;
    std::string payload_name(int who) {
        if (who == 0) return "pre";      // resolved before the threads started (header "pre")
        for (auto &kv : rkind) if (atoi(kv.first.c_str() + 1) == who) return kv.first;
        return "r?" + std::to_string(who);
    }
};

static void read_result(World &w, Rec &r) { read_result_of(w, *w.fp, r); }

static void read_result_of(World &w, cocls::future<Payload> &f, Rec &r) {
    try {
        const Payload &v = f.value();
        r.tag = "val";
        r.payload = w.payload_name(who_of(v));
    } catch (const TestExc &e) {
        r.tag = "exc";
        r.payload = w.payload_name(e.who);
    } catch (const cocls::await_canceled_exception &) {
        r.tag = "none";
        r.payload = "none";
    } catch (const cocls::value_not_ready_exception &) {
        r.tag = "notready";
        r.payload = "notready";
    }
}

static cocls::suspend_point<void> fn_fire(cocls::awaiter *, void *ctx) noexcept {
    auto c = static_cast<World::FnCtx *>(ctx);
    read_result(*c->world, *c->rec);
    c->rec->resumes++;
    c->rec->done = true;
    return {};
}

static cocls::async<void> co_waiter(World &w, Rec &r) {
    try {
        const Payload &v = co_await w.fut;
        r.tag = "val";
        r.payload = w.payload_name(who_of(v));
    } catch (const TestExc &e) {
        r.tag = "exc";
        r.payload = w.payload_name(e.who);
    } catch (const cocls::await_canceled_exception &) {
        r.tag = "none";
        r.payload = "none";
    }
    r.resumes++;
    r.done = true;
}

static cocls::async<void> hv_waiter(World &w, Rec &r) {
    bool has = co_await w.fut.has_value();
    read_result(w, r);
    if (has != (r.tag != "none")) r.tag = "hv_mismatch";
    r.resumes++;
    r.done = true;
}

#ifndef PAYLOAD_REF
#ifdef PAYLOAD_TRK
static cocls::async<Payload> final_coro(int who, ArgRep *rep = nullptr) {
    co_return Payload(who, rep);       // the operand is the user's instance; return_value() moves it into the future
}
#else
static cocls::async<Payload> final_coro(int who, ArgRep * = nullptr) {
    co_return Payload(who);
}
#endif
#endif

static std::string pend_site(World &w, const std::string &name, bool resolver);

static std::string pend_of(World &w, const std::string &name, bool resolver) {
    if (!resolver && w.wkind[name] == "mp") return w.recs[name].done ? "done" : "parked";   // (no thread of its own)
    int t = w.tid[name];
    if (w.sched.done(t)) {
        if (resolver || w.fine) return "done";
        return w.recs[name].done ? "done" : "parked";
    }
    std::string site = pend_site(w, name, resolver);
    if (!w.fine) return site;
    return std::string(w.sched.pending_after(t) ? "post:" : "pre:") + site;
}

static std::string pend_site(World &w, const std::string &name, bool resolver) {
    int t = w.tid[name];
    const auto &e = w.sched.pending(t);
    // classification by operation kind and by WHICH atomic object is touched (robust against renamed or
    // restructured functions): the future's awaiter slot, the promise's owner pointer, anything else
    const void *slot = w.slot_addr;
    const void *owner = w.p_owner_addr;
    const bool ovw = resolver && w.rkind[name] == "ovw";
    switch (e.op) {
        case op_t::mark: return e.tag;
        case op_t::xchg:
            if (e.obj == slot) return "swap";
            if (e.obj == owner) return "claim";
            if (w.q_owner_addr.count(name) && e.obj == w.q_owner_addr[name]) return ovw ? (w.ovw_stage[name] ? "qclaim" : "oclaim") : "mclaim_own";
            break;
        case op_t::load: case op_t::conv:
            if (e.obj == slot) return "check";
            return "dload";                       // a promise's owner pointer (p itself or a moved-to promise)
        case op_t::store: case op_t::assign:
            if (ovw && e.obj == owner) return "ostore";
            if (w.q_owner_addr.count(name) && e.obj == w.q_owner_addr[name]) return "massign";
            if (e.obj != slot && e.obj != owner) return "flagstore";
            break;
        case op_t::notify: return "notify";
        case op_t::cas:
            if (e.obj == slot) return "cas";
            break;
        case op_t::fence: return "fence";
        case op_t::wait: return "wait";
        default: break;
    }
    return std::string("?") + cocls_verif::op_name(e.op) + "@" + e.func;
}

// what the future holds, read straight from its members
static void stored_result(World &w, cocls::future<Payload> &f, std::string &tag, std::string &payload) {
    auto st = f.*FProbe::state_mp();
    using S = cocls::future_common::State;
    if (st == S::not_value) { tag = "none"; payload = "none"; }
#ifdef PAYLOAD_REF
    else if (st == S::value_ref) { tag = "val"; payload = w.payload_name(who_of(*(f.*FProbe::ptr_mp()))); }
    // future<T&>::set_value(lvalue) (a future that is born resolved) keeps the address in the value slot: state `value`, and
    // value() dereferences it (future.h:245-262, :351)
    else if (st == S::value) { tag = "val"; payload = w.payload_name(who_of(*(f.*FProbe::value_mp()))); }
#else
    else if (st == S::value) { tag = "val"; payload = w.payload_name(who_of(f.*FProbe::value_mp())); }
#endif
    else if (st == S::exception) {
        tag = "exc";
        try { std::rethrow_exception(f.*FProbe::exc_mp()); }
        catch (const TestExc &e) { payload = w.payload_name(e.who); }
        catch (...) { payload = "other"; }
    } else { tag = "other"; payload = "other"; }
}

static J project(World &w) {
    J m = J::map();
    long inflight = 0;
    for (auto &kv : w.scopes) if (kv.second.active) inflight += *kv.second.news - kv.second.start;
    m.set("allocs", (long) w.allocs.load() + inflight);
    m.set("copies", payload_copies() - w.copies0);
    // owner
    std::string owner = "null";
    using OwnerAtomic = std::remove_reference_t<decltype((*w.p).*PProbe::owner_mp())>;
    if (w.bind && !w.p_owner_addr) {
        // the promise was moved into the closure returned by bind(): its owner pointer is the object of the resolver's
        // first atomic operation (the claiming exchange)
        for (auto &kv : w.rkind) {
            int t = w.tid[kv.first];
            auto op = w.sched.pending(t).op;
            if (w.sched.parked(t) && !w.sched.pending_after(t) && (op == op_t::xchg || op == op_t::load || op == op_t::conv) && w.sched.pending(t).obj != w.slot_addr)
                w.p_owner_addr = w.sched.pending(t).obj;
        }
    }
    if (w.bind && w.bound_dead) owner = "null";
    else if (w.bind) owner = w.p_owner_addr ? (static_cast<const OwnerAtomic *>(w.p_owner_addr)->verif_peek() ? "fut" : "null") : "fut";
    else if (w.p) owner = ((*w.p).*PProbe::owner_mp()).verif_peek() ? "fut" : "null";
    m.set("owner", owner);
    // learn node addresses from pending CAS operations
    for (auto &kv : w.wkind) {
        if (kv.second == "mp") continue;
        int t = w.tid[kv.first];
        if (w.sched.parked(t) && !w.sched.pending_after(t) && w.sched.pending(t).op == op_t::cas) w.node_of[w.sched.pending(t).arg] = kv.first;
    }
    // chain
    cocls::awaiter *top = w.mp_gone ? &cocls::awaiter::disabled : ((*w.fp).*FProbe::slot_mp()).verif_peek();
    if (top == &cocls::awaiter::disabled) m.set("chain", "ready");
    else {
        J ch = J::list();
        int fuel = 16;
        for (cocls::awaiter *n = top; n && fuel--; n = n->_next) {
            if (n == &cocls::awaiter::disabled || n == &cocls::awaiter::instance) { ch.push("sentinel"); break; }
            auto it = w.node_of.find((std::uint64_t) reinterpret_cast<std::uintptr_t>(n));
            ch.push(it == w.node_of.end() ? std::string("unknown") : it->second);
            if (it == w.node_of.end()) break;       // not a node of ours: do not follow its link
        }
        m.set("chain", ch);
    }
    // stored result
    if (w.mp_gone) { m.set("tag", w.mp_tag); m.set("payload", w.mp_payload); }
    else {
        std::string tag, payload;
        stored_result(w, *w.fp, tag, payload);
        m.set("tag", tag); m.set("payload", payload);
    }
#ifdef PAYLOAD_TRK
    {
        J arg = J::map();
        for (auto &kv : w.rkind) if (kv.second == "val" || kv.second == "ovw") {
            const ArgRep &r = (w.bind && kv.second == "val") ? w.bind_rep : w.argrep[kv.first];
            bool moved = r.dead ? r.moved_at_death : (r.obj && r.obj->moved);
            arg.set(kv.first, moved ? "moved" : "intact");
        }
        m.set("arg", arg);
        // the instance inside the closure returned by bind() is the (bound) argument, not an instance the library made for itself
        long closure = (w.bind && !w.bind_rep.dead) ? 1 : 0;
        m.set("live", std::min(1L, Trk::mv_ctors.load() - Trk::mv_dtors.load() - w.live0 - closure));
        J made = J::map();
        for (auto &kv : w.rkind) if (kv.second == "val" || kv.second == "ovw" || kv.second == "final") made.set(kv.first, std::min(1L, w.moves[kv.first]));
        m.set("made", made);
    }
#endif
    J pend = J::map(), res = J::map(), resumes = J::map(), seen = J::map();
    for (auto &kv : w.rkind) {
        pend.set(kv.first, pend_of(w, kv.first, true));
        res.set(kv.first, w.rres[kv.first]);
    }
    for (auto &kv : w.wkind) {
        pend.set(kv.first, pend_of(w, kv.first, false));
        Rec &r = w.recs[kv.first];
        resumes.set(kv.first, r.resumes);
        J s = J::map();
        s.set("tag", r.tag);
        s.set("payload", r.payload);
        seen.set(kv.first, s);
    }
    // the callback awaiters are harness-owned objects that outlive their subscription: their _next link is
    // observable at any time (a reusable awaiter must be left with a clean link after release / refusal)
    J cbnext = J::map();
    for (auto &kv : w.cbnode) {
        cocls::awaiter *n = kv.second->_next;
        std::string nm = "null";
        if (n == &cocls::awaiter::disabled) nm = "ready";
        else if (n != nullptr) {
            auto it = w.node_of.find((std::uint64_t) reinterpret_cast<std::uintptr_t>(n));
            nm = it == w.node_of.end() ? std::string("unknown") : it->second;
        }
        cbnext.set(kv.first, nm);
    }
    m.set("cbnext", cbnext);
    m.set("pend", pend);
    m.set("res", res);
    m.set("resumes", resumes);
    m.set("seen", seen);
    return m;
}

// exploration mode (code -> spec direction): random schedules on the real code, every step logged as
// one ndjson line {"a":action,"t":thread,"p":projection}; runs are separated by {"a":"Reset"}.  The log is
// validated by TLC against spec/Future/FutureTrace.tla.
struct Explore {
    FILE *out;
    std::uint64_t rng;
    std::uint64_t next() { rng ^= rng << 13; rng ^= rng >> 7; rng ^= rng << 17; return rng; }
};

static const char *action_of(const std::string &pend) {
    if (pend == "claim") return "Claim";
    if (pend == "dtor") return "DtorStart";
    if (pend == "ovw") return "OvwStart";
    if (pend == "oclaim") return "OClaim";
    if (pend == "ostore") return "OStore";
    if (pend == "qclaim") return "QClaim";
    if (pend == "mclaim_own") return "MClaimOwn";
    if (pend == "massign") return "MAssign";
    if (pend == "dload") return "DLoad";
    if (pend == "swap") return "SwapReady";
    if (pend == "flagstore") return "FlagStore";
    if (pend == "notify") return "Notify";
    if (pend == "check") return "CheckReady";
    if (pend == "cas") return "SubCAS";
    if (pend == "fence") return "Fence";
    if (pend == "wait") return "FlagWait";
    return "Unknown";
}


// A pure atomic LOAD that the specification does not expect at this point (e.g. an added consistency check or a
// re-read) cannot by itself change the protocol state: it is executed silently (at most twice per thread and step) so
// that a behaviour-preserving extra load does not raise an alarm; whatever the thread does with the loaded value still
// has to match the specification afterwards.
static void absorb_extra_loads(World &w, const std::string &expected) {
    JV exp = JReader(expected).parse();
    const JV &pend = exp.at("pend");
    for (auto &kv : pend.m) {
        auto it = w.tid.find(kv.first);
        if (it == w.tid.end()) continue;
        for (int i = 0; i < 2; i++) {
            int t = it->second;
            if (!w.sched.parked(t) || w.sched.pending_after(t)) break;
            const auto &e = w.sched.pending(t);
            if (e.op != op_t::load && e.op != op_t::conv) break;
            if (pend_of(w, kv.first, w.rkind.count(kv.first) != 0) == kv.second.as_str()) break;
            w.sched.step(t);
            if (w.fine && w.sched.parked(t) && w.sched.pending_after(t)) w.sched.step(t);   // the local code after it
        }
    }
}

static void run_one_body(const Scenario &sc, Reporter &rep, Explore *ex);

static void run_one(const Scenario &sc, Reporter &rep, Explore *ex) {
#ifdef PAYLOAD_TRK
    long c0 = Trk::ctors, d0 = Trk::dtors;
#endif
    run_one_body(sc, rep, ex);
#ifdef PAYLOAD_TRK
    // everything is torn down: every payload instance that was constructed has been destroyed
    if (!rep.failed() && Trk::ctors - c0 != Trk::dtors - d0)
        rep.diverge(sc.steps.empty() ? 0 : sc.steps.size() - 1, "payload instances constructed=" + std::to_string(Trk::ctors - c0) + " destroyed=" + std::to_string(Trk::dtors - d0) + " after the future and the promise are gone");
#endif
}

static void run_one_body(const Scenario &sc, Reporter &rep, Explore *ex) {
    World w;
#ifdef PAYLOAD_TRK
    w.live0 = Trk::mv_ctors - Trk::mv_dtors;
#endif
    for (auto &kv : sc.hdr.at("R").m) { w.rkind[kv.first] = kv.second.s; w.rres[kv.first] = "none"; w.argrep[kv.first]; w.ovw_stage[kv.first] = 0; w.scopes[kv.first]; w.moves[kv.first] = 0; }
    for (auto &kv : sc.hdr.at("W").m) { w.wkind[kv.first] = kv.second.s; w.recs[kv.first]; w.scopes[kv.first]; if (kv.second.s == "mp") w.mp = true; }
    w.fine = sc.hdr.at("fine").as_bool(false);
    w.form = (int) sc.hdr.at("form").as_int(0) + (ex ? (int) (ex->next() % 6) : 0);
    w.sched.yield_after = w.fine;
    // how the future under test comes into being: default + get_promise(), or re-armed in place through operator<< /
    // result_of from a function that returns a pending future; header "pre": from a function that returns a READY
    // future (value / exception / dropped promise) or that THROWS (result_of stores the exception and resolves)
    std::string pre = sc.hdr.at("pre").as_str("none");
    if (w.mp) {
        // a callback-promise: make_promise<T>(fn) / make_promise<T>(fn, storage); fn(future<T>&) is the only observer and
        // runs when the promise is resolved OR broken; the future deletes itself afterwards (future.h:878-940)
        std::string name;
        for (auto &kv : w.wkind) if (kv.second == "mp") name = kv.first;
        World *pw = &w;
        Rec *rec = &w.recs[name];
        auto cb = [pw, rec](cocls::future<Payload> &f) {
            stored_result(*pw, f, pw->mp_tag, pw->mp_payload);
            read_result_of(*pw, f, *rec);
            rec->resumes++;
            rec->done = true;
            pw->mp_gone = true;
        };
#ifndef PAYLOAD_ALIGN
        // (a storage hands out blocks of the default alignment only: no over-aligned future in it)
        if (w.form % 2 == 1) w.p = new cocls::promise<Payload>(cocls::make_promise<Payload>(std::move(cb), w.mp_storage));
        else
#endif
        w.p = new cocls::promise<Payload>(cocls::make_promise<Payload>(std::move(cb)));
        w.fp = ((*w.p).*PProbe::owner_mp()).verif_peek();
        // its own awaiter node sits in the slot from the start
        w.node_of[(std::uint64_t) reinterpret_cast<std::uintptr_t>(((*w.fp).*FProbe::slot_mp()).verif_peek())] = name;
    } else if (pre == "none") {
        if (w.form % 2 == 0) w.p = new cocls::promise<Payload>(w.fut.get_promise());
        else w.fut << [&]() -> cocls::future<Payload> { return cocls::future<Payload>([&](cocls::promise<Payload> p) { w.p = new cocls::promise<Payload>(std::move(p)); }); };
    } else {
        if (pre == "exc_throw") w.fut << [&]() -> cocls::future<Payload> { throw TestExc(0); };
        else if (pre == "exc") w.fut << [&]() -> cocls::future<Payload> { return cocls::future<Payload>::set_exception(std::make_exception_ptr(TestExc(0))); };
        else if (pre == "val") w.fut << [&]() -> cocls::future<Payload> { return cocls::future<Payload>::set_value(MAKE_ARG(0)); };
        else if (pre == "novalue") w.fut << [&]() -> cocls::future<Payload> { return cocls::future<Payload>::set_not_value(); };   // born "ready, no value"
        else w.fut << [&]() -> cocls::future<Payload> { return cocls::future<Payload>([&](cocls::promise<Payload>) {}); };   // "drop"
        w.p = new cocls::promise<Payload>();     // an empty promise object: nothing to resolve
    }
    w.p_owner_addr = &((*w.p).*PProbe::owner_mp());
    w.slot_addr = &((*w.fp).*FProbe::slot_mp());
    w.copies0 = payload_copies();
    w.bind = sc.hdr.at("bind").as_bool(false);
    if (w.sched.record_motable) {
        cocls_verif::motable::get().label(w.slot_addr, sizeof(void *), "future.slot");
        cocls_verif::motable::get().label(w.p_owner_addr, sizeof(void *), "promise.owner");
    }
#ifndef PAYLOAD_REF
    // bind form: the promise is moved into the closure returned by bind(args...) before the threads start; the value
    // resolver later just calls the closure.  Allocations made by bind() itself are the library's.
#ifdef PAYLOAD_TRK
    // the observed argument is the instance that ends up inside the closure
    Trk::transfer_rep = true;
    auto make_bound = [&](int who) { return w.p->bind(Payload(who, &w.bind_rep)); };
#else
    auto make_bound = [&](int who) { return w.p->bind(Payload(who)); };
#endif
    using Bound = decltype(make_bound(0));
    std::optional<Bound> bound;
    if (w.bind) {
        int who = 0;
        for (auto &kv : w.rkind) if (kv.second == "val") who = atoi(kv.first.c_str() + 1);
        long n0 = alloc_stats::news;
        bound.emplace(make_bound(who));
        w.allocs += alloc_stats::news - n0;
        w.p_owner_addr = nullptr;       // learned from the resolver's first pending operation
        w.call_bound = [&bound] { return (bool) (*bound)(); };
        w.drop_bound = [&bound, pw = &w] { bound.reset(); pw->bound_dead = true; };
    }
#ifdef PAYLOAD_TRK
    Trk::transfer_rep = false;
#endif
    cocls::async<Payload> *fin = nullptr;
    std::optional<cocls::async<Payload>> fin_store;
    for (auto &kv : w.rkind) if (kv.second == "final") {
        fin_store.emplace(final_coro(atoi(kv.first.c_str() + 1)));
        fin = &*fin_store;
        w.final_sp.reset(new cocls::suspend_point<bool>(fin->start(*w.p)));
    }
#else
    struct NoBound { void reset() {} explicit operator bool() const { return false; } } bound;
#endif
    // future::value() on a no-value future calls pending() (a relaxed load of the slot) only to choose
    // between value_not_ready_exception and await_canceled_exception; the waiter's observation is in
    // the projection, so the load needs no scheduling point of its own.
    w.sched.no_yield = [](const cocls_verif::event &e) {
        return (e.op == op_t::load) && strstr(e.func, "future_common::pending(") != nullptr;
    };
    w.sched.install();
    // spawn threads in name order; each runs up to its first atomic operation
    for (auto &kv : w.rkind) {
        std::string name = kv.first, kind = kv.second;
        int who = atoi(name.c_str() + 1);
        World *pw = &w;
        int form = w.form + who;
        w.tid[name] = w.sched.spawn([pw, name, kind, who, form] {
            World &w = *pw;
            warm_thread();
            cur_reg = &w.scopes[name];
#ifdef PAYLOAD_TRK
            Trk::cur_moves = &w.moves[name];
#endif
            if (kind == "val") {
                bool b;
#ifndef PAYLOAD_REF
                if (!w.bind && form % 3 == 2) {
                    // a coroutine started with the promise: async::start(promise&) claims it; only the claimer starts the body,
                    // whose co_return stores the value and whose final suspend resolves the future
                    auto c = final_coro(who, &w.argrep[name]);                  // the user's frame (outside the library scope)
                    { lib_scope s; b = (bool) c.start(*w.p); }
                } else
#endif
#ifdef PAYLOAD_TRK
                if (!w.bind) {
                    // the caller's own object, passed as an rvalue: a refused call must leave it alone
                    Payload arg(who, &w.argrep[name]);
                    lib_scope s;
                    if (form % 2 == 0) b = (*w.p)(std::move(arg)); else b = w.p->set_value(std::move(arg));
                } else
#endif
                { lib_scope s; if (w.bind) b = w.call_bound(); else if (form % 2 == 0) b = (*w.p)(MAKE_ARG(who)); else b = w.p->set_value(MAKE_ARG(who)); }
                w.rres[name] = b ? "true" : "false";
            } else if (kind == "exc") {
                bool b;
                if (form % 3 == 2) {
                    // the form a coroutine's promise_type uses: inside a handler
                    try { throw TestExc(who); } catch (...) { lib_scope s; b = w.p->unhandled_exception(); }
                } else {
                    auto e = std::make_exception_ptr(TestExc(who));
                    lib_scope s;
                    if (form % 3 == 0) b = (*w.p)(e); else b = w.p->set_exception(e);
                }
                w.rres[name] = b ? "true" : "false";
            } else if (kind == "drop") {
                bool b;
                { lib_scope s; if (form % 2 == 0) b = (*w.p)(cocls::drop); else b = w.p->set_value(cocls::drop); }
                w.rres[name] = b ? "true" : "false";
            } else if (kind == "mdes") {
                lib_scope s;
                cocls::promise<Payload> q(std::move(*w.p));
            } else if (kind == "masg") {
                lib_scope s;
                cocls::promise<Payload> q;
                { alloc_pause np; w.q_owner_addr[name] = &(q.*PProbe::owner_mp()); }
                q = std::move(*w.p);
            } else if (kind == "ovw") {
                // another (empty) promise is move-assigned OVER p: p's pending future is dropped first
                vsched::mark("ovw");
                lib_scope s;
                cocls::promise<Payload> q;          // a named object that outlives the assignment
                { alloc_pause np; w.q_owner_addr[name] = &(q.*PProbe::owner_mp()); }
                *w.p = std::move(q);
                w.ovw_stage[name] = 1;
                // the moved-from source is empty: calling it is refused and changes nothing
                bool b;
#if defined(PAYLOAD_TRK)
                { Payload arg(who, &w.argrep[name]); b = form % 2 == 0 ? (bool) q(std::move(arg)) : (bool) q.set_value(std::move(arg)); }
#else
                b = form % 2 == 0 ? (bool) q(MAKE_ARG(who)) : (bool) q.set_value(MAKE_ARG(who));
#endif
                w.rres[name] = b ? "true" : "false";
            } else if (kind == "dtor") {
                vsched::mark("dtor");
                lib_scope s;
                if (w.bind) w.drop_bound();      // the closure returned by bind() dies (uncalled, or after its call)
                else { delete w.p; w.p = nullptr; }
            } else if (kind == "final") {
                lib_scope s;
                w.final_sp.reset();   // releases the started coroutine: body runs here and completes
            }
            w.allocs += lib_allocs; lib_allocs = 0;
        });
    }
    for (auto &kv : w.wkind) {
        std::string name = kv.first, kind = kv.second;
        World *pw = &w;
        int form = w.form + atoi(name.c_str() + 1);
        if (kind == "mp") continue;      // the callback was installed by make_promise
        if (kind == "cb") {
            if (form % 2 == 0) {
                w.cbs[name].reset(new CbAwaiter());
                w.cbs[name]->world = pw;
                w.cbs[name]->rec = &w.recs[name];
                w.cbnode[name] = w.cbs[name].get();
            } else {
                w.fnaw[name].reset(new cocls::co_awaiter<cocls::future<Payload>>(w.fp->operator co_await()));
                w.fnctx[name] = World::FnCtx{pw, &w.recs[name]};
                w.cbnode[name] = w.fnaw[name].get();
            }
        }
        w.tid[name] = w.sched.spawn([pw, name, kind, form] {
            World &w = *pw;
            warm_thread();
            cur_reg = &w.scopes[name];
            Rec &r = w.recs[name];
            if (kind == "co") {
                auto c = co_waiter(w, r);          // frame allocation is the user's (outside lib scope)
                lib_scope s;
                c.detach();
            } else if (kind == "hv") {
                auto c = hv_waiter(w, r);
                lib_scope s;
                c.detach();
            } else if (kind == "bl") {
                {
                    // every blocking entry point: sync(), force_sync(), wait(), force_wait()
                    lib_scope s;
                    switch (form % 4) {
                        case 0: w.fut.sync(); break;
                        case 1: w.fut.force_sync(); break;
                        case 2: try { (void) w.fut.wait(); } catch (...) {} break;
                        default: try { (void) w.fut.force_wait(); } catch (...) {} break;
                    }
                }
                read_result(w, r);
                r.resumes++;
                r.done = true;
            } else if (kind == "cb") {
                lib_scope s;
                if (form % 2 == 0) {
                    CbAwaiter *cb = w.cbs[name].get();
                    if (!w.fut.operator co_await().subscribe(cb)) cb->resume();
                } else {
                    // suspend-with-function form (used by parallel(), immediately(), co_await pool(x))
                    auto *aw = w.fnaw[name].get();
                    if (!aw->await_suspend(&fn_fire, &w.fnctx[name])) fn_fire(aw, &w.fnctx[name]);
                }
            }
            w.allocs += lib_allocs; lib_allocs = 0;
        });
    }
    bool bad = false;
    (void) project(w);   // learn the awaiter node addresses of threads already parked at their CAS
    if (ex) {
        std::vector<std::string> names;
        for (auto &kv : w.rkind) names.push_back(kv.first);
        for (auto &kv : w.wkind) if (kv.second != "mp") names.push_back(kv.first);
        for (;;) {
            std::vector<std::string> en;
            for (auto &n : names) if (w.sched.enabled(w.tid[n])) {
                // the final destructor of the promise object is only legal once nobody uses the object any more
                if (w.rkind.count(n) && pend_of(w, n, true) == "dtor") {
                    bool others_done = true;
                    for (auto &kv : w.rkind) if (kv.second != "dtor" && !w.sched.done(w.tid[kv.first])) others_done = false;
                    if (!others_done) continue;
                }
                // ... and so is an assignment over it
                if (w.rkind.count(n) && pend_of(w, n, true) == "ovw") {
                    bool free_now = true;
                    for (auto &kv : w.rkind) {
                        if (kv.second == "dtor" || kv.first == n) continue;
                        bool fin = w.sched.done(w.tid[kv.first]);
                        if (kv.second == "ovw" ? !(fin || pend_of(w, kv.first, true) == "ovw") : !fin) free_now = false;
                    }
                    if (!free_now) continue;
                }
                en.push_back(n);
            }
            if (en.empty()) break;
            const std::string &n = en[ex->next() % en.size()];
            std::string act = action_of(pend_of(w, n, w.rkind.count(n) != 0));
            w.sched.step(w.tid[n]);
            fprintf(ex->out, "{\"a\":\"%s\",\"t\":\"%s\",\"p\":%s}\n", act.c_str(), n.c_str(), project(w).dump().c_str());
        }
        if (!w.sched.all_done()) fprintf(ex->out, "{\"a\":\"Deadlock\",\"t\":\"none\",\"p\":%s}\n", project(w).dump().c_str());
        fprintf(ex->out, "{\"a\":\"Reset\",\"t\":\"none\",\"p\":{}}\n");
    }
    for (std::size_t k = 0; !ex && k < sc.steps.size() && !bad; k++) {
        const Step &st = sc.steps[k];
        auto it = w.tid.find(st.sarg(0));
        if (it == w.tid.end()) { rep.error(k, "unknown thread"); bad = true; break; }
        int t = it->second;
        if (!w.sched.enabled(t)) {
            rep.diverge(k, "thread not enabled in the implementation (" + std::string(w.sched.done(t) ? "finished" : "blocked") + ") got=" + project(w).dump());
            bad = true;
            break;
        }
        // the acting thread may be parked at an unexpected pure load (see absorb_extra_loads): run it first
        if (st.name != "CheckReady" && st.name != "DLoad")
            for (int i = 0; i < 2 && w.sched.parked(t) && !w.sched.pending_after(t) && (w.sched.pending(t).op == op_t::load || w.sched.pending(t).op == op_t::conv); i++) {
                w.sched.step(t);
                if (w.fine && w.sched.parked(t) && w.sched.pending_after(t)) w.sched.step(t);
            }
        (void) project(w);      // (learn the awaiter node address if the thread now waits at its CAS)
        if (!w.sched.enabled(t)) { rep.diverge(k, "thread not enabled after an absorbed load got=" + project(w).dump()); bad = true; break; }
        w.sched.step(t);
        absorb_extra_loads(w, st.expected);
        if (!rep.check(k, project(w))) bad = true;
    }
    // finish whatever is left (only after a divergence; paths end in terminal states)
    bool drained = w.sched.drain();
    if (!drained && !bad) rep.diverge(sc.steps.size() - 1, "deadlock: threads blocked at the end of the schedule got=" + project(w).dump());
    if (drained && !bad && !ex) {
        for (auto &kv : w.wkind) {
            Rec &r = w.recs[kv.first];
            if (!r.done || r.resumes != 1) { rep.diverge(sc.steps.size() - 1, "waiter " + kv.first + " not released exactly once at the end"); break; }
        }
    }
    w.sched.uninstall();
    if (!drained) {
        // cannot unwind safely (blocked threads reference the world)
        fflush(stdout);
        _exit(1);
    }
    w.sched.join_all();
    if (w.p) { delete w.p; w.p = nullptr; }
    if (!w.fut.ready()) {
        // never resolved (no resolver in the scenario): resolve to allow destruction of parked coroutines
    }
}

static void run(const Scenario &sc, Reporter &rep) {
    if (!sc.hdr.has("explore")) { run_one(sc, rep, nullptr); return; }
    const JV &e = sc.hdr.at("explore");
    FILE *f = fopen(e.at("out").as_str().c_str(), "w");
    if (!f) { rep.error(0, "cannot open trace output"); return; }
    Explore ex{f, (std::uint64_t) e.at("seed").as_int(1) * 2654435761ULL + 88172645463325252ULL};
    for (long i = 0; i < e.at("runs").as_int(1); i++) run_one(sc, rep, &ex);
    fclose(f);
}

int main() {
    return replay_main(std::cin, run);
}
