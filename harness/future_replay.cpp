// future_replay.cpp -- replays schedules of spec/Future/Future.tla on the real
// cocls::future<int>/promise<int> with real threads under the controlled scheduler.
//
// header: {"R":{"r1":"val",...}, "W":{"w1":"co",...}}
//   resolver kinds: val exc drop mdes dtor final ; waiter kinds: co hv bl cb
// step label: Action(thread)
// projection after each step:
//   {"allocs":n,"chain":"ready"|[waiters from top],"owner":"fut"|"null","pend":{thread:pc},
//    "res":{resolver:"none"|"true"|"false"},"resumes":{w:n},"seen":{w:{"tag","payload"}},"tag","payload"}
#define REPLAY_COUNT_ALLOCS
#include <cocls/future.h>
#include <cocls/async.h>
#include <cocls_verif/vsched.h>
#include "replay_common.h"

#include <optional>
#include <functional>

using namespace rp;
using cocls_verif::vsched;
using cocls_verif::op_t;

struct TestExc : std::exception { int who; explicit TestExc(int w) : who(w) {} };

// ---- payload: int (default) or, with -DPAYLOAD_BIG, a 64-byte tracked object: every byte carries the resolver's
// identity (integrity is checked by every reader), copies are counted (the library never needs to copy a payload that
// is constructed in place and read by reference), and it does not fit the small buffers of type-erasing wrappers
#if defined(PAYLOAD_REF)
// future<int&>: the resolver passes an lvalue, the future stores its address (state value_ref)
using Payload = int &;
static int g_refs[64];
static const bool g_refs_init = [] { for (int i = 0; i < 64; i++) g_refs[i] = i; return true; }();
#define MAKE_ARG(who) g_refs[who]
static int who_of(int v) { return v; }
static long payload_copies() { return 0; }
#elif defined(PAYLOAD_BIG)
#define MAKE_ARG(who) who
struct Big {
    int who;
    unsigned char pad[60];
    static inline std::atomic<long> copies{0};
    Big(int w) : who(w) { memset(pad, (unsigned char) w, sizeof pad); }
    Big(const Big &o) : who(o.who) { memcpy(pad, o.pad, sizeof pad); copies++; }
    Big(Big &&o) noexcept : who(o.who) { memcpy(pad, o.pad, sizeof pad); }
    Big &operator=(const Big &o) { who = o.who; memcpy(pad, o.pad, sizeof pad); copies++; return *this; }
    Big &operator=(Big &&o) noexcept { who = o.who; memcpy(pad, o.pad, sizeof pad); return *this; }
};
using Payload = Big;
static int who_of(const Big &b) {
    for (unsigned char c : b.pad) if (c != (unsigned char) b.who) return 9000 + b.who;   // torn / garbage payload
    return b.who;
}
static long payload_copies() { return Big::copies.load(); }
#else
#define MAKE_ARG(who) who
using Payload = int;
static int who_of(int v) { return v; }
static long payload_copies() { return 0; }
#endif

// ---- probes: read protected state through pointers to members obtained via a derived class ------
struct FProbe : cocls::future<Payload> {
    static auto slot_mp() { return &FProbe::_awaiter; }
    static auto state_mp() { return &FProbe::_state; }
    static auto value_mp() { return &FProbe::_value; }
    static auto exc_mp() { return &FProbe::_exception; }
    static auto ptr_mp() { return &FProbe::_ptr_value; }
};
struct PProbe : cocls::promise<Payload> {
    static auto owner_mp() { return &PProbe::_owner; }
};

static thread_local long lib_allocs = 0;   // operator new calls inside library calls, per thread
struct lib_scope {
    long start;
    lib_scope() : start(alloc_stats::news) {}
    ~lib_scope() { lib_allocs += alloc_stats::news - start; }
};

// The thread-local ready queue (std::deque) is constructed lazily once per thread; that one-time
// per-thread initialisation is not attributed to any future/promise operation (C20).
static void warm_thread() { (void) cocls::coro_queue::queue_impl::instance._queue.size(); }

struct Rec {
    std::string tag = "unread";
    std::string payload = "unread";
    int resumes = 0;
    bool done = false;
};

struct World;
static void read_result(World &w, Rec &r);

struct CbAwaiter : cocls::awaiter {
    World *world = nullptr;
    Rec *rec = nullptr;
    CbAwaiter() { set_resume_fn(&CbAwaiter::fire, this); }
    static cocls::suspend_point<void> fire(cocls::awaiter *me, void *) noexcept {
        auto self = static_cast<CbAwaiter *>(me);
        read_result(*self->world, *self->rec);
        self->rec->resumes++;
        self->rec->done = true;
        return {};
    }
};

struct World {
    cocls::future<Payload> fut;
    cocls::promise<Payload> *p = nullptr;   // heap object: alive until its destructor has returned
    const void *p_owner_addr = nullptr;
    bool fine = false;      // finest grain (FutureFine.tla): yield before AND after every atomic operation
    std::map<std::string, const void *> q_owner_addr;   // masg: the assigned-to promise of each such thread
    std::map<std::string, std::string> rkind, wkind;
    std::map<std::string, int> tid;          // thread name -> vsched id
    std::map<std::string, std::string> rres;
    std::map<std::string, Rec> recs;
    std::map<std::string, std::unique_ptr<CbAwaiter>> cbs;
    // API-form rotation: the same specification action is reached through different public entry points that are
    // documented as equivalent (promise(x) / set_value(x) / set_exception(e) / unhandled_exception();
    // subscribe(awaiter*) / co_awaiter::await_suspend(resume_fn, void*)); form = header "form" + index of the thread
    int form = 0;
    bool bound_dead = false;
    bool bind = false;      // the (single) value resolver goes through promise::bind(args...)()
    long copies0 = 0;
    std::function<bool()> call_bound;
    std::function<void()> drop_bound;
    struct FnCtx { World *world; Rec *rec; };
    std::map<std::string, std::unique_ptr<cocls::co_awaiter<cocls::future<Payload>>>> fnaw;   // cb waiters, form 1
    std::map<std::string, FnCtx> fnctx;
    std::map<std::string, cocls::awaiter *> cbnode;   // the awaiter node of every cb waiter (either form)
    std::map<std::uint64_t, std::string> node_of;   // awaiter node address -> waiter
    std::atomic<long> allocs{0};
    vsched sched;
    std::unique_ptr<cocls::suspend_point<bool>> final_sp;
    std::string payload_name(int who) {
        if (who == 0) return "pre";      // resolved before the threads started (header "pre")
        for (auto &kv : rkind) if (atoi(kv.first.c_str() + 1) == who) return kv.first;
        return "r?" + std::to_string(who);
    }
};

static void read_result(World &w, Rec &r) {
    try {
        const Payload &v = w.fut.value();
        r.tag = "val";
        r.payload = w.payload_name(who_of(v));
    } catch (const TestExc &e) {
        r.tag = "exc";
        r.payload = w.payload_name(e.who);
    } catch (const cocls::await_canceled_exception &) {
        r.tag = "none";
        r.payload = "none";
    } catch (const cocls::value_not_ready_exception &) {
        r.tag = "notready";
        r.payload = "notready";
    }
}

static cocls::suspend_point<void> fn_fire(cocls::awaiter *, void *ctx) noexcept {
    auto c = static_cast<World::FnCtx *>(ctx);
    read_result(*c->world, *c->rec);
    c->rec->resumes++;
    c->rec->done = true;
    return {};
}

static cocls::async<void> co_waiter(World &w, Rec &r) {
    try {
        const Payload &v = co_await w.fut;
        r.tag = "val";
        r.payload = w.payload_name(who_of(v));
    } catch (const TestExc &e) {
        r.tag = "exc";
        r.payload = w.payload_name(e.who);
    } catch (const cocls::await_canceled_exception &) {
        r.tag = "none";
        r.payload = "none";
    }
    r.resumes++;
    r.done = true;
}

static cocls::async<void> hv_waiter(World &w, Rec &r) {
    bool has = co_await w.fut.has_value();
    read_result(w, r);
    if (has != (r.tag != "none")) r.tag = "hv_mismatch";
    r.resumes++;
    r.done = true;
}

#ifndef PAYLOAD_REF
static cocls::async<Payload> final_coro(int who) {
    co_return Payload(who);
}
#endif

static std::string pend_site(World &w, const std::string &name, bool resolver);

static std::string pend_of(World &w, const std::string &name, bool resolver) {
    int t = w.tid[name];
    if (w.sched.done(t)) {
        if (resolver || w.fine) return "done";
        return w.recs[name].done ? "done" : "parked";
    }
    std::string site = pend_site(w, name, resolver);
    if (!w.fine) return site;
    return std::string(w.sched.pending_after(t) ? "post:" : "pre:") + site;
}

static std::string pend_site(World &w, const std::string &name, bool resolver) {
    (void) resolver;
    int t = w.tid[name];
    const auto &e = w.sched.pending(t);
    // classification by operation kind and by WHICH atomic object is touched (robust against renamed or
    // restructured functions): the future's awaiter slot, the promise's owner pointer, anything else
    const void *slot = &(w.fut.*FProbe::slot_mp());
    const void *owner = w.p_owner_addr;
    switch (e.op) {
        case op_t::mark: return e.tag;
        case op_t::xchg:
            if (e.obj == slot) return "swap";
            if (e.obj == owner) return "claim";
            if (w.q_owner_addr.count(name) && e.obj == w.q_owner_addr[name]) return "mclaim_own";
            break;
        case op_t::load: case op_t::conv:
            if (e.obj == slot) return "check";
            return "dload";                       // a promise's owner pointer (p itself or a moved-to promise)
        case op_t::store: case op_t::assign:
            if (w.q_owner_addr.count(name) && e.obj == w.q_owner_addr[name]) return "massign";
            if (e.obj != slot && e.obj != owner) return "flagstore";
            break;
        case op_t::notify: return "notify";
        case op_t::cas:
            if (e.obj == slot) return "cas";
            break;
        case op_t::fence: return "fence";
        case op_t::wait: return "wait";
        default: break;
    }
    return std::string("?") + cocls_verif::op_name(e.op) + "@" + e.func;
}

static J project(World &w) {
    J m = J::map();
    m.set("allocs", (long) w.allocs.load());
    m.set("copies", payload_copies() - w.copies0);
    // owner
    std::string owner = "null";
    using OwnerAtomic = std::remove_reference_t<decltype((*w.p).*PProbe::owner_mp())>;
    if (w.bind && !w.p_owner_addr) {
        // the promise was moved into the closure returned by bind(): its owner pointer is the object of the resolver's
        // first atomic operation (the claiming exchange)
        for (auto &kv : w.rkind) {
            int t = w.tid[kv.first];
            auto op = w.sched.pending(t).op;
            if (w.sched.parked(t) && !w.sched.pending_after(t) && (op == op_t::xchg || op == op_t::load || op == op_t::conv) && w.sched.pending(t).obj != &(w.fut.*FProbe::slot_mp()))
                w.p_owner_addr = w.sched.pending(t).obj;
        }
    }
    if (w.bind && w.bound_dead) owner = "null";
    else if (w.bind) owner = w.p_owner_addr ? (static_cast<const OwnerAtomic *>(w.p_owner_addr)->verif_peek() ? "fut" : "null") : "fut";
    else if (w.p) owner = ((*w.p).*PProbe::owner_mp()).verif_peek() ? "fut" : "null";
    m.set("owner", owner);
    // learn node addresses from pending CAS operations
    for (auto &kv : w.wkind) {
        int t = w.tid[kv.first];
        if (w.sched.parked(t) && !w.sched.pending_after(t) && w.sched.pending(t).op == op_t::cas) w.node_of[w.sched.pending(t).arg] = kv.first;
    }
    // chain
    cocls::awaiter *top = (w.fut.*FProbe::slot_mp()).verif_peek();
    if (top == &cocls::awaiter::disabled) m.set("chain", "ready");
    else {
        J ch = J::list();
        int fuel = 16;
        for (cocls::awaiter *n = top; n && fuel--; n = n->_next) {
            if (n == &cocls::awaiter::disabled || n == &cocls::awaiter::instance) { ch.push("sentinel"); break; }
            auto it = w.node_of.find((std::uint64_t) reinterpret_cast<std::uintptr_t>(n));
            ch.push(it == w.node_of.end() ? std::string("unknown") : it->second);
        }
        m.set("chain", ch);
    }
    // stored result
    auto st = w.fut.*FProbe::state_mp();
    using S = cocls::future_common::State;
    if (st == S::not_value) { m.set("tag", "none"); m.set("payload", "none"); }
#ifdef PAYLOAD_REF
    else if (st == S::value_ref) { m.set("tag", "val"); m.set("payload", w.payload_name(who_of(*(w.fut.*FProbe::ptr_mp())))); }
    // future<T&>::set_value(lvalue) (a future that is born resolved) keeps the address in the value slot: state `value`, and
    // value() dereferences it (future.h:245-262, :351)
    else if (st == S::value) { m.set("tag", "val"); m.set("payload", w.payload_name(who_of(*(w.fut.*FProbe::value_mp())))); }
#else
    else if (st == S::value) { m.set("tag", "val"); m.set("payload", w.payload_name(who_of(w.fut.*FProbe::value_mp()))); }
#endif
    else if (st == S::exception) {
        m.set("tag", "exc");
        try { std::rethrow_exception(w.fut.*FProbe::exc_mp()); }
        catch (const TestExc &e) { m.set("payload", w.payload_name(e.who)); }
        catch (...) { m.set("payload", "other"); }
    } else { m.set("tag", "other"); m.set("payload", "other"); }
    J pend = J::map(), res = J::map(), resumes = J::map(), seen = J::map();
    for (auto &kv : w.rkind) {
        pend.set(kv.first, pend_of(w, kv.first, true));
        res.set(kv.first, w.rres[kv.first]);
    }
    for (auto &kv : w.wkind) {
        pend.set(kv.first, pend_of(w, kv.first, false));
        Rec &r = w.recs[kv.first];
        resumes.set(kv.first, r.resumes);
        J s = J::map();
        s.set("tag", r.tag);
        s.set("payload", r.payload);
        seen.set(kv.first, s);
    }
    // the callback awaiters are harness-owned objects that outlive their subscription: their _next link is
    // observable at any time (a reusable awaiter must be left with a clean link after release / refusal)
    J cbnext = J::map();
    for (auto &kv : w.cbnode) {
        cocls::awaiter *n = kv.second->_next;
        std::string nm = "null";
        if (n == &cocls::awaiter::disabled) nm = "ready";
        else if (n != nullptr) {
            auto it = w.node_of.find((std::uint64_t) reinterpret_cast<std::uintptr_t>(n));
            nm = it == w.node_of.end() ? std::string("unknown") : it->second;
        }
        cbnext.set(kv.first, nm);
    }
    m.set("cbnext", cbnext);
    m.set("pend", pend);
    m.set("res", res);
    m.set("resumes", resumes);
    m.set("seen", seen);
    return m;
}

// exploration mode (code -> spec direction): random schedules on the real code, every step logged as
// one ndjson line {"a":action,"t":thread,"p":projection}; runs are separated by {"a":"Reset"}.  The log is
// validated by TLC against spec/Future/FutureTrace.tla.
struct Explore {
    FILE *out;
    std::uint64_t rng;
    std::uint64_t next() { rng ^= rng << 13; rng ^= rng >> 7; rng ^= rng << 17; return rng; }
};

static const char *action_of(const std::string &pend) {
    if (pend == "claim") return "Claim";
    if (pend == "dtor") return "DtorStart";
    if (pend == "mclaim_own") return "MClaimOwn";
    if (pend == "massign") return "MAssign";
    if (pend == "dload") return "DLoad";
    if (pend == "swap") return "SwapReady";
    if (pend == "flagstore") return "FlagStore";
    if (pend == "notify") return "Notify";
    if (pend == "check") return "CheckReady";
    if (pend == "cas") return "SubCAS";
    if (pend == "fence") return "Fence";
    if (pend == "wait") return "FlagWait";
    return "Unknown";
}


// A pure atomic LOAD that the specification does not expect at this point (e.g. an added consistency check or a
// re-read) cannot by itself change the protocol state: it is executed silently (at most twice per thread and step) so
// that a behaviour-preserving extra load does not raise an alarm; whatever the thread does with the loaded value still
// has to match the specification afterwards.
static void absorb_extra_loads(World &w, const std::string &expected) {
    JV exp = JReader(expected).parse();
    const JV &pend = exp.at("pend");
    for (auto &kv : pend.m) {
        auto it = w.tid.find(kv.first);
        if (it == w.tid.end()) continue;
        for (int i = 0; i < 2; i++) {
            int t = it->second;
            if (!w.sched.parked(t) || w.sched.pending_after(t)) break;
            const auto &e = w.sched.pending(t);
            if (e.op != op_t::load && e.op != op_t::conv) break;
            if (pend_of(w, kv.first, w.rkind.count(kv.first) != 0) == kv.second.as_str()) break;
            w.sched.step(t);
            if (w.fine && w.sched.parked(t) && w.sched.pending_after(t)) w.sched.step(t);   // the local code after it
        }
    }
}

static void run_one(const Scenario &sc, Reporter &rep, Explore *ex) {
    World w;
    for (auto &kv : sc.hdr.at("R").m) { w.rkind[kv.first] = kv.second.s; w.rres[kv.first] = "none"; }
    for (auto &kv : sc.hdr.at("W").m) { w.wkind[kv.first] = kv.second.s; w.recs[kv.first]; }
    w.fine = sc.hdr.at("fine").as_bool(false);
    w.form = (int) sc.hdr.at("form").as_int(0) + (ex ? (int) (ex->next() % 6) : 0);
    w.sched.yield_after = w.fine;
    // how the future under test comes into being: default + get_promise(), or re-armed in place through operator<< /
    // result_of from a function that returns a pending future; header "pre": from a function that returns a READY
    // future (value / exception / dropped promise) or that THROWS (result_of stores the exception and resolves)
    std::string pre = sc.hdr.at("pre").as_str("none");
    if (pre == "none") {
        if (w.form % 2 == 0) w.p = new cocls::promise<Payload>(w.fut.get_promise());
        else w.fut << [&]() -> cocls::future<Payload> { return cocls::future<Payload>([&](cocls::promise<Payload> p) { w.p = new cocls::promise<Payload>(std::move(p)); }); };
    } else {
        if (pre == "exc_throw") w.fut << [&]() -> cocls::future<Payload> { throw TestExc(0); };
        else if (pre == "exc") w.fut << [&]() -> cocls::future<Payload> { return cocls::future<Payload>::set_exception(std::make_exception_ptr(TestExc(0))); };
        else if (pre == "val") w.fut << [&]() -> cocls::future<Payload> { return cocls::future<Payload>::set_value(MAKE_ARG(0)); };
        else w.fut << [&]() -> cocls::future<Payload> { return cocls::future<Payload>([&](cocls::promise<Payload>) {}); };   // "drop"
        w.p = new cocls::promise<Payload>();     // an empty promise object: nothing to resolve
    }
    w.p_owner_addr = &((*w.p).*PProbe::owner_mp());
    w.copies0 = payload_copies();
    w.bind = sc.hdr.at("bind").as_bool(false);
    if (w.sched.record_motable) {
        cocls_verif::motable::get().label(&(w.fut.*FProbe::slot_mp()), sizeof(void *), "future.slot");
        cocls_verif::motable::get().label(w.p_owner_addr, sizeof(void *), "promise.owner");
    }
#ifndef PAYLOAD_REF
    // bind form: the promise is moved into the closure returned by bind(args...) before the threads start; the value
    // resolver later just calls the closure.  Allocations made by bind() itself are the library's.
    auto make_bound = [&](int who) { return w.p->bind(Payload(who)); };
    using Bound = decltype(make_bound(0));
    std::optional<Bound> bound;
    if (w.bind) {
        int who = 0;
        for (auto &kv : w.rkind) if (kv.second == "val") who = atoi(kv.first.c_str() + 1);
        long n0 = alloc_stats::news;
        bound.emplace(make_bound(who));
        w.allocs += alloc_stats::news - n0;
        w.p_owner_addr = nullptr;       // learned from the resolver's first pending operation
        w.call_bound = [&bound] { return (bool) (*bound)(); };
        w.drop_bound = [&bound, pw = &w] { bound.reset(); pw->bound_dead = true; };
    }
    cocls::async<Payload> *fin = nullptr;
    std::optional<cocls::async<Payload>> fin_store;
    for (auto &kv : w.rkind) if (kv.second == "final") {
        fin_store.emplace(final_coro(atoi(kv.first.c_str() + 1)));
        fin = &*fin_store;
        w.final_sp.reset(new cocls::suspend_point<bool>(fin->start(*w.p)));
    }
#else
    struct NoBound { void reset() {} explicit operator bool() const { return false; } } bound;
#endif
    // future::value() on a no-value future calls pending() (a relaxed load of the slot) only to choose
    // between value_not_ready_exception and await_canceled_exception; the waiter's observation is in
    // the projection, so the load needs no scheduling point of its own.
    w.sched.no_yield = [](const cocls_verif::event &e) {
        return (e.op == op_t::load) && strstr(e.func, "future_common::pending(") != nullptr;
    };
    w.sched.install();
    // spawn threads in name order; each runs up to its first atomic operation
    for (auto &kv : w.rkind) {
        std::string name = kv.first, kind = kv.second;
        int who = atoi(name.c_str() + 1);
        World *pw = &w;
        int form = w.form + who;
        w.tid[name] = w.sched.spawn([pw, name, kind, who, form] {
            World &w = *pw;
            warm_thread();
            if (kind == "val") {
                bool b;
#ifndef PAYLOAD_REF
                if (!w.bind && form % 3 == 2) {
                    // a coroutine started with the promise: async::start(promise&) claims it; only the claimer starts the body,
                    // whose co_return stores the value and whose final suspend resolves the future
                    auto c = final_coro(who);                  // the user's frame (outside the library scope)
                    { lib_scope s; b = (bool) c.start(*w.p); }
                } else
#endif
                { lib_scope s; if (w.bind) b = w.call_bound(); else if (form % 2 == 0) b = (*w.p)(MAKE_ARG(who)); else b = w.p->set_value(MAKE_ARG(who)); }
                w.rres[name] = b ? "true" : "false";
            } else if (kind == "exc") {
                bool b;
                if (form % 3 == 2) {
                    // the form a coroutine's promise_type uses: inside a handler
                    try { throw TestExc(who); } catch (...) { lib_scope s; b = w.p->unhandled_exception(); }
                } else {
                    auto e = std::make_exception_ptr(TestExc(who));
                    lib_scope s;
                    if (form % 3 == 0) b = (*w.p)(e); else b = w.p->set_exception(e);
                }
                w.rres[name] = b ? "true" : "false";
            } else if (kind == "drop") {
                bool b;
                { lib_scope s; if (form % 2 == 0) b = (*w.p)(cocls::drop); else b = w.p->set_value(cocls::drop); }
                w.rres[name] = b ? "true" : "false";
            } else if (kind == "mdes") {
                lib_scope s;
                cocls::promise<Payload> q(std::move(*w.p));
            } else if (kind == "masg") {
                lib_scope s;
                cocls::promise<Payload> q;
                { alloc_pause np; w.q_owner_addr[name] = &(q.*PProbe::owner_mp()); }
                q = std::move(*w.p);
            } else if (kind == "dtor") {
                vsched::mark("dtor");
                lib_scope s;
                if (w.bind) w.drop_bound();      // the closure returned by bind() dies (uncalled, or after its call)
                else { delete w.p; w.p = nullptr; }
            } else if (kind == "final") {
                lib_scope s;
                w.final_sp.reset();   // releases the started coroutine: body runs here and completes
            }
            w.allocs += lib_allocs; lib_allocs = 0;
        });
    }
    for (auto &kv : w.wkind) {
        std::string name = kv.first, kind = kv.second;
        World *pw = &w;
        int form = w.form + atoi(name.c_str() + 1);
        if (kind == "cb") {
            if (form % 2 == 0) {
                w.cbs[name].reset(new CbAwaiter());
                w.cbs[name]->world = pw;
                w.cbs[name]->rec = &w.recs[name];
                w.cbnode[name] = w.cbs[name].get();
            } else {
                w.fnaw[name].reset(new cocls::co_awaiter<cocls::future<Payload>>(w.fut.operator co_await()));
                w.fnctx[name] = World::FnCtx{pw, &w.recs[name]};
                w.cbnode[name] = w.fnaw[name].get();
            }
        }
        w.tid[name] = w.sched.spawn([pw, name, kind, form] {
            World &w = *pw;
            warm_thread();
            Rec &r = w.recs[name];
            if (kind == "co") {
                auto c = co_waiter(w, r);          // frame allocation is the user's (outside lib scope)
                lib_scope s;
                c.detach();
            } else if (kind == "hv") {
                auto c = hv_waiter(w, r);
                lib_scope s;
                c.detach();
            } else if (kind == "bl") {
                {
                    // every blocking entry point: sync(), force_sync(), wait(), force_wait()
                    lib_scope s;
                    switch (form % 4) {
                        case 0: w.fut.sync(); break;
                        case 1: w.fut.force_sync(); break;
                        case 2: try { (void) w.fut.wait(); } catch (...) {} break;
                        default: try { (void) w.fut.force_wait(); } catch (...) {} break;
                    }
                }
                read_result(w, r);
                r.resumes++;
                r.done = true;
            } else if (kind == "cb") {
                lib_scope s;
                if (form % 2 == 0) {
                    CbAwaiter *cb = w.cbs[name].get();
                    if (!w.fut.operator co_await().subscribe(cb)) cb->resume();
                } else {
                    // suspend-with-function form (used by parallel(), immediately(), co_await pool(x))
                    auto *aw = w.fnaw[name].get();
                    if (!aw->await_suspend(&fn_fire, &w.fnctx[name])) fn_fire(aw, &w.fnctx[name]);
                }
            }
            w.allocs += lib_allocs; lib_allocs = 0;
        });
    }
    bool bad = false;
    (void) project(w);   // learn the awaiter node addresses of threads already parked at their CAS
    if (ex) {
        std::vector<std::string> names;
        for (auto &kv : w.rkind) names.push_back(kv.first);
        for (auto &kv : w.wkind) names.push_back(kv.first);
        for (;;) {
            std::vector<std::string> en;
            for (auto &n : names) if (w.sched.enabled(w.tid[n])) {
                // the final destructor of the promise object is only legal once nobody uses the object any more
                if (w.rkind.count(n) && pend_of(w, n, true) == "dtor") {
                    bool others_done = true;
                    for (auto &kv : w.rkind) if (kv.second != "dtor" && !w.sched.done(w.tid[kv.first])) others_done = false;
                    if (!others_done) continue;
                }
                en.push_back(n);
            }
            if (en.empty()) break;
            const std::string &n = en[ex->next() % en.size()];
            std::string act = action_of(pend_of(w, n, w.rkind.count(n) != 0));
            w.sched.step(w.tid[n]);
            fprintf(ex->out, "{\"a\":\"%s\",\"t\":\"%s\",\"p\":%s}\n", act.c_str(), n.c_str(), project(w).dump().c_str());
        }
        if (!w.sched.all_done()) fprintf(ex->out, "{\"a\":\"Deadlock\",\"t\":\"none\",\"p\":%s}\n", project(w).dump().c_str());
        fprintf(ex->out, "{\"a\":\"Reset\",\"t\":\"none\",\"p\":{}}\n");
    }
    for (std::size_t k = 0; !ex && k < sc.steps.size() && !bad; k++) {
        const Step &st = sc.steps[k];
        auto it = w.tid.find(st.sarg(0));
        if (it == w.tid.end()) { rep.error(k, "unknown thread"); bad = true; break; }
        int t = it->second;
        if (!w.sched.enabled(t)) {
            rep.diverge(k, "thread not enabled in the implementation (" + std::string(w.sched.done(t) ? "finished" : "blocked") + ") got=" + project(w).dump());
            bad = true;
            break;
        }
        // the acting thread may be parked at an unexpected pure load (see absorb_extra_loads): run it first
        if (st.name != "CheckReady" && st.name != "DLoad")
            for (int i = 0; i < 2 && w.sched.parked(t) && !w.sched.pending_after(t) && (w.sched.pending(t).op == op_t::load || w.sched.pending(t).op == op_t::conv); i++) {
                w.sched.step(t);
                if (w.fine && w.sched.parked(t) && w.sched.pending_after(t)) w.sched.step(t);
            }
        (void) project(w);      // (learn the awaiter node address if the thread now waits at its CAS)
        if (!w.sched.enabled(t)) { rep.diverge(k, "thread not enabled after an absorbed load got=" + project(w).dump()); bad = true; break; }
        w.sched.step(t);
        absorb_extra_loads(w, st.expected);
        if (!rep.check(k, project(w))) bad = true;
    }
    // finish whatever is left (only after a divergence; paths end in terminal states)
    bool drained = w.sched.drain();
    if (!drained && !bad) rep.diverge(sc.steps.size() - 1, "deadlock: threads blocked at the end of the schedule got=" + project(w).dump());
    if (drained && !bad && !ex) {
        for (auto &kv : w.wkind) {
            Rec &r = w.recs[kv.first];
            if (!r.done || r.resumes != 1) { rep.diverge(sc.steps.size() - 1, "waiter " + kv.first + " not released exactly once at the end"); break; }
        }
    }
    w.sched.uninstall();
    if (!drained) {
        // cannot unwind safely (blocked threads reference the world)
        fflush(stdout);
        _exit(1);
    }
    w.sched.join_all();
    if (w.p) { delete w.p; w.p = nullptr; }
    if (!w.fut.ready()) {
        // never resolved (no resolver in the scenario): resolve to allow destruction of parked coroutines
    }
}

static void run(const Scenario &sc, Reporter &rep) {
    if (!sc.hdr.has("explore")) { run_one(sc, rep, nullptr); return; }
    const JV &e = sc.hdr.at("explore");
    FILE *f = fopen(e.at("out").as_str().c_str(), "w");
    if (!f) { rep.error(0, "cannot open trace output"); return; }
    Explore ex{f, (std::uint64_t) e.at("seed").as_int(1) * 2654435761ULL + 88172645463325252ULL};
    for (long i = 0; i < e.at("runs").as_int(1); i++) run_one(sc, rep, &ex);
    fclose(f);
}

int main() {
    return replay_main(std::cin, run);
}
