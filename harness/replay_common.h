// replay_common.h -- shared by all replayers: canonical JSON values (byte-identical with
// tools/vlib.py canon()), script reader, divergence reporting, allocation counting.
//
// Script format (written by tools/vlib.py write_scripts):
//     BEGIN <id> <canonical json: initial projection / scenario parameters>
//     <action label>\t<canonical json: expected projection after the action>
//     ...
//     END
// Output, one line per scenario:
//     OK <id> <steps>
//     DIVERGE <id> step=<k> action=<label> expected=<json> got=<json>
//     ERROR <id> step=<k> action=<label> <text>       (replayer cannot execute the action)
#pragma once
#include <algorithm>
#include <atomic>
#include <cstdint>
#include <cstdio>
#include <cstdlib>
#include <cstring>
#include <functional>
#include <iostream>
#include <map>
#include <memory>
#include <new>
#include <sstream>
#include <string>
#include <thread>
#include <unistd.h>
#include <vector>

namespace rp {

// ---------------------------------------------------------------------------------------------
// canonical JSON
// ---------------------------------------------------------------------------------------------
class J {
public:
    enum kind_t { k_null, k_int, k_bool, k_str, k_list, k_map };
    J() : _k(k_null) {}
    J(int v) : _k(k_int), _i(v) {}
    J(long v) : _k(k_int), _i(v) {}
    J(long long v) : _k(k_int), _i(v) {}
    J(unsigned v) : _k(k_int), _i(v) {}
    J(unsigned long v) : _k(k_int), _i((long long) v) {}
    J(bool v) : _k(k_bool), _b(v) {}
    J(const char *s) : _k(k_str), _s(s) {}
    J(const std::string &s) : _k(k_str), _s(s) {}
    static J list() { J j; j._k = k_list; return j; }
    static J map() { J j; j._k = k_map; return j; }
    template <typename It>
    static J list(It b, It e) { J j = list(); for (; b != e; ++b) j.push(J(*b)); return j; }

    J &push(J v) { _l.push_back(std::move(v)); return *this; }
    J &set(const std::string &k, J v) { _m[k] = std::move(v); return *this; }
    J &operator[](const std::string &k) { return _m[k]; }
    std::size_t size() const { return _k == k_list ? _l.size() : _m.size(); }

    // sets: sorted like tools/vlib.py sort_set (bools, ints numerically, strings, others by text)
    J &sort_as_set() {
        std::sort(_l.begin(), _l.end(), [](const J &a, const J &b) {
            auto rank = [](const J &x) { return x._k == k_bool ? 0 : x._k == k_int ? 1 : x._k == k_str ? 2 : 3; };
            if (rank(a) != rank(b)) return rank(a) < rank(b);
            if (a._k == k_bool) return a._b < b._b;
            if (a._k == k_int) return a._i < b._i;
            if (a._k == k_str) return a._s < b._s;
            return a.dump() < b.dump();
        });
        return *this;
    }

    std::string dump() const { std::string o; dump(o); return o; }
    void dump(std::string &o) const {
        switch (_k) {
            case k_null: o += "null"; break;
            case k_int: o += std::to_string(_i); break;
            case k_bool: o += _b ? "true" : "false"; break;
            case k_str: dump_str(_s, o); break;
            case k_list: {
                o += '[';
                bool first = true;
                for (auto &x : _l) { if (!first) o += ','; first = false; x.dump(o); }
                o += ']';
            } break;
            case k_map: {
                o += '{';
                bool first = true;
                for (auto &kv : _m) { if (!first) o += ','; first = false; dump_str(kv.first, o); o += ':'; kv.second.dump(o); }
                o += '}';
            } break;
        }
    }

private:
    static void dump_str(const std::string &s, std::string &o) {
        o += '"';
        for (char c : s) {
            if (c == '"' || c == '\\') { o += '\\'; o += c; }
            else o += c;
        }
        o += '"';
    }
    kind_t _k;
    long long _i = 0;
    bool _b = false;
    std::string _s;
    std::vector<J> _l;
    std::map<std::string, J> _m;
};

// ---------------------------------------------------------------------------------------------
// minimal JSON reader (for scenario headers): returns generic tree
// ---------------------------------------------------------------------------------------------
struct JV {
    enum kind_t { k_null, k_int, k_bool, k_str, k_list, k_map } k = k_null;
    long long i = 0;
    bool b = false;
    std::string s;
    std::vector<JV> l;
    std::map<std::string, JV> m;
    const JV &at(const std::string &key) const {
        static JV none;
        auto it = m.find(key);
        return it == m.end() ? none : it->second;
    }
    bool has(const std::string &key) const { return m.count(key) != 0; }
    long long as_int(long long d = 0) const { return k == k_int ? i : k == k_bool ? (long long) b : d; }
    bool as_bool(bool d = false) const { return k == k_bool ? b : k == k_int ? i != 0 : d; }
    std::string as_str(const std::string &d = "") const { return k == k_str ? s : d; }
};

class JReader {
public:
    explicit JReader(const std::string &s) : _s(s) {}
    JV parse() { JV v = value(); return v; }
private:
    void ws() { while (_i < _s.size() && isspace((unsigned char) _s[_i])) _i++; }
    JV value() {
        ws();
        JV v;
        if (_i >= _s.size()) return v;
        char c = _s[_i];
        if (c == '{') {
            v.k = JV::k_map; _i++; ws();
            if (_s[_i] == '}') { _i++; return v; }
            for (;;) {
                ws(); JV key = value(); ws(); _i++;  // ':'
                v.m[key.s] = value(); ws();
                if (_s[_i] == ',') { _i++; continue; }
                _i++; break;
            }
        } else if (c == '[') {
            v.k = JV::k_list; _i++; ws();
            if (_s[_i] == ']') { _i++; return v; }
            for (;;) {
                v.l.push_back(value()); ws();
                if (_s[_i] == ',') { _i++; continue; }
                _i++; break;
            }
        } else if (c == '"') {
            v.k = JV::k_str; _i++;
            while (_s[_i] != '"') { if (_s[_i] == '\\') _i++; v.s += _s[_i++]; }
            _i++;
        } else if (!strncmp(&_s[_i], "true", 4)) { v.k = JV::k_bool; v.b = true; _i += 4; }
        else if (!strncmp(&_s[_i], "false", 5)) { v.k = JV::k_bool; v.b = false; _i += 5; }
        else if (!strncmp(&_s[_i], "null", 4)) { _i += 4; }
        else {
            v.k = JV::k_int;
            std::size_t j = _i;
            if (_s[j] == '-') j++;
            while (j < _s.size() && isdigit((unsigned char) _s[j])) j++;
            v.i = atoll(_s.substr(_i, j - _i).c_str());
            _i = j;
        }
        return v;
    }
    const std::string &_s;
    std::size_t _i = 0;
};

// ---------------------------------------------------------------------------------------------
// script reading
// ---------------------------------------------------------------------------------------------
struct Step {
    std::string label;      // e.g. PushCS(t1)
    std::string name;       // PushCS
    std::vector<std::string> args;
    std::string expected;   // canonical json
    int iarg(std::size_t k) const { return k < args.size() ? atoi(args[k].c_str()) : 0; }
    const std::string &sarg(std::size_t k) const { static std::string e; return k < args.size() ? args[k] : e; }
};

struct Scenario {
    std::string id;
    std::string header;     // canonical json
    JV hdr;
    std::vector<Step> steps;
};

inline void parse_label(Step &st) {
    auto p = st.label.find('(');
    if (p == std::string::npos) { st.name = st.label; return; }
    st.name = st.label.substr(0, p);
    std::string inner = st.label.substr(p + 1, st.label.rfind(')') - p - 1);
    int depth = 0;
    std::string cur;
    for (std::size_t i = 0; i < inner.size(); i++) {
        char c = inner[i];
        if (c == '<' || c == '{' || c == '[' || c == '(') depth++;
        else if (c == '>' || c == '}' || c == ']' || c == ')') depth--;
        if (c == ',' && depth == 0) { st.args.push_back(cur); cur.clear(); }
        else if (c != ' ' || depth > 0) cur += c;
    }
    if (!cur.empty() || !st.args.empty()) st.args.push_back(cur);
    for (auto &a : st.args) {   // strip quotes of string arguments
        if (a.size() >= 2 && a.front() == '"' && a.back() == '"') a = a.substr(1, a.size() - 2);
    }
}

inline bool read_scenario(std::istream &in, Scenario &sc) {
    std::string line;
    sc = Scenario();
    while (std::getline(in, line)) {
        if (line.rfind("BEGIN ", 0) == 0) {
            auto sp = line.find(' ', 6);
            sc.id = line.substr(6, sp - 6);
            sc.header = sp == std::string::npos ? "{}" : line.substr(sp + 1);
            sc.hdr = JReader(sc.header).parse();
            while (std::getline(in, line)) {
                if (line == "END") return true;
                Step st;
                auto tab = line.find('\t');
                st.label = line.substr(0, tab);
                st.expected = tab == std::string::npos ? "" : line.substr(tab + 1);
                parse_label(st);
                sc.steps.push_back(std::move(st));
            }
            return true;
        }
    }
    return false;
}

// ---------------------------------------------------------------------------------------------
// allocation counting (global operator new/delete replaced when REPLAY_COUNT_ALLOCS defined in
// exactly one translation unit before including this header)
// ---------------------------------------------------------------------------------------------
struct alloc_stats {
    static inline thread_local long news = 0;
    static inline thread_local long deletes = 0;
    static inline thread_local int paused = 0;     // >0: harness-side code, allocations not attributed
    static inline std::atomic<long> g_news{0};
    static inline std::atomic<long> g_deletes{0};
    static inline std::atomic<long> g_live_bytes{0};
};

// RAII: allocations made while an alloc_pause is alive (harness bookkeeping) are not counted
struct alloc_pause {
    alloc_pause() { alloc_stats::paused++; }
    ~alloc_pause() { alloc_stats::paused--; }
};

// ---------------------------------------------------------------------------------------------
// driver
// ---------------------------------------------------------------------------------------------
struct Result {
    long scenarios = 0, ok = 0, diverged = 0, errors = 0, steps = 0;
};

// run(scenario, report) must call report.diverge()/error() at most once and return.
class Reporter {
public:
    explicit Reporter(const Scenario &sc) : _sc(sc) {}
    bool failed() const { return _failed; }
    bool check(std::size_t k, const J &got) {
        const Step &st = _sc.steps[k];
        std::string g = got.dump();
        static const bool trace = getenv("REPLAY_TRACE") != nullptr;
        if (trace) { fprintf(stderr, "STEP %s %zu %s %s\n", _sc.id.c_str(), k, st.label.c_str(), g == st.expected ? "match" : "MISMATCH"); fflush(stderr); }
        if (g != st.expected) {
            printf("DIVERGE %s step=%zu action=%s expected=%s got=%s\n", _sc.id.c_str(), k, st.label.c_str(),
                   st.expected.c_str(), g.c_str());
            _failed = true; _div = true;
            return false;
        }
        return true;
    }
    void diverge(std::size_t k, const std::string &why) {
        const Step &st = _sc.steps[std::min(k, _sc.steps.size() - 1)];
        printf("DIVERGE %s step=%zu action=%s %s\n", _sc.id.c_str(), k, st.label.c_str(), why.c_str());
        _failed = true; _div = true;
    }
    void error(std::size_t k, const std::string &why) {
        const char *lbl = k < _sc.steps.size() ? _sc.steps[k].label.c_str() : "-";
        printf("ERROR %s step=%zu action=%s %s\n", _sc.id.c_str(), k, lbl, why.c_str());
        _failed = true; _err = true;
    }
    bool diverged() const { return _div; }
    bool errored() const { return _err; }
private:
    const Scenario &_sc;
    bool _failed = false, _div = false, _err = false;
};

template <typename Fn>
int replay_main(std::istream &in, Fn &&run) {
    // scripts are large (hundreds of MB in thorough tiers) and are read through std::cin; all output goes through stdio
    std::ios::sync_with_stdio(false);
    std::cin.tie(nullptr);
    Result r;
    Scenario sc;
    // per-scenario watchdog: a scenario that does not finish (a thread of the implementation blocked in a real,
    // non-virtual primitive, a livelock) is reported as "HANG <id>" and ends the replayer; the driver then reports
    // that scenario.  REPLAY_SCENARIO_TIMEOUT seconds (default 120).
    // (a watchdog thread with its own tick counter: no signals - the library's own signal.h shadows <signal.h> on the
    // harness include path - and no clock, which may be virtual)
    static char hang_msg[256];
    static std::atomic<long> wd_scn{-1};
    const char *ts = getenv("REPLAY_SCENARIO_TIMEOUT");
    unsigned tmo = ts ? (unsigned) atoi(ts) : 120;
    std::thread([tmo] {
        long last = -2, since = 0;
        for (;;) {
            usleep(250000);
            long c = wd_scn.load();
            if (c != last) { last = c; since = 0; }
            else if (c >= 0 && ++since > (long) tmo * 4) {
                ssize_t k = write(1, hang_msg, strlen(hang_msg)); (void) k;
                _exit(3);
            }
        }
    }).detach();
    while (read_scenario(in, sc)) {
        r.scenarios++;
        Reporter rep(sc);
        snprintf(hang_msg, sizeof hang_msg, "HANG %s scenario did not finish within %u s\n", sc.id.c_str(), tmo);
        fflush(stdout);
        wd_scn.store(r.scenarios);
        run(sc, rep);
        wd_scn.store(-1);
        r.steps += (long) sc.steps.size();
        if (rep.diverged()) r.diverged++;
        else if (rep.errored()) r.errors++;
        else { r.ok++; printf("OK %s %zu\n", sc.id.c_str(), sc.steps.size()); }
        fflush(stdout);
    }
    printf("SUMMARY scenarios=%ld ok=%ld diverged=%ld errors=%ld steps=%ld\n", r.scenarios, r.ok, r.diverged, r.errors, r.steps);
    return r.diverged ? 1 : r.errors ? 2 : 0;
}

}  // namespace rp

#ifdef REPLAY_COUNT_ALLOCS
#include <atomic>
void *operator new(std::size_t sz) {
    void *p = malloc(sz ? sz : 1);
    if (!p) throw std::bad_alloc();
#ifdef COCLS_VERIF_HOOKS_H_
    if (cocls_verif::internal_allocs) return p;
#endif
    if (!rp::alloc_stats::paused) {
        rp::alloc_stats::news++;
        rp::alloc_stats::g_news.fetch_add(1, std::memory_order_relaxed);
    }
    return p;
}
void *operator new[](std::size_t sz) { return operator new(sz); }
void operator delete(void *p) noexcept {
    if (!p) return;
    rp::alloc_stats::deletes++;
    rp::alloc_stats::g_deletes.fetch_add(1, std::memory_order_relaxed);
    free(p);
}
void operator delete[](void *p) noexcept { operator delete(p); }
void operator delete(void *p, std::size_t) noexcept { operator delete(p); }
void operator delete[](void *p, std::size_t) noexcept { operator delete(p); }
// every other replaceable form feeds the same counters: the ALIGNED forms (used by new-expressions of types with
// alignof(T) > __STDCPP_DEFAULT_NEW_ALIGNMENT__; libstdc++'s versions do not go through the plain form) and the NOTHROW forms
namespace rp {
inline void *counted_alloc(std::size_t sz, std::size_t al) noexcept {
    void *p = nullptr;
    if (al <= __STDCPP_DEFAULT_NEW_ALIGNMENT__) p = malloc(sz ? sz : 1);
    else if (posix_memalign(&p, al < sizeof(void *) ? sizeof(void *) : al, sz ? sz : 1) != 0) p = nullptr;
    if (!p) return nullptr;
#ifdef COCLS_VERIF_HOOKS_H_
    if (cocls_verif::internal_allocs) return p;
#endif
    if (!alloc_stats::paused) {
        alloc_stats::news++;
        alloc_stats::g_news.fetch_add(1, std::memory_order_relaxed);
    }
    return p;
}
}  // namespace rp
void *operator new(std::size_t sz, std::align_val_t al) {
    void *p = rp::counted_alloc(sz, (std::size_t) al);
    if (!p) throw std::bad_alloc();
    return p;
}
void *operator new[](std::size_t sz, std::align_val_t al) { return operator new(sz, al); }
void *operator new(std::size_t sz, const std::nothrow_t &) noexcept { return rp::counted_alloc(sz, 1); }
void *operator new[](std::size_t sz, const std::nothrow_t &) noexcept { return rp::counted_alloc(sz, 1); }
void *operator new(std::size_t sz, std::align_val_t al, const std::nothrow_t &) noexcept { return rp::counted_alloc(sz, (std::size_t) al); }
void *operator new[](std::size_t sz, std::align_val_t al, const std::nothrow_t &) noexcept { return rp::counted_alloc(sz, (std::size_t) al); }
void operator delete(void *p, std::align_val_t) noexcept { operator delete(p); }
void operator delete[](void *p, std::align_val_t) noexcept { operator delete(p); }
void operator delete(void *p, std::size_t, std::align_val_t) noexcept { operator delete(p); }
void operator delete[](void *p, std::size_t, std::align_val_t) noexcept { operator delete(p); }
void operator delete(void *p, const std::nothrow_t &) noexcept { operator delete(p); }
void operator delete[](void *p, const std::nothrow_t &) noexcept { operator delete(p); }
void operator delete(void *p, std::align_val_t, const std::nothrow_t &) noexcept { operator delete(p); }
void operator delete[](void *p, std::align_val_t, const std::nothrow_t &) noexcept { operator delete(p); }
#endif
