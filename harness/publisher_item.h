// publisher_item.h -- item type published by the publisher replayers (publisher_replay.cpp,
// publisher_conc_replay.cpp).  Its state is distinguishable where an int's is not:
//   * moved-from: the move constructor / move assignment mark their SOURCE (a read that hands an element of
//     the retained window over instead of copying it leaves the window gutted: "values in the retained window
//     are never modified by reads");
//   * destroyed: the destructor poisons the value, copies/moves made FROM a destroyed item are counted (a value
//     copied out of the window after the lock was released while another thread trimmed the window).
// shown(): what the projections print for an item: the value itself when it is intact, POISON when destroyed,
// -1000-value when moved-from -- so the expected projections (plain positions) need no extra fields.
#pragma once
static const int POISON = -777;
struct Item {
    int v = 0;
    bool moved = false;
    static inline long stale = 0;
    Item() = default;
    explicit Item(int x) : v(x) {}
    Item(const Item &o) : v(o.v), moved(o.moved) { if (o.v == POISON) stale++; }
    Item(Item &&o) noexcept : v(o.v), moved(o.moved) { if (o.v == POISON) stale++; o.moved = true; }
    Item &operator=(const Item &o) { v = o.v; moved = o.moved; if (o.v == POISON) stale++; return *this; }
    Item &operator=(Item &&o) noexcept { v = o.v; moved = o.moved; if (o.v == POISON) stale++; o.moved = true; return *this; }
    ~Item() { *const_cast<volatile int *>(&v) = POISON; }
    int shown() const { return v == POISON ? POISON : moved ? -1000 - v : v; }
    // implicitly convertible to bool like the int items it replaced: code that (wrongly) returns the item where a bool is
    // expected - the pre-d28a3b4 blocking next() - must still compile, so that it is decided by the replay and not lost as a
    // harness build failure
    operator bool() const { return v != 0; }
};
