// scheduler_replay.cpp -- replays behaviours of spec/Scheduler/Scheduler.tla on the real
// cocls::scheduler (C12) and compares, after every step, the projection of the real objects with
// the specification's state, and the OUTPUT of every call (the last parameter(s) of the action
// label) with what the real call returned / did.
//
// Mode "manual": one scenario step = one public call (sleep_until, get_expired, remove, cancel,
//   ~scheduler, interval()/stop token).
// Mode "start" : the whole scenario runs inside scheduler::start(awaitable) in this thread; the
//   coroutines take their next command from the scenario (lazy program), the worker coroutine is
//   observed through the interposed clock / condition variable (virtual time).  The state reached
//   by a step is compared when the next event occurs (nothing runs in between).
// start(awaitable), the awaited operation (coroutine 1).  The specification lets it end with no value / a value /
//   an exception / a dropped promise (CoFinish(1, r, via)) and demands that start() returns / returns that value /
//   rethrows that exception / throws await_canceled_exception (StartReturn(r)).  The replayer looks the end of the
//   run up in the scenario and builds the awaitable accordingly (the static type has to be chosen before the run):
//     via "direct": start(async<T>&&), start(async<T>&) or start(future<T>&) with the future fed by the coroutine
//                   (rotating; T = void / int; the coroutine co_returns or throws);
//     via "queued": start(future<T>&) whose promise<T> the (detached) coroutine 1 holds and resolves by hand: p(),
//                   p(value), p(exception_ptr), p(cocls::drop) / ~promise -- the suspend_point is discarded, so the
//                   callback_await coroutine of start() travels through the coro_queue (entity -2 in "rq", told from
//                   the worker by elimination: handles that were queued before the promise was resolved).
//   StartAgain: start() is called again on the SAME scheduler object (sleeps left pending stay scheduled, their
//   coroutines stay suspended; the virtual clock goes on), with a new awaited operation.
// A scenario spans several scheduler lifetimes (... Destroy, Construct, ... / ... DestroyAfterStart,
// Restart, ...); in start mode it may end in the middle of a run (paths are cut at a maximal length):
// the run is then left to finish unobserved.
// Besides the projection the replayer audits after every step that exactly the sleeps named by the
// step's output changed state, each exactly once and for good, with exactly the stated outcome
// (value / no value / await_canceled_exception / the caller's exception), and that a coroutine
// awaiting a sleep was resumed exactly once and saw the same outcome.
//
// TIME.  Model time is in HALF TICKS: an even value 2n is the n-th tick, an odd value 2n-1 is "1 ns
// before tick n" (only get_expired probes use odd values).  The scenario header carries an
// order-preserving embedding into the clock's full (nanosecond) resolution:
//     real(2n) = e + n*u + off[n] ns,   real(2n-1) = real(2n) - 1 ns      (0 < off[n] < u)
// with per-tick offsets that are not whole milliseconds, so that durations between ticks are not
// either.  Real time points are mapped back EXACTLY: a time point that is not real(m) for some m is
// projected as the string "ns:<value>" and can never equal a model time (no rounding to the tick).
// API FORMS.  Every way the header lets a client request a sleep maps to the one specification
// action Schedule/CoSleep(tp,..): sleep_until(tp), schedule(id, promise, tp), sleep_for(d) with d in
// nanoseconds / microseconds (64 and 32 bit rep) / half milliseconds (ratio<1,2000>) / milliseconds
// / seconds / minutes.  sleep_for(duration<double>) does not compile against the library at present
// (system_clock::now() + duration<double> is a time_point with a floating point duration, which does
// not convert implicitly to system_clock::time_point); the driver probes that with a one-line
// translation unit and defines C12_FLOAT_SLEEP if it ever compiles: then q/512 s (exact in binary,
// never a whole millisecond) joins the rotation.  A duration whose period is not a whole number of
// nanoseconds (ratio<1,3>) does not compile for the same reason and cannot be exercised.  For sleep_for the virtual clock is set so that now + d == real(tp)
// EXACTLY (manual mode: the clock is free, now := real(tp) - q*unit for a q that is not a whole
// number of milliseconds where the unit allows; start mode: the clock is what it is, a form is used
// only if real(tp) - now is a whole number of its unit).  The form rotates per call:
// forms[(phase + number of the sleep) % len].  interval(d) gets d = real(Interval) - real(0).  With "interval2" a second
// generator of the same scheduler is made with d2 = real(Interval2) - real(0), THE SAME duration type and its own stop
// token (IntervalCall(g,..) / IntervalStop(g,..)); which generator a heap entry / promise belongs to is learned from the
// entry generator g adds at its first sleep (&tag and &waiter are addresses inside its frame): identifier 10 - g.
//
// header: {"mode":"manual"|"start","coro":bool,"slots":N,"interval":n,"nc":n,
//          "tm":{"e":ns,"u":ns,"off":[ns..]},"forms":[..],"phase":k}
// projection (built by tools/checks/c12.py proj()):
//   {"destroyed":b,"fut":[{"co","st","tp"}..],"gen":[{"st","stp"},{"st","stp"}],"heap":[{"id","k","tp"}..]}
//   start mode adds {"cst":[{"st","wat","wst"}..],"now":n,"phase":s,"rq":[..],"res":s,"runs":n}
//
// Interposed in THIS executable (no wall clock, no blocking):
//   clock_gettime(CLOCK_REALTIME)     -> virtual clock (system_clock::now() of libstdc++ ends here)
//   pthread_cond_timedwait/clockwait  -> virtual time jumps to the deadline, returns ETIMEDOUT
//                                        (single thread: nobody can notify)
//   pthread_cond_broadcast            -> counted (schedule()'s notify rule is an output)
//   pthread_mutex_lock                -> a lock that cannot be taken at once is a guaranteed hang of
//                                        this single-threaded process: reported, process aborted
// Always built the same way, whatever flags the driver / bin/replay pass: bound-checked std::vector
// (an out-of-bounds `_scheduled[0]` aborts instead of reading stale memory) and the library's own
// asserts on ("can't set value twice", "destroy of pending future").
#ifndef _GLIBCXX_ASSERTIONS
#define _GLIBCXX_ASSERTIONS 1
#endif
#undef NDEBUG
#include <cocls/scheduler.h>
#include <cocls/async.h>
#include <cocls/future.h>
#include <cocls/generator.h>
#include "replay_common.h"

#include <dlfcn.h>
#include <errno.h>
#include <pthread.h>
#include </usr/include/signal.h>   // <signal.h> would find cocls/signal.h (the harness include path has src/cocls)
#include <sys/syscall.h>
#include <time.h>
#include <unistd.h>

#include <deque>
#include <optional>
#include <set>
#include <stop_token>

using namespace rp;

// ---------------------------------------------------------------------------------------------
// interposition
// ---------------------------------------------------------------------------------------------
namespace vt {
struct Hooks {
    virtual void on_clock() = 0;                 // somebody reads system_clock::now()
    virtual void on_wait(long long ns) = 0;      // somebody is about to wait_until(ns since epoch)
    virtual ~Hooks() = default;
};
static long long now = 0;          // virtual clock: nanoseconds since epoch
static bool client_call = false;   // the clock is read by a client call (sleep_for, interval): not a worker event
static Hooks *hooks = nullptr;
static bool post_wait = false;     // the clock read that condition_variable::wait_until makes after waiting
static long broadcasts = 0;
static bool guard_locks = false;
static const char *where = "";     // scenario id / step for fatal reports
static const long long FOREVER = 4000000000LL;   // seconds: time_point::max() and friends

[[noreturn]] static void fatal(const char *what) {
    printf("FATAL %s: %s\n", where, what);
    fflush(stdout);
    _exit(70);
}
template <typename Fn>
static Fn real(const char *name, const char *ver) {
    void *p = ver ? dlvsym(RTLD_NEXT, name, ver) : nullptr;
    if (!p) p = dlsym(RTLD_NEXT, name);
    return reinterpret_cast<Fn>(p);
}
}  // namespace vt

extern "C" {
int clock_gettime(clockid_t clk, struct timespec *ts) {
    if (clk == CLOCK_REALTIME) {
        ts->tv_sec = (time_t) (vt::now / 1000000000LL);
        ts->tv_nsec = (long) (vt::now % 1000000000LL);
        if (vt::client_call) return 0;
        if (vt::post_wait) vt::post_wait = false;
        else if (vt::hooks) vt::hooks->on_clock();
        return 0;
    }
    return (int) syscall(SYS_clock_gettime, clk, ts);
}
static int virtual_timedwait(const struct timespec *abst) {
    long long ns = abst->tv_sec >= vt::FOREVER ? vt::FOREVER * 1000000000LL
                                               : (long long) abst->tv_sec * 1000000000LL + abst->tv_nsec;
    if (!vt::hooks) vt::fatal("condition variable wait outside start(): the thread would block");
    vt::hooks->on_wait(ns);
    if (ns > vt::now) vt::now = ns;
    vt::post_wait = true;
    return ETIMEDOUT;
}
int pthread_cond_timedwait(pthread_cond_t *, pthread_mutex_t *, const struct timespec *abst) { return virtual_timedwait(abst); }
int pthread_cond_clockwait(pthread_cond_t *, pthread_mutex_t *, clockid_t, const struct timespec *abst) { return virtual_timedwait(abst); }
int pthread_cond_wait(pthread_cond_t *, pthread_mutex_t *) {
    vt::fatal("untimed condition variable wait: the only thread would block forever");
}
int pthread_cond_broadcast(pthread_cond_t *c) {
    static int (*fn)(pthread_cond_t *) = nullptr;
    if (!fn) fn = vt::real<decltype(fn)>("pthread_cond_broadcast", "GLIBC_2.3.2");
    vt::broadcasts++;
    return fn ? fn(c) : 0;
}
int pthread_mutex_lock(pthread_mutex_t *m) {
    int r = pthread_mutex_trylock(m);
    if (r == 0) return 0;
    if (r == EBUSY && vt::guard_locks) vt::fatal("self-deadlock: the only thread locks a mutex that is already locked (hang)");
    static int (*fn)(pthread_mutex_t *) = nullptr;
    if (!fn) fn = vt::real<decltype(fn)>("pthread_mutex_lock", nullptr);
    return fn(m);
}
}

static void on_alarm(int) {
    static const char msg[] = "FATAL watchdog: scenario did not finish (hang)\n";
    (void) !write(1, msg, sizeof(msg) - 1);
    _exit(71);
}

// ---------------------------------------------------------------------------------------------
// probes
// ---------------------------------------------------------------------------------------------
struct CustomExc : std::exception {};
struct MainExc : std::exception {};     // what the awaited operation of start() ends with ("exc")

struct Probe : cocls::scheduler {
    template <typename Fn>
    void each(Fn &&fn) {   // fn(tp, ident, promise id)
        for (auto &x : _scheduled) fn(x._tp, x._ident, x._p.get_id());
    }
};

struct FProbe : cocls::future<void> {
    static State state_of(const cocls::future<void> &f) { return f.*(&FProbe::_state); }
};

// "pending" | "done" | "canceled" (no value) | "exc" (await_canceled_exception) | "custom" | "other"
static std::string future_kind(cocls::future<void> &f) {
    if (!f.ready()) return f.pending() ? "pending" : "uninit";
    std::string k;
    switch (FProbe::state_of(f)) {
        case cocls::future_common::State::value: k = "done"; break;
        case cocls::future_common::State::not_value: k = "canceled"; break;
        case cocls::future_common::State::exception: k = "exception"; break;
        default: k = "other"; break;
    }
    // the public accessor must agree
    std::string pub;
    try { f.value(); pub = "done"; }
    catch (const cocls::await_canceled_exception &) { pub = "await_canceled"; }
    catch (const CustomExc &) { pub = "custom"; }
    catch (...) { pub = "other"; }
    if (k == "done") return pub == "done" ? "done" : "mismatch:done/" + pub;
    if (k == "canceled") return pub == "await_canceled" ? "canceled" : "mismatch:novalue/" + pub;
    if (k == "exception") return pub == "await_canceled" ? "exc" : pub == "custom" ? "custom" : "mismatch:exception/" + pub;
    return k;
}

static const long long INF = 1000;   // time_point::max() in model time

// the embedding of model time (half ticks) into nanoseconds, see the head comment
struct TimeMap {
    long long e = 0, u = 1000000;
    std::vector<long long> off;
    void load(const JV &h) {
        e = h.at("e").as_int(0);
        u = h.at("u").as_int(1000000);
        off.clear();
        for (auto &x : h.at("off").l) off.push_back(x.as_int(0));
        if (off.empty()) off.push_back(1);
    }
    long long real(long long m) const {            // model -> ns since epoch
        if (m % 2 != 0) return real(m + 1) - 1;
        std::size_t n = (std::size_t) (m / 2);
        return e + (long long) n * u + off[n < off.size() ? n : off.size() - 1];
    }
    J model(long long r) const {                   // ns since epoch -> model, exact or "ns:<r-e>"
        long long x = r - e;
        if (x >= 0) {
            for (long long n = x / u - 1; n <= x / u + 1; n++) {
                if (n < 0 || (std::size_t) n >= off.size()) continue;
                long long t = n * u + off[(std::size_t) n];
                if (x == t) return J(2 * n);
                if (x == t - 1) return J(2 * n - 1);
            }
        }
        return J("ns:" + std::to_string(x));
    }
    J model(std::chrono::system_clock::time_point tp) const {
        if (tp == std::chrono::system_clock::time_point::max()) return J(INF);
        return model((long long) std::chrono::duration_cast<std::chrono::nanoseconds>(tp.time_since_epoch()).count());
    }
    std::chrono::system_clock::time_point point(long long m) const {
        return std::chrono::system_clock::time_point(std::chrono::nanoseconds(real(m)));
    }
};

// the API forms of "sleep until tp"
struct Form {
    const char *name;
    long long unit;        // ns; 0: no duration involved
    bool manual_only;      // needs a free clock (the duration is chosen, the clock follows)
};
static const Form FORMS[] = {
    {"until", 0, false}, {"sched", 0, false},
    {"ns", 1, false}, {"us", 1000, false}, {"us32", 1000, false},
    {"hms", 500000, true}, {"ms", 1000000, true}, {"s", 1000000000LL, true}, {"min", 60000000000LL, true},
    {"fsec", 1953125, true},   // duration<double> seconds, q/512 s  (only with C12_FLOAT_SLEEP)
};
static const Form *form_by_name(const std::string &n) {
    for (auto &f : FORMS) if (n == f.name) return &f;
    return nullptr;
}
// the number of units to sleep for in manual mode (the clock is set to real(tp) - q*unit): not a whole
// number of milliseconds wherever the unit allows, sometimes negative (a time point in the past)
static long long pick_q(const Form &f, long c) {
    bool neg = c % 5 == 4;
    switch (f.unit) {
        case 1: return neg ? -700123 : 1900737 + 1009 * (c % 7);
        case 1000: return neg ? -700 : 1900 + 111 * (c % 9);
        case 500000: return 3 + 2 * (c % 4);
        case 1000000: return 2 + c % 5;
        case 1000000000LL: return 1 + c % 2;
        case 60000000000LL: return 1;
        case 1953125: return 1 + 2 * (c % 4);
        default: return 0;
    }
}

static char g_tags[16];
static const void *idptr(int id) { return id == 0 ? nullptr : (const void *) &g_tags[id]; }
static const int INTERVAL_ID = 9;

// ---------------------------------------------------------------------------------------------
// the world shared by both modes: scheduler, sleeps, slots, projection, audit of completions
// ---------------------------------------------------------------------------------------------
struct Sleep {
    std::unique_ptr<cocls::future<void>> f;   // null: the interval generator's internal future
    int slot = 0;
    int tp = 0;
    int co = 0;                 // 0 manual client, c awaiting coroutine, -1 generator
    std::string seen = "pending";   // state at the last audit
    // what an awaiting coroutine observed
    bool awaited = false;
    std::string obs = "pending";
    int resumes = 0;
    bool gen_done = false;      // generator sleep: retired
};

struct World {
    const Scenario &sc;
    Reporter &rep;
    std::unique_ptr<Probe> s{new Probe()};
    std::deque<Sleep> sleeps;
    std::vector<int> slot;      // slot k (1-based) -> index in sleeps, -1 free
    std::map<const void *, int> by_addr;   // future address -> index in sleeps
    bool start_mode = false;
    bool coro = false;
    TimeMap tm;
    std::vector<const Form *> forms;
    long phase = 0;
    static inline long nsleeps = 0;     // sleeps created in this scenario (all lifetimes): rotates the API form
    static inline std::map<std::string, long> form_uses;
    // interval()
    struct Gen {
        int period = 0;             // model time; 0: no such generator
        std::stop_source stops;
        std::optional<cocls::generator<std::size_t>> gen;
        std::unique_ptr<cocls::future<std::size_t>> gf;
        bool started = false, stop = false;
        int sleep = -1;             // index in sleeps of the generator's pending sleep
        const void *tag = nullptr, *waiter = nullptr;   // &tag / promise id of its sleeps, learned at its first sleep
    };
    Gen gens[2];                    // generator g = index + 1
    bool interval = false;          // any generator

    World(const Scenario &sc_, Reporter &rep_) : sc(sc_), rep(rep_) {
        slot.assign((std::size_t) sc.hdr.at("slots").as_int(4) + 1, -1);
        coro = sc.hdr.at("coro").as_bool();
        gens[0].period = (int) sc.hdr.at("interval").as_int(0);
        gens[1].period = (int) sc.hdr.at("interval2").as_int(0);
        interval = gens[0].period || gens[1].period;
        tm.load(sc.hdr.at("tm"));
        for (auto &x : sc.hdr.at("forms").l) {
            const Form *f = form_by_name(x.as_str());
            if (f) forms.push_back(f);
        }
        if (forms.empty()) forms.push_back(&FORMS[0]);
        phase = (long) sc.hdr.at("phase").as_int(0);
        vt::now = tm.real(0);
    }

    int free_slot() const {
        for (std::size_t k = 1; k < slot.size(); k++) if (slot[k] < 0) return (int) k;
        return 0;
    }
    int slot_of_promise(const void *pid) const {
        if (!pid) return 0;
        auto it = by_addr.find(pid);
        if (it != by_addr.end()) return sleeps[it->second].slot;
        for (auto &g : gens) if (g.waiter == pid && g.sleep >= 0) return sleeps[g.sleep].slot;   // a generator's `waiter`
        return -1;
    }
    int id_of(const void *p) const {
        if (!p) return 0;
        for (int i = 1; i < 16; i++) if (p == &g_tags[i]) return i;
        for (int g = 0; g < 2; g++) if (gens[g].tag == p) return INTERVAL_ID - g;
        return -1;
    }
    std::string gen_state(const Gen &g) {
        if (!g.started) return "none";
        if (!g.gf->ready()) return "sleep";
        // ready: value -> parked on co_yield; no value -> finished
        try { (void) g.gf->value(); return "yield"; }
        catch (const cocls::await_canceled_exception &) { return "done"; }
        catch (...) { return "other"; }
    }
    bool is_pending(const Sleep &sl) {
        if (sl.f) return !sl.f->ready();
        if (sl.co >= 0 || sl.co < -2) return false;
        const Gen &g = gens[-sl.co - 1];
        return !sl.gen_done && g.sleep >= 0 && &sleeps[g.sleep] == &sl && gen_state(g) == "sleep";
    }

    // ---- "sleep until model time tp" through one of the API forms (see the head comment)
    template <typename D>
    void sleep_for_form(Sleep &sl, long long q, int id) {
        sl.f.reset(new cocls::future<void>(s->sleep_for(D((typename D::rep) q), idptr(id))));
    }
    void request_sleep(Sleep &sl, int tp, int id) {
        long c = phase + nsleeps++;
        long long target = tm.real(tp);
        const Form *f = nullptr;
        long long q = 0;
        for (std::size_t i = 0; i < forms.size() && !f; i++) {
            const Form *g = forms[(std::size_t) (c + (long) i) % forms.size()];
            if (g->unit == 0) f = g;
#ifndef C12_FLOAT_SLEEP
            else if (g->unit == 1953125) continue;   // not accepted by the library: the next form takes its turn
#endif
            else if (!start_mode) { f = g; q = pick_q(*g, c); }
            else if (!g->manual_only && (target - vt::now) % g->unit == 0) { f = g; q = (target - vt::now) / g->unit; }
        }
        if (!f) f = &FORMS[0];
        form_uses[f->name]++;
        long long saved = vt::now;
        if (f->unit != 0 && !start_mode) vt::now = target - q * f->unit;   // the clock at the call: now + d == real(tp)
        vt::client_call = true;
        std::string n = f->name;
        if (n == "until") sl.f.reset(new cocls::future<void>(s->sleep_until(tm.point(tp), idptr(id))));
        else if (n == "sched") {
            sl.f.reset(new cocls::future<void>());
            s->schedule(idptr(id), sl.f->get_promise(), tm.point(tp));
        }
        else if (n == "ns") sleep_for_form<std::chrono::nanoseconds>(sl, q, id);
        else if (n == "us") sleep_for_form<std::chrono::microseconds>(sl, q, id);
        else if (n == "us32") sleep_for_form<std::chrono::duration<int, std::micro>>(sl, q, id);
        else if (n == "hms") sleep_for_form<std::chrono::duration<long, std::ratio<1, 2000>>>(sl, q, id);
        else if (n == "ms") sleep_for_form<std::chrono::milliseconds>(sl, q, id);
        else if (n == "s") sleep_for_form<std::chrono::seconds>(sl, q, id);
        else if (n == "min") sleep_for_form<std::chrono::minutes>(sl, q, id);
#ifdef C12_FLOAT_SLEEP
        else if (n == "fsec") sl.f.reset(new cocls::future<void>(s->sleep_for(std::chrono::duration<double>((double) q / 512.0), idptr(id))));
#endif
        vt::client_call = false;
        vt::now = saved;
    }

    // ---- creation of a sleep: returns index, reports whether notify_all was called
    int new_sleep(int tp, int id, int co, bool &notified) {
        int k = free_slot();
        sleeps.emplace_back();
        int idx = (int) sleeps.size() - 1;
        Sleep &sl = sleeps.back();
        sl.slot = k; sl.tp = tp; sl.co = co;
        if (k > 0) slot[k] = idx;
        long b0 = vt::broadcasts;
        request_sleep(sl, tp, id);
        notified = vt::broadcasts != b0;
        by_addr[sl.f.get()] = idx;
        return idx;
    }

    // ---- audit: the sleeps that changed state since the last audit are exactly `expect`
    //      (slot -> kind).  Returns "" or a description of the discrepancy.
    std::string audit(const std::map<int, std::string> &expect) {
        std::map<int, std::string> changed;
        std::string bad;
        for (std::size_t i = 0; i < sleeps.size(); i++) {
            Sleep &sl = sleeps[i];
            std::string cur;
            if (sl.f) cur = future_kind(*sl.f);
            else cur = is_pending(sl) ? "pending" : (sl.seen == "pending" ? "gen-ended" : sl.seen);
            if (sl.awaited && sl.f) {
                // what the awaiting coroutine saw must agree with the future; it is resumed at most once
                if (sl.resumes > 1) bad += " sleep#" + std::to_string(i) + " awaiting coroutine resumed " + std::to_string(sl.resumes) + " times;";
                if (sl.resumes == 1 && sl.obs != cur) bad += " sleep#" + std::to_string(i) + " coroutine observed " + sl.obs + " but future is " + cur + ";";
                if (sl.resumes == 1 && cur == "pending") bad += " sleep#" + std::to_string(i) + " coroutine resumed while future pending;";
                if (!start_mode && cur != "pending" && sl.resumes == 0) bad += " sleep#" + std::to_string(i) + " future " + cur + " but awaiting coroutine not resumed;";
            }
            if (cur != sl.seen) {
                if (sl.seen != "pending") bad += " sleep#" + std::to_string(i) + " changed AGAIN " + sl.seen + "->" + cur + ";";
                else if (sl.slot > 0 && slot[sl.slot] == (int) i) changed[sl.slot] = cur;
                else bad += " untracked sleep#" + std::to_string(i) + " changed to " + cur + ";";
                sl.seen = cur;
            }
        }
        for (auto &kv : changed) {
            auto it = expect.find(kv.first);
            std::string want = it == expect.end() ? "(nothing)" : it->second;
            std::string got = kv.second == "gen-ended" && it != expect.end() ? it->second : kv.second;   // generator's future is internal
            if (got != want) bad += " slot " + std::to_string(kv.first) + " completed as " + got + ", specification: " + want + ";";
            // retire
            int idx = slot[kv.first];
            slot[kv.first] = -1;
            if (idx >= 0) {
                if (sleeps[idx].f) by_addr.erase(sleeps[idx].f.get());
                else { sleeps[idx].gen_done = true; for (auto &g : gens) if (g.sleep == idx) g.sleep = -1; }
            }
        }
        for (auto &kv : expect) {
            if (!changed.count(kv.first)) bad += " slot " + std::to_string(kv.first) + " should have completed as " + kv.second + " but did not change;";
        }
        return bad;
    }

    std::map<int, std::string> all_pending_as(const std::string &kind) {
        std::map<int, std::string> m;
        for (std::size_t k = 1; k < slot.size(); k++) if (slot[k] >= 0) m[(int) k] = kind;
        return m;
    }

    // ---- projection
    J project_common() {
        J m = J::map();
        m.set("destroyed", s == nullptr);
        J heap = J::list();
        if (s) {
            s->each([&](std::chrono::system_clock::time_point tp, const void *ident, const void *pid) {
                J e = J::map();
                e.set("tp", tm.model(tp));
                e.set("id", id_of(ident));
                e.set("k", slot_of_promise(pid));
                heap.push(e);
            });
        }
        m.set("heap", heap);
        J fl = J::list();
        for (std::size_t k = 1; k < slot.size(); k++) {
            J e = J::map();
            bool pend = slot[k] >= 0 && is_pending(sleeps[slot[k]]);
            e.set("st", pend ? "pending" : "free");
            e.set("tp", pend ? sleeps[slot[k]].tp : 0);
            e.set("co", pend ? sleeps[slot[k]].co : 0);
            fl.push(e);
        }
        m.set("fut", fl);
        J gl = J::list();
        for (auto &gn : gens) {
            J g = J::map();
            g.set("st", gen_state(gn));
            g.set("stp", gn.stop);
            gl.push(g);
        }
        m.set("gen", gl);
        return m;
    }

    // tear down without tripping over "destroy of pending future"
    void teardown() {
        s.reset();                 // drops every promise still set
        for (auto &g : gens) { g.gf.reset(); g.gen.reset(); }
        for (auto &sl : sleeps) {
            if (sl.f && !sl.f->ready()) {
                if (!rep.failed()) rep.diverge(sc.steps.size() - 1, "a sleep future is still pending after the scheduler was destroyed");
                (void) sl.f.release();   // cannot be destroyed: leak it
            }
        }
    }
};

// a coroutine awaiting one sleep (manual mode, "coro" scenarios)
static cocls::async<void> awaiting(World &w, int idx) {
    Sleep &sl = w.sleeps[idx];
    std::string obs;
    try { co_await *sl.f; obs = "done"; }
    catch (const cocls::await_canceled_exception &) { obs = "await_canceled"; }
    catch (const CustomExc &) { obs = "custom"; }
    catch (...) { obs = "other"; }
    if (obs == "await_canceled") obs = FProbe::state_of(*sl.f) == cocls::future_common::State::exception ? "exc" : "canceled";
    sl.obs = obs;
    sl.resumes++;
}

// ---------------------------------------------------------------------------------------------
// manual mode
// ---------------------------------------------------------------------------------------------
struct ManualWorld : World {
    using World::World;

    // one lifetime of a scheduler: executes steps from `k` up to (not including) the next Construct
    std::size_t run(std::size_t k) {
        // interval(d): d = real(Interval) - real(0), not a whole number of milliseconds; the unit alternates per scenario
        // and is the same for both generators of the scheduler (one instantiation of interval<Rep,Period>)
        bool us = phase % 2 == 0;
        for (auto &g : gens) if (g.period && (tm.real(g.period) - tm.real(0)) % 1000 != 0) us = false;
        for (auto &g : gens) {
            if (!g.period) continue;
            long long d = tm.real(g.period) - tm.real(0);
            if (us) g.gen.emplace(s->interval(std::chrono::microseconds(d / 1000), g.stops.get_token()));
            else g.gen.emplace(s->interval(std::chrono::nanoseconds(d), g.stops.get_token()));
        }
        for (; k < sc.steps.size(); k++) {
            const Step &st = sc.steps[k];
            if (st.name == "Construct") break;
            std::map<int, std::string> expect;
            std::string out_bad;
            if (st.name == "Schedule") {
                bool ntf = false;
                int idx = new_sleep(st.iarg(0), st.iarg(1), 0, ntf);
                if (coro) { sleeps[idx].awaited = true; awaiting(*this, idx).detach(); }
                if ((int) ntf != st.iarg(2)) out_bad = std::string("schedule() ") + (ntf ? "notified" : "did not notify") + " the condition variable";
            } else if (st.name == "GetExpired") {
                auto e = s->get_expired(tm.point(st.iarg(0)));
                if (std::holds_alternative<cocls::scheduler::promise>(e)) {
                    auto &p = std::get<cocls::scheduler::promise>(e);
                    int kslot = slot_of_promise(p.get_id());
                    if (st.sarg(1) != "promise" || kslot != st.iarg(2)) out_bad = "get_expired returned the promise of slot " + std::to_string(kslot);
                    if (kslot > 0) expect[kslot] = "done";
                    p();   // the client resolves it
                } else {
                    J v = tm.model(std::get<std::chrono::system_clock::time_point>(e));
                    if (st.sarg(1) != "time" || v.dump() != std::to_string(st.iarg(2))) out_bad = "get_expired returned time point " + v.dump();
                }
            } else if (st.name == "Remove") {
                {
                    cocls::scheduler::promise p = s->remove(idptr(st.iarg(0)));
                    int kslot = p ? slot_of_promise(p.get_id()) : 0;
                    if (kslot != st.iarg(1)) out_bad = "remove returned " + (p ? "the promise of slot " + std::to_string(kslot) : std::string("an empty promise"));
                    if (kslot > 0) expect[kslot] = "canceled";
                }   // dropped here
            } else if (st.name == "Cancel") {
                bool r;
                if (st.sarg(1) == "exc") r = s->cancel(idptr(st.iarg(0)));
                else r = s->cancel(idptr(st.iarg(0)), std::make_exception_ptr(CustomExc()));
                if (r != (st.iarg(2) != 0)) out_bad = std::string("cancel returned ") + (r ? "true" : "false");
                if (st.iarg(2) != 0) expect[st.iarg(2)] = st.sarg(1);
            } else if (st.name == "IntervalCall") {          // IntervalCall(g, ntf)
                Gen &g = gens[st.iarg(0) - 1];
                int kslot = free_slot();
                long b0 = vt::broadcasts;
                std::set<std::pair<const void *, const void *>> before;
                std::size_t n0 = 0;
                s->each([&](auto, const void *ident, const void *pid) { n0++; before.insert({ident, pid}); });
                g.gf.reset();
                vt::client_call = true;    // the generator reads the clock (next = now()+dur)
                g.gf.reset(new cocls::future<std::size_t>((*g.gen)()));
                vt::client_call = false;
                g.started = true;
                std::size_t n1 = 0;
                const void *nident = nullptr, *npid = nullptr;
                s->each([&](auto, const void *ident, const void *pid) { n1++; if (pid && !before.count({ident, pid})) { nident = ident; npid = pid; } });
                if (n1 == n0 + 1) {   // the generator went to sleep: a sleep whose future is inside its frame
                    if (!g.tag) { g.tag = nident; g.waiter = npid; }
                    sleeps.emplace_back();
                    Sleep &sl = sleeps.back();
                    sl.slot = kslot; sl.tp = g.period; sl.co = -st.iarg(0);   // model now is 0 in manual mode
                    g.sleep = (int) sleeps.size() - 1;
                    if (kslot > 0) slot[kslot] = g.sleep;
                }
                bool ntf = vt::broadcasts != b0;
                if ((int) ntf != st.iarg(1)) out_bad = std::string("interval sleep ") + (ntf ? "notified" : "did not notify");
            } else if (st.name == "IntervalStop") {          // IntervalStop(g, k)
                Gen &g = gens[st.iarg(0) - 1];
                g.stops.request_stop();
                g.stop = true;
                if (st.iarg(1) != 0) expect[st.iarg(1)] = "exc";
            } else if (st.name == "Destroy") {
                expect = all_pending_as("canceled");
                s.reset();
            } else {
                rep.error(k, "unknown action");
                break;
            }
            std::string bad = audit(expect);
            if (!out_bad.empty() || !bad.empty()) {
                rep.diverge(k, "output/effect differs from the specification: " + out_bad + bad + " state=" + project_common().dump());
                break;
            }
            if (!rep.check(k, project_common())) break;
        }
        teardown();
        return k;
    }
};

// ---------------------------------------------------------------------------------------------
// start(awaitable) mode
// ---------------------------------------------------------------------------------------------
struct SelfHandle {
    std::coroutine_handle<> h;
    bool await_ready() const noexcept { return false; }
    bool await_suspend(std::coroutine_handle<> hh) noexcept { h = hh; return false; }
    std::coroutine_handle<> await_resume() const noexcept { return h; }
};

struct StartWorld : World, vt::Hooks {
    struct Co {
        std::string st = "ready", wst = "none";
        long long wat = 0;
        void *h = nullptr;
        int cur = -1;          // index of the sleep it awaits / awaited last
        bool observed = true;  // the coroutine has resumed from `cur`
    };
    int nc = 1;
    std::vector<Co> cos;
    std::size_t pos = 0;         // next step to take
    std::size_t first = 0;       // first step of this run
    bool aborting = false, destroying = false;
    bool truncated = false;      // the scenario ended in the middle of a run (paths are cut at a maximal length)
    std::string phase = "active";
    std::map<int, std::string> expect;   // completions the step in progress must cause
    // the awaited operation of this run (see the head comment)
    struct Plan { std::string r = "void", via = "direct"; bool val = false; int form = 0; int value = 0; bool by_dtor = false; };
    Plan plan;
    int run_no = 0;              // start() calls on this scheduler object before this one
    std::string res = "none";    // what start() did: "void" | "val" | "exc" | "drop" | ...
    std::optional<cocls::future<void>> mfv;   // the awaited future (forms that await a future)
    std::optional<cocls::future<int>> mfi;
    cocls::promise<void> mpv;                 // its promise, held by coroutine 1 (via "queued")
    cocls::promise<int> mpi;
    bool cb_may_queue = false;   // the promise was resolved by hand while start() awaited the future
    std::set<void *> worker_hs;  // foreign handles that were queued before that: the worker coroutine
    static inline long nruns = 0;   // start() calls in this process: rotates the awaitable forms
    static inline std::map<std::string, long> main_uses;

    StartWorld(const Scenario &sc_, Reporter &rep_, std::size_t pos_) : World(sc_, rep_), pos(pos_) {
        start_mode = true;
        vt::now = tm.real(0);       // a new run starts at model time 0
        vt::post_wait = false;
        first = pos_;
        nc = (int) sc.hdr.at("nc").as_int(1);
        cos.resize((std::size_t) nc + 1);
    }

    J project() {
        J m = project_common();
        m.set("now", tm.model(vt::now));
        m.set("phase", phase);
        J q = J::list();
        if (cocls::coro_queue::instance) {
            for (auto h : cocls::coro_queue::instance->_queue) {
                // a handle that is not one of ours is the worker coroutine, or -- after the awaited future was resolved
                // by hand -- the callback_await coroutine of start() (it was not queued before that)
                int who = cb_may_queue && !worker_hs.count(h.address()) ? -2 : 0;
                for (int c = 1; c <= nc; c++) if (cos[(std::size_t) c].h == h.address()) who = c;
                q.push(who);
            }
        }
        m.set("rq", q);
        J cl = J::list();
        for (int c = 1; c <= nc; c++) {
            Co &co = cos[(std::size_t) c];
            J e = J::map();
            std::string st = co.st, wst = co.wst;
            long long wat = co.wat;
            if (co.st == "sleep" && co.cur >= 0 && !co.observed && sleeps[co.cur].f->ready()) {
                // completed, the coroutine has not run yet: it will see this, now
                st = "ready";
                wst = future_kind(*sleeps[co.cur].f);
                wat = vt::now;
            }
            e.set("st", st); e.set("wst", wst); e.set("wat", wst == "none" ? J(0) : tm.model(wat));
            cl.push(e);
        }
        m.set("cst", cl);
        m.set("res", res);
        m.set("runs", run_no + 1);
        return m;
    }

    // An event of the real execution: first the state the previous step must have reached is
    // compared, then the next step of the scenario is taken; the caller checks it is the right one.
    const Step *begin_event(const std::string &what) {
        if (aborting) return nullptr;
        if (pos > first) {
            std::string bad = audit(expect);
            expect.clear();
            if (!bad.empty()) { rep.diverge(pos - 1, "effect differs from the specification:" + bad + " state=" + project().dump()); aborting = true; return nullptr; }
            if (!rep.check(pos - 1, project())) { aborting = true; return nullptr; }
        }
        if (pos >= sc.steps.size()) {   // the scenario is a prefix of a run: let the run finish unobserved
            truncated = true;
            aborting = true;
            return nullptr;
        }
        return &sc.steps[pos++];
    }
    void wrong(const Step *st, const std::string &what) {
        rep.diverge(pos - 1, "specification expects " + st->label + ", the real execution does: " + what + " state=" + project().dump());
        aborting = true;
    }

    // ---- worker observed through the virtual clock
    void on_clock() override {
        const Step *st = begin_event("worker polls (reads the clock)");
        if (!st) return;
        if (st->name != "WorkerPoll") { wrong(st, "worker polls (reads the clock)"); return; }
        if (st->iarg(0) != 0) expect[st->iarg(0)] = "done";
    }
    void on_wait(long long ns) override {
        if (ns >= vt::FOREVER * 1000000000LL) {
            if (!aborting) rep.diverge(pos ? pos - 1 : 0, "worker waits on the condition variable without a deadline: start() hangs");
            fflush(stdout);
            vt::fatal("wait_until(time_point::max()) in single-thread start(): hang");
        }
        const Step *st = begin_event("worker waits until " + tm.model(ns).dump());
        if (!st) return;
        if (st->name != "WorkerWait") wrong(st, "worker waits until " + tm.model(ns).dump());
    }

    // ---- the awaited operation of start(): plan, forms
    // The run's end is looked up in the scenario: CoFinish(1, r, via) up to the next start().  A run the scenario
    // leaves in the middle gets a void coroutine.
    void make_plan() {
        plan = Plan();
        long n = World::phase + nruns++;
        for (std::size_t i = pos; i < sc.steps.size(); i++) {
            const Step &st = sc.steps[i];
            if (st.name == "Restart" || st.name == "StartAgain") break;
            if (st.name == "CoFinish" && st.iarg(0) == 1) { plan.r = st.sarg(1); plan.via = st.sarg(2); break; }
        }
        plan.val = plan.r == "val" || (plan.r != "void" && (n / 3) % 2 == 1);   // exceptions / drops: both instantiations
        plan.form = (int) (n % 3);
        plan.by_dtor = n % 2 == 1;
        plan.value = 4200 + (int) (n % 97);
    }
    template <typename T> std::optional<cocls::future<T>> &main_future() { if constexpr (std::is_void_v<T>) return mfv; else return mfi; }
    template <typename T> cocls::promise<T> &main_promise() { if constexpr (std::is_void_v<T>) return mpv; else return mpi; }

    // what start(awt) did: "void" returned | "val" returned the planned value | "exc" threw the operation's exception |
    // "drop" threw await_canceled_exception | something else (never expected)
    template <typename T, typename A>
    std::string call_start(A &&awt) {
        try {
            if constexpr (std::is_void_v<T>) {
                static_assert(std::is_void_v<decltype(s->start(std::forward<A>(awt)))>);
                s->start(std::forward<A>(awt));
                return "void";
            } else {
                T v = s->start(std::forward<A>(awt));
                return v == plan.value ? "val" : "val:" + std::to_string(v) + " instead of " + std::to_string(plan.value);
            }
        }
        catch (const MainExc &) { return "exc"; }
        catch (const cocls::await_canceled_exception &) { return "drop"; }
        catch (const std::exception &e) { return std::string("exception ") + e.what(); }
        catch (...) { return "unknown exception"; }
    }
    template <typename T>
    std::string start_form() {
        auto &mf = main_future<T>();
        mf.reset();
        std::string name = plan.via == "queued" ? "promise" : plan.form == 0 ? "async&&" : plan.form == 1 ? "async&" : "future(async)";
        main_uses[name + (std::is_void_v<T> ? "<void>:" : "<int>:") + plan.r + (run_no ? ":again" : "")]++;
        if (plan.via == "queued") {
            mf.emplace();
            main_promise<T>() = mf->get_promise();
            { cocls::suspend_point<void> sp = body<void>(1).detach(); }   // runs now, under its own temporary coro_queue
            return call_start<T>(*mf);
        }
        if (plan.form == 0) return call_start<T>(body<T>(1));
        if (plan.form == 1) { cocls::async<T> a = body<T>(1); return call_start<T>(a); }
        mf.emplace(body<T>(1));     // future<T>(async<T>&&): the coroutine starts now, under its own temporary coro_queue
        return call_start<T>(*mf);
    }
    // via "queued": coroutine 1 resolves / drops the promise of the awaited future by hand and discards the suspend
    // point.  planned = false: the scenario was left (divergence / truncated): drop it, so that start() ends.
    template <typename T, typename... Args>
    void resolve_main(const std::string &r, Args &&... value) {
        cocls::promise<T> &p = main_promise<T>();
        if (r == "void" || r == "val") (void) (bool) p(std::forward<Args>(value)...);
        else if (r == "exc") (void) (bool) p(std::make_exception_ptr(MainExc()));
        else if (plan.by_dtor) { cocls::promise<T> local(std::move(p)); }   // ~promise
        else (void) (bool) p(cocls::drop);
    }
    void end_main_by_hand(bool planned) {
        // whoever is queued now is not the callback_await coroutine of start(): that one still awaits the future
        if (cocls::coro_queue::instance) {
            for (auto h : cocls::coro_queue::instance->_queue) {
                bool ours = false;
                for (int c = 1; c <= nc; c++) ours |= cos[(std::size_t) c].h == h.address();
                if (!ours) worker_hs.insert(h.address());
            }
        }
        cb_may_queue = true;
        std::string r = planned ? plan.r : "drop";
        if (plan.val) resolve_main<int>(r, plan.value);
        else resolve_main<void>(r);
    }

    // ---- client coroutines.  T: what the coroutine yields to its awaiter (coroutine 1 awaited directly: void / int)
    template <typename T>
    cocls::async<T> body(int c) {
        Co &me = cos[(std::size_t) c];
        if (c == 1) {
            std::coroutine_handle<> self = co_await SelfHandle{};
            me.h = self.address();
            for (int i = 2; i <= nc && run_no == 0; i++) {
                // == body(i).detach() with the suspend point discarded: the handle goes to the queue
                cocls::suspend_point<void> sp = body<void>(i).detach();
                std::coroutine_handle<> h = sp.pop();
                cos[(std::size_t) i].h = h.address();
                cocls::coro_queue::resume(h);
            }
        }
        bool finished = false;
        for (;;) {
            const Step *st = begin_event("coroutine " + std::to_string(c) + " runs");
            if (!st) break;
            if ((st->name != "CoSleep" && st->name != "CoCancel" && st->name != "CoFinish") || st->iarg(0) != c) {
                wrong(st, "coroutine " + std::to_string(c) + " runs");
                break;
            }
            if (st->name == "CoFinish") { finished = true; break; }
            if (st->name == "CoCancel") {
                bool r;
                if (st->sarg(2) == "exc") r = s->cancel(idptr(st->iarg(1)));
                else r = s->cancel(idptr(st->iarg(1)), std::make_exception_ptr(CustomExc()));
                if (r != (st->iarg(3) != 0)) { wrong(st, std::string("cancel returned ") + (r ? "true" : "false")); break; }
                if (st->iarg(3) != 0) expect[st->iarg(3)] = st->sarg(2);
                continue;
            }
            // CoSleep(c, tp, id, ntf)
            bool ntf = false;
            int idx = new_sleep(st->iarg(1), st->iarg(2), c, ntf);
            if ((int) ntf != st->iarg(3)) { wrong(st, std::string("schedule() ") + (ntf ? "notified" : "did not notify")); break; }
            Sleep &sl = sleeps[idx];
            sl.awaited = true;
            me.st = "sleep"; me.wst = "none"; me.wat = 0; me.cur = idx; me.observed = false;
            std::string obs;
            try { co_await *sl.f; obs = "done"; }
            catch (const cocls::await_canceled_exception &) { obs = "await_canceled"; }
            catch (const CustomExc &) { obs = "custom"; }
            catch (...) { obs = "other"; }
            if (obs == "await_canceled") obs = FProbe::state_of(*sl.f) == cocls::future_common::State::exception ? "exc" : "canceled";
            sl.obs = obs;
            sl.resumes++;
            me.observed = true;
            me.wst = obs;
            me.wat = vt::now;          // the virtual time at which the sleeper actually runs
            if (destroying) { finished = false; break; }
            me.st = "ready";
        }
        me.st = "done";
        if (!destroying) { me.wst = "none"; me.wat = 0; }
        if (c == 1 && !destroying) {
            if (plan.via == "queued") end_main_by_hand(finished);
            else if (finished && plan.r == "exc") throw MainExc();
        }
        if constexpr (std::is_void_v<T>) co_return;
        else co_return T(plan.value);
    }

    void run() {
        for (;;) {
            make_plan();
            vt::hooks = this;
            std::string got = plan.val ? start_form<int>() : start_form<void>();
            vt::hooks = nullptr;
            if (aborting) break;
            const Step *st = begin_event("start() ends: " + got);
            if (!st) break;
            if (st->name != "StartReturn" || st->sarg(0) != got) {
                wrong(st, "start() ends as '" + got + "' (void: returns; val: returns the value; exc: rethrows the exception of the "
                          "awaited operation; drop: throws await_canceled_exception), awaitable " + plan.via + "/" + std::to_string(plan.form) +
                          (plan.val ? "<int>" : "<void>"));
                break;
            }
            phase = "returned";
            res = got;
            st = begin_event("~scheduler / start() again");
            if (!st) break;
            if (st->name == "StartAgain") {
                // the same scheduler object, a new awaited operation; the other coroutines are where they are
                run_no++;
                phase = "active";
                res = "none";
                cos[1] = Co();
                cb_may_queue = false;
                worker_hs.clear();
                continue;
            }
            if (st->name != "DestroyAfterStart") { wrong(st, "~scheduler"); break; }
            expect = all_pending_as("canceled");
            destroying = true;
            s.reset();
            phase = "destroyed";
            break;
        }
        if (!aborting) {
            std::string bad = audit(expect);
            if (!bad.empty()) rep.diverge(pos - 1, "effect differs from the specification:" + bad);
            else if (rep.check(pos - 1, project()) && pos < sc.steps.size() && sc.steps[pos].name != "Restart")
                rep.diverge(pos, "the real execution ended, the scenario goes on");
        }
        destroying = true;
        teardown();
        mfv.reset();
        mfi.reset();
        for (int c = 1; c <= nc; c++) {
            if (cos[(std::size_t) c].st != "done" && !rep.failed())
                rep.diverge(sc.steps.size() - 1, "coroutine " + std::to_string(c) + " never finished");
        }
    }
};

int main() {
    signal(SIGALRM, on_alarm);
    int rc = replay_main(std::cin, [](const Scenario &sc, Reporter &rep) {
        World::nsleeps = 0;
        StartWorld::nruns = 0;
        vt::post_wait = false;
        vt::where = sc.id.c_str();
        vt::guard_locks = true;
        alarm(20);   // watchdog only: a scenario takes milliseconds
        // a scenario spans several lifetimes: ... Destroy, Construct, ... / ... DestroyAfterStart, Restart, ...
        bool start = sc.hdr.at("mode").as_str("manual") == "start";
        std::size_t pos = 0;
        while (pos < sc.steps.size() && !rep.failed()) {
            if (start) {
                StartWorld w(sc, rep, pos);
                if (pos > 0) {
                    // the Restart step: a fresh world; the state it leads to (awaited coroutine running, the
                    // others queued) is compared at the first event of the new run
                    if (sc.steps[pos].name != "Restart") { rep.error(pos, "Restart expected"); break; }
                    w.first = pos;
                    w.pos = pos + 1;
                    if (w.pos >= sc.steps.size()) break;
                }
                w.run();
                pos = w.pos;
                if (w.truncated) break;
            } else {
                ManualWorld w(sc, rep);
                if (pos > 0) {   // the Construct step: a fresh world
                    if (!rep.check(pos, w.project_common())) break;
                    pos++;
                }
                pos = w.run(pos);
            }
        }
        alarm(0);
        vt::guard_locks = false;
    });
    // how often each API form requested a sleep (informational, after the SUMMARY line)
    printf("FORMS");
    for (auto &kv : World::form_uses) printf(" %s=%ld", kv.first.c_str(), kv.second);
    printf("\n");
    // how often each form of the awaited operation of start() was used: form<T>:end[:again]
    printf("MAINFORMS");
    for (auto &kv : StartWorld::main_uses) printf(" %s=%ld", kv.first.c_str(), kv.second);
    printf("\n");
    if (const char *log = getenv("C12_FORMS_LOG")) {   // development aid: which forms a run used
        if (FILE *f = fopen(log, "a")) {
            fprintf(f, "FORMS");
            for (auto &kv : World::form_uses) fprintf(f, " %s=%ld", kv.first.c_str(), kv.second);
            fprintf(f, "\nMAINFORMS");
            for (auto &kv : StartWorld::main_uses) fprintf(f, " %s=%ld", kv.first.c_str(), kv.second);
            fprintf(f, "\n");
            fclose(f);
        }
    }
    return rc;
}
