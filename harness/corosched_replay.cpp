// corosched_replay.cpp -- replays programs enumerated by spec/CoroSched/CoroSched.tla on the real
// cocls coroutine machinery (coro_queue, suspend_point, async, future/promise, mutex, queue) of ONE
// thread and compares what the scripted coroutines observe with the specification's history.
//
// A scenario is one maximal path of the specification's state graph = one complete program:
//     BEGIN <id> {"swap":bool,"pool":bool}
//     Run\t{"errors":[],"ev":[...],"final":{...},"script":{"0":[[kind,arg]...],"1":...}}
//     END
// The replayer reads the scripts out of the expected projection (the specification chose them step by
// step along the path), runs the whole program on the real library in one go and rebuilds the same
// projection from what really happened:
//   ev     every event [coroutine, step, kind, ready deque as seen at that moment, coroutine mode 0/1]
//          kind b: step begins  s: the step's awaiter got await_suspend  e: co_await completed
//               f: body finished (locals destroyed)      r: the nested start() of the step returned
//               coroutine 0 = native driver (b/e around a call; t instead of e: the call was left by an exception;
//               x / y: the function given to install_queue_and_call / create_suspend_point is being left - logged by the
//               destructor of one of its locals, i.e. on return as well as during unwinding; h: native code holds the
//               suspend point returned by create_suspend_point)
//   final  deque / coroutine-mode flag after the native driver finished, resumptions and state per
//          coroutine ("new" never created, "done" finished and frame destroyed exactly once)
//   errors checks made on the C++ side only (two coroutines running at once, frame destroyed twice,
//          script overrun ...): expected to be empty
// header "swap": co_await pause() is replaced by an awaiter built on coro_queue::swap_coroutine; it also selects (together
// with the parity of the native step) whether the function given to install_queue_and_call / create_suspend_point
// returns void or a value (both forms have their own code in the library).
//
// The 5th field of an event is the MODE: (1 iff coro_queue::is_active()) + (2 iff the event is logged on the thread
// pool's worker thread).  Programs with pool steps (po pr pw px) run a real cocls::thread_pool with ONE worker.  The
// native driver keeps the two threads from ever executing at the same time: before a native step it parks the worker
// in a "gate" closure, performs the step on the native thread (closures the library hands to the pool pile up behind
// the gate), queues an observation closure, opens the gate and blocks until that closure (event "w", logged ON the
// worker: its deque must be empty and coroutine mode off) reports the pool dry.  The history is therefore
// sequential and deterministic although two real threads (and two thread-local ready queues) are involved.
//
// -DCOROSCHED_NO_PRIVATE: fallback build that does not look at the representation of the ready deque
// (coro_queue::queue_impl::_queue) nor at async<>::_h: deque snapshots are reported as empty (the driver blanks them
// in the expectation as well) and the comparison rests on the event history, coroutine mode and the counters alone.
#include <cocls/async.h>
#include <cocls/future.h>
#include <cocls/mutex.h>
#include <cocls/queue.h>
#include <cocls/self.h>
#include "replay_common.h"

#include <cocls/thread_pool.h>

#include <condition_variable>
#include <deque>
#include <mutex>
#include <thread>

using namespace rp;

struct World;

struct StepD {
    std::string k;
    int a = 0;
};

// lives in the coroutine frame as a by-value parameter: destroyed when the frame is destroyed
struct Tok {
    World *w = nullptr;
    int me = 0;
    Tok(World *w_, int me_) : w(w_), me(me_) {}
    Tok(Tok &&o) : w(std::exchange(o.w, nullptr)), me(o.me) {}
    Tok(const Tok &) = delete;
    ~Tok();
};

#ifndef COROSCHED_NO_PRIVATE
struct AProbe : cocls::async<void> {
    static std::coroutine_handle<> handle(cocls::async<void> &a) { return a.*(&AProbe::_h); }
};
#endif

cocls::async<void> body(World &w, int me, Tok tok);

struct World {
    static constexpr std::size_t max_events = 4000;

    std::vector<std::vector<StepD>> script;   // 0..N
    int N = 0;
    bool use_swap = false;

    std::vector<std::unique_ptr<cocls::future<void>>> fut;   // 1-based
    std::vector<cocls::promise<void>> prom;
    cocls::mutex mx;
    cocls::queue<void> q;
    std::deque<std::coroutine_handle<>> parked;
    std::thread::id native_thread = std::this_thread::get_id();
    // gate that parks the pool's worker while the native thread executes a step
    std::mutex gate_mx;
    std::condition_variable gate_cv;
    bool gate_open = false;
    bool pool_dry = false;

    std::map<void *, int> ids;     // coroutine frame address -> coroutine id
    int created = 0;
    std::vector<int> running, finished, destroyed, resumes, suspended, incall;
    J ev = J::list();
    std::size_t nev = 0;
    std::vector<std::string> errors;

    void err(const std::string &s) {
        if (errors.size() < 8) errors.push_back(s);
    }

    // the EXECUTING thread's ready deque (thread_local)
    static J deque_ids(World &w) {
        J l = J::list();
#ifndef COROSCHED_NO_PRIVATE
        for (auto h : cocls::coro_queue::queue_impl::instance._queue) {
            auto it = w.ids.find(h.address());
            l.push(it == w.ids.end() ? -1 : it->second);
        }
#else
        (void) w;
#endif
        return l;
    }

    int mode() const {
        return (cocls::coro_queue::is_active() ? 1 : 0) + (std::this_thread::get_id() != native_thread ? 2 : 0);
    }

    void log(int c, int i, const char *kind) {
        if (++nev > max_events) {
            // only a broken scheduler gets here (e.g. a coroutine handle that is resumed for ever)
            printf("FATAL event limit exceeded\n");
            fflush(stdout);
            std::abort();
        }
        J e = J::list();
        e.push(c).push(i).push(kind).push(deque_ids(*this)).push(mode());
        ev.push(std::move(e));
        if (c == 0) return;
        char k = kind[0];
        if ((k == 'b' && i == 1) || (k == 'e' && suspended[c])) {
            // c got control: everybody else is suspended, finished, or waits inside a nested start()
            for (int x = 1; x <= N; x++) {
                if (running[x] && (x == c || !incall[x])) err("coroutine " + std::to_string(c) + " got control while " + std::to_string(x) + " is running");
            }
            if (finished[c]) err("coroutine " + std::to_string(c) + " got control after it finished");
            running[c] = 1;
            suspended[c] = 0;
            resumes[c]++;
        } else if (k == 'r') {
            incall[c] = 0;
            for (int x = 1; x <= N; x++) {
                if (x != c && running[x] && !incall[x]) err("start() returned to " + std::to_string(c) + " while " + std::to_string(x) + " is running");
            }
        } else if (k == 's') {
            running[c] = 0;
            suspended[c] = 1;
        } else if (k == 'f') {
            running[c] = 0;
            finished[c]++;
        }
        if ((k == 'b' || k == 'e' || k == 'r') && !running[c]) err("coroutine " + std::to_string(c) + " executes while not running");
    }

    cocls::async<void> make(int &child) {
        child = ++created;
        if (child > N) {
            err("more coroutines created than the program has");
            child = created = N;
        }
        cocls::async<void> a = body(*this, child, Tok(this, child));
#ifndef COROSCHED_NO_PRIVATE
        ids[AProbe::handle(a).address()] = child;
#endif
        return a;
    }

    // declared last: destroyed first (stop() joins the worker before anything it may still touch goes away)
    std::unique_ptr<cocls::thread_pool> pool;
    // a thread pool that has been stopped before the program starts (step pc)
    std::unique_ptr<cocls::thread_pool> dead;

    bool all_done() const {
        for (int c = 1; c <= created; c++) {
            if (!(finished[c] == 1 && destroyed[c] == 1)) return false;
        }
        return true;
    }
};

inline Tok::~Tok() {
    if (w) {
        if (++w->destroyed[me] > 1) w->err("frame of coroutine " + std::to_string(me) + " destroyed twice");
        if (!w->finished[me]) w->err("frame of coroutine " + std::to_string(me) + " destroyed before it finished");
    }
}

// observes the suspension of the awaiting coroutine, forwards everything to the library's awaiter
template <typename A>
struct Obs {
    World &w;
    int me;
    int i;
    A inner;
    // `make` returns the library awaiter as a prvalue: constructed in place, never copied or moved
    template <typename F>
    Obs(World &w_, int me_, int i_, F &&make) : w(w_), me(me_), i(i_), inner(make()) {}
    Obs(const Obs &) = delete;
    Obs &operator=(const Obs &) = delete;
    bool await_ready() { return inner.await_ready(); }
    auto await_suspend(std::coroutine_handle<> h) {
        w.log(me, i, "s");
        return inner.await_suspend(h);
    }
    decltype(auto) await_resume() { return inner.await_resume(); }
};

// the same around an awaitable VARIABLE (awaited in place, not moved)
template <typename A>
struct ObsRef {
    World &w;
    int me;
    int i;
    A &inner;
    bool await_ready() { return inner.await_ready(); }
    auto await_suspend(std::coroutine_handle<> h) {
        w.log(me, i, "s");
        return inner.await_suspend(h);
    }
    decltype(auto) await_resume() { return inner.await_resume(); }
};

// stand-in for an external event source: keeps the handle until somebody calls coro_queue::resume
struct ParkAw {
    World &w;
    bool await_ready() { return false; }
    void await_suspend(std::coroutine_handle<> h) { w.parked.push_back(h); }
    void await_resume() {}
};

// pause() spelled with coro_queue::swap_coroutine
struct SwapYield {
    bool await_ready() { return false; }
    std::coroutine_handle<> await_suspend(std::coroutine_handle<> h) { return cocls::coro_queue::swap_coroutine(h); }
    void await_resume() {}
};

// the exception scripted code throws (step rx: out of a coroutine body; ix cx ct: out of the function given to
// install_queue_and_call / create_suspend_point)
struct ScriptExc {};

// local of the function given to install_queue_and_call / create_suspend_point: logs when the function is left
struct ExitLog {
    World &w;
    int c;
    int i;
    bool collects;   // create_suspend_point: on normal return the entries are withdrawn from the deque afterwards
    ~ExitLog() { w.log(c, i, (collects && std::uncaught_exceptions() == 0) ? "y" : "x"); }
};

struct Fin {
    World &w;
    int me;
    int i = 0;
    ~Fin() { w.log(me, i, "f"); }
};

using SPb = cocls::suspend_point<bool>;
using SPv = cocls::suspend_point<void>;
using FutAw = cocls::co_awaiter<cocls::future<void>>;

cocls::async<void> body(World &w, int me, Tok tok) {
    Fin fin{w, me};                    // destroyed last: logs "f"
    cocls::mutex::ownership own;       // destroyed second: releases the mutex if still held
    cocls::suspend_point<void> acc;    // destroyed first: the reused suspend point variable flushes what it holds
    for (int i = 1;; i++) {
        if ((std::size_t) i > w.script[me].size()) {
            w.err("coroutine " + std::to_string(me) + " ran past the end of its script");
            fin.i = i;
            co_return;
        }
        const std::string k = w.script[me][i - 1].k;
        const int a = w.script[me][i - 1].a;
        fin.i = i;
        w.log(me, i, "b");
        if (k == "pa") {
            if (w.use_swap) { Obs<SwapYield> o(w, me, i, [&] { return SwapYield{}; }); co_await o; }
            else { Obs<cocls::pause> o(w, me, i, [&] { return cocls::pause{}; }); co_await o; }
            w.log(me, i, "e");
        } else if (k == "rd") {
            w.prom[a]();
        } else if (k == "ra") {
            { Obs<SPb> o(w, me, i, [&] { return w.prom[a](); }); co_await o; }
            w.log(me, i, "e");
        } else if (k == "aw") {
            // (the future may carry the exception of a bound coroutine that left its body by `rx`)
            { Obs<FutAw> o(w, me, i, [&] { return w.fut[a]->operator co_await(); }); try { co_await o; } catch (const ScriptExc &) {} }
            w.log(me, i, "e");
        } else if (k == "sd") {
            int child;
            cocls::async<void> c = w.make(child);
            c.detach();
        } else if (k == "sa") {
            int child;
            cocls::async<void> c = w.make(child);
            { Obs<SPv> o(w, me, i, [&] { return c.detach(); }); co_await o; }
            w.log(me, i, "e");
        } else if (k == "sc") {
            int child;
            cocls::async<void> c = w.make(child);
            { Obs<cocls::async<void>::co_awaiter> o(w, me, i, [&] { return c.operator co_await(); }); try { co_await o; } catch (const ScriptExc &) {} }
            w.log(me, i, "e");
        } else if (k == "st") {
            int child;
            cocls::async<void> c = w.make(child);
            w.incall[me] = 1;
            cocls::future<void> f = c.start();   // coroutine mode: the child is resumed nested, right here
            w.log(me, i, "r");
            { Obs<FutAw> o(w, me, i, [&] { return f.operator co_await(); }); try { co_await o; } catch (const ScriptExc &) {} }
            w.log(me, i, "e");
        } else if (k == "bd") {
            int child;
            cocls::async<void> c = w.make(child);
            c.start(w.prom[a]);
        } else if (k == "ba") {
            int child;
            cocls::async<void> c = w.make(child);
            { Obs<SPb> o(w, me, i, [&] { return c.start(w.prom[a]); }); co_await o; }
            w.log(me, i, "e");
        } else if (k == "pk") {
            { Obs<ParkAw> o(w, me, i, [&] { return ParkAw{w}; }); co_await o; }
            w.log(me, i, "e");
        } else if (k == "up") {
            if (!w.parked.empty()) {
                auto h = w.parked.front();
                w.parked.pop_front();
                cocls::coro_queue::resume(h);
            }
        } else if (k == "lk") {
            { Obs<cocls::co_awaiter<cocls::mutex>> o(w, me, i, [&] { return w.mx.lock(); }); own = co_await o; }
            w.log(me, i, "e");
        } else if (k == "ld") {
            own.release();
        } else if (k == "la") {
            { Obs<SPv> o(w, me, i, [&] { return own.release(); }); co_await o; }
            w.log(me, i, "e");
        } else if (k == "qo") {
            cocls::future<void> f = w.q.pop();
            { Obs<FutAw> o(w, me, i, [&] { return f.operator co_await(); }); co_await o; }
            w.log(me, i, "e");
        } else if (k == "qd") {
            w.q.push();
        } else if (k == "qa") {
            { Obs<SPb> o(w, me, i, [&] { return w.q.push(); }); co_await o; }
            w.log(me, i, "e");
        } else if (k == "po") {
            { Obs<cocls::thread_pool::co_awaiter> o(w, me, i, [&] { return w.pool->operator co_await(); }); co_await o; }
            w.log(me, i, "e");
        } else if (k == "pr") {
            w.pool->resume(w.prom[a]());
        } else if (k == "pw") {
            { Obs<decltype((*w.pool)(*w.fut[a]))> o(w, me, i, [&] { return (*w.pool)(*w.fut[a]); }); try { co_await o; } catch (const ScriptExc &) {} }
            w.log(me, i, "e");
        } else if (k == "px") {
            int child;
            cocls::async<void> c = w.make(child);
            cocls::future<void> f = w.pool->run(c);
            { Obs<FutAw> o(w, me, i, [&] { return f.operator co_await(); }); try { co_await o; } catch (const ScriptExc &) {} }
            w.log(me, i, "e");
        } else if (k == "ha") {
            acc = w.prom[a]();
        } else if (k == "hm") {
            acc << w.prom[a]();
        } else if (k == "hd") {
            int child;
            cocls::async<void> c = w.make(child);
            acc = c.detach();
        } else if (k == "hw") {
            { ObsRef<SPv> o{w, me, i, acc}; co_await o; }
            w.log(me, i, "e");
        } else if (k == "hf") {
            acc.clear();
        } else if (k == "hs") {
            // the documented `suspend_point<void> my_handle = co_await self();`, merged into the reused variable
            acc = co_await cocls::self();
        } else if (k == "hy") {
            { SPv mine = co_await cocls::self(); }   // discarded: queued (coroutine mode)
            { Obs<std::suspend_always> o(w, me, i, [] { return std::suspend_always{}; }); co_await o; }
            w.log(me, i, "e");
        } else if (k == "pc") {
            // co_await of a pool that is already stopped: cancelled at once, through the ready queue
            bool canceled = false;
            {
                Obs<cocls::thread_pool::co_awaiter> o(w, me, i, [&] { return w.dead->operator co_await(); });
                try { co_await o; } catch (const cocls::await_canceled_exception &) { canceled = true; }
            }
            if (!canceled) w.err("co_await of a stopped thread pool did not report the cancellation");
            w.log(me, i, "e");
        } else if (k == "cd") {
            cocls::coro_queue::create_suspend_point([&] { w.prom[a](); });
        } else if (k == "ca") {
            { Obs<SPv> o(w, me, i, [&] { return cocls::coro_queue::create_suspend_point([&] { w.prom[a](); }); }); co_await o; }
            w.log(me, i, "e");
        } else if (k == "ct") {
            bool caught = false;
            try {
                cocls::coro_queue::create_suspend_point([&] { w.prom[a](); throw ScriptExc{}; });
            } catch (const ScriptExc &) {
                caught = true;
            }
            if (!caught) w.err("the exception of the function given to create_suspend_point did not reach the caller");
        } else if (k == "re") {
            co_return;
        } else if (k == "rx") {
            throw ScriptExc{};
        } else {
            w.err("unknown step kind " + k);
            co_return;
        }
    }
}

// runs ON the worker between the library's closures: observes the worker's own ready deque / coroutine mode; if
// closures were queued behind it in the meantime it queues itself again (from the worker, so the order is fixed),
// otherwise the pool is dry and the native thread may continue
struct ObsTask {
    World *w;
    int i;
    void operator()() {
        w->log(0, i, "w");
        if (w->pool->any_enqueued()) {
            w->pool->run_detached(ObsTask{w, i});
        } else {
            {
                std::lock_guard lk(w->gate_mx);
                w->pool_dry = true;
            }
            w->gate_cv.notify_all();
        }
    }
};

static void native_driver(World &w) {
    for (std::size_t j = 0; j < w.script[0].size(); j++) {
        const StepD &s = w.script[0][j];
        int i = (int) j + 1;
        if (w.pool) {
            // park the worker: whatever this step hands to the pool waits behind the gate
            w.gate_open = false;
            w.pool->run_detached([&w] {
                std::unique_lock lk(w.gate_mx);
                w.gate_cv.wait(lk, [&w] { return w.gate_open; });
            });
        }
        w.log(0, i, "b");
        const char *left = "e";
        if (s.k == "sd") {
            int child;
            cocls::async<void> c = w.make(child);
            c.detach();
        } else if (s.k == "rd") {
            w.prom[s.a]();
        } else if (s.k == "pr") {
            w.pool->resume(w.prom[s.a]());
        } else if (s.k == "up") {
            if (!w.parked.empty()) {
                auto h = w.parked.front();
                w.parked.pop_front();
                cocls::coro_queue::resume(h);
            }
        } else if (s.k == "qd") {
            w.q.push();
        } else if (s.k == "ir" || s.k == "ix" || s.k == "cr" || s.k == "cx") {
            // user-level entry into coroutine mode: the function makes coroutines ready (their suspend point is discarded
            // under the installed queue: queued) and returns or throws
            const bool throws = s.k[1] == 'x';
            const bool create = s.k[0] == 'c';
            const bool valued = ((i + (w.use_swap ? 1 : 0)) % 2) != 0;
            auto work = [&] {
                if (s.a == 0) {
                    int child;
                    cocls::async<void> c = w.make(child);
                    c.detach();
                } else {
                    w.prom[s.a]();
                }
                if (throws) throw ScriptExc{};
            };
            auto fn_void = [&]() -> void { ExitLog xl{w, 0, i, create}; work(); };
            auto fn_int = [&]() -> int { ExitLog xl{w, 0, i, create}; work(); return 42; };
            bool caught = false;
            try {
                if (!create) {
                    if (valued) {
                        if (cocls::coro_queue::install_queue_and_call(fn_int) != 42) w.err("install_queue_and_call lost the result of the function");
                    } else {
                        cocls::coro_queue::install_queue_and_call(fn_void);
                    }
                } else if (valued) {
                    cocls::suspend_point<int> sp = cocls::coro_queue::create_suspend_point(fn_int);
                    w.log(0, i, "h");
                    if (int(sp) != 42) w.err("create_suspend_point lost the result of the function");
                } else {
                    cocls::suspend_point<void> sp = cocls::coro_queue::create_suspend_point(fn_void);
                    w.log(0, i, "h");
                }
            } catch (const ScriptExc &) {
                caught = true;
            }
            if (caught != throws) w.err(throws ? "the exception of the function did not reach the caller" : "unexpected exception");
            if (caught) left = "t";
        } else {
            w.err("unknown native step kind " + s.k);
        }
        if (w.pool) {
            // the observation closure is queued BEHIND everything this step handed to the pool, and only then the
            // gate is opened: from here on the worker runs and this thread only waits until the pool is dry
            w.pool_dry = false;
            w.pool->run_detached(ObsTask{&w, i});
            {
                std::lock_guard lk(w.gate_mx);
                w.gate_open = true;
            }
            w.gate_cv.notify_all();
            std::unique_lock lk(w.gate_mx);
            w.gate_cv.wait(lk, [&w] { return w.pool_dry; });
        }
        w.log(0, i, left);
    }
}

static void run_scenario(const Scenario &sc, Reporter &rep) {
    if (sc.steps.size() != 1) { rep.error(0, "scenario must have exactly one step"); return; }
    JV exp = JReader(sc.steps[0].expected).parse();
    const JV &scr = exp.at("script");
    if (scr.k != JV::k_map || scr.m.empty()) { rep.error(0, "no script in expected projection"); return; }
    // the world is leaked on purpose when the real code left coroutines suspended (their frames refer
    // to the futures / mutex in it)
    World *w = new World();
    w->N = (int) scr.m.size() - 1;
    w->use_swap = sc.hdr.at("swap").as_bool(false);
    w->script.resize(w->N + 1);
    int maxk = 0;
    bool use_pool = sc.hdr.at("pool").as_bool(false);   // the specification's configuration has a thread pool
    J jscript = J::map();
    for (int c = 0; c <= w->N; c++) {
        const JV &l = scr.at(std::to_string(c));
        J jl = J::list();
        for (const JV &st : l.l) {
            StepD d;
            d.k = st.l[0].s;
            d.a = (int) st.l[1].i;
            if (d.k == "rd" || d.k == "ra" || d.k == "aw" || d.k == "bd" || d.k == "ba" || d.k == "pr" || d.k == "pw" ||
                d.k == "ha" || d.k == "hm" || d.k == "cd" || d.k == "ca" || d.k == "ct" ||
                d.k == "ir" || d.k == "ix" || d.k == "cr" || d.k == "cx") maxk = std::max(maxk, d.a);
            if (d.k == "po" || d.k == "pr" || d.k == "pw" || d.k == "px") use_pool = true;   // (artefacts without the flag)
            if (d.k == "pc" && !w->dead) {
                w->dead.reset(new cocls::thread_pool(1));
                w->dead->stop();
            }
            w->script[c].push_back(d);
            jl.push(J::list().push(d.k).push(d.a));
        }
        jscript.set(std::to_string(c), jl);
    }
    w->fut.resize(maxk + 1);
    w->prom.resize(maxk + 1);
    for (int k = 1; k <= maxk; k++) {
        w->fut[k].reset(new cocls::future<void>());
        w->prom[k] = w->fut[k]->get_promise();
    }
    for (auto *v : {&w->running, &w->finished, &w->destroyed, &w->resumes, &w->suspended, &w->incall}) v->assign(w->N + 1, 0);

    if (use_pool) w->pool.reset(new cocls::thread_pool(1));

    native_driver(*w);

    J got = J::map();
    got.set("script", jscript);
    got.set("ev", w->ev);
    J fin = J::map();
    fin.set("queue", World::deque_ids(*w));
    fin.set("inst", cocls::coro_queue::is_active() ? 1 : 0);
    if (w->pool && w->pool->any_enqueued()) w->err("closures left in the thread pool");
    J nrs = J::list(), st = J::list();
    for (int c = 1; c <= w->N; c++) {
        nrs.push(w->resumes[c]);
        std::string s = c > w->created ? "new"
                        : (w->finished[c] == 1 && w->destroyed[c] == 1) ? "done"
                        : w->running[c] ? "run"
                        : w->resumes[c] == 0 ? "ready" : "stuck";
        st.push(s);
    }
    fin.set("nrs", nrs);
    fin.set("st", st);
    got.set("final", fin);
    if (!w->parked.empty()) w->err("coroutines left parked");
    J errs = J::list();
    for (auto &e : w->errors) errs.push(e);
    got.set("errors", errs);

    // leave the thread clean for the next scenario whatever happened
#ifndef COROSCHED_NO_PRIVATE
    bool clean = w->all_done() && !cocls::coro_queue::is_active() && cocls::coro_queue::queue_impl::instance._queue.empty();
    cocls::coro_queue::instance = nullptr;
    cocls::coro_queue::queue_impl::instance._queue.clear();
#else
    bool clean = w->all_done() && !cocls::coro_queue::is_active();
#endif

    rep.check(0, got);
    if (clean) delete w;
}

int main() {
    return replay_main(std::cin, run_scenario);
}
