// mo_probe.cpp -- drives the lock-free sites that no other replayer reaches (reusable_storage_mtsafe
// `_busy`, generator `_block`) under the controlled scheduler so that their memory orders land in
// the table written to $VSCHED_MOTABLE (DESIGN 4.5).  Prints "PROBE ok" when every scenario completed.
#include <cocls/future.h>
#include <cocls/async.h>
#include <cocls/generator.h>
#include <cocls/coro_storage.h>
#include <cocls/with_allocator.h>
#include <cocls_verif/vsched.h>
#include <cstdio>

using cocls_verif::vsched;

static cocls::with_allocator<cocls::reusable_storage_mtsafe, cocls::async<int> > stored_coro(cocls::reusable_storage_mtsafe &, int v) {
    co_return v;
}

static cocls::generator<int> async_gen(cocls::future<int> &f) {
    int v = co_await f;
    co_yield v;
}

int main() {
    bool ok = true;
    {   // two threads create and finish frames on one thread-safe reusable storage
        vsched s;
        s.install();
        cocls::reusable_storage_mtsafe st;
        cocls_verif::motable::get().label(&st, sizeof(st), "mtsafe_storage");
        int sum = 0;
        for (int t = 0; t < 2; t++) {
            s.spawn([&st, &sum, t] {
                for (int i = 0; i < 2; i++) {
                    int r = stored_coro(st, t * 10 + i).join();
                    sum += r;
                }
            });
        }
        ok &= s.drain();
        s.uninstall();
        s.join_all();
        ok &= (sum == 0 + 1 + 10 + 11);
    }
    {   // synchronous consumer of a generator whose body is completed on another thread
        vsched s;
        s.install();
        cocls::future<int> f;
        cocls::promise<int> p = f.get_promise();
        int got = -1;
        s.spawn([&] {
            auto g = async_gen(f);
            if (g.next()) got = g.value();
        });
        s.spawn([&] {
            vsched::mark("resolve");
            p(42);
        });
        ok &= s.drain();
        s.uninstall();
        s.join_all();
        ok &= (got == 42);
    }
    printf(ok ? "PROBE ok\n" : "PROBE failed\n");
    return ok ? 0 : 1;
}
