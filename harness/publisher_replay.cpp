// publisher_replay.cpp -- replays behaviours of spec/Publisher/Publisher.tla on the real
// cocls::publisher<Item> / cocls::subscriber<Item> (publisher_item.h), comparing the projection of the real objects
// (through derived probe classes) with the specification's state after every step.
//
// The three critical sections of subscriber::next() are public calls of the awaiter
// (await_ready / await_suspend / await_resume), so the replayer runs them as separate steps with
// publisher actions in between ("split" style): this reaches the windows between ready() and
// subscribe(), and between the wake-up and check_next(), without threads.  The whole-call forms
// are replayed with the real calls: `co_await sub.next()` in a real coroutine, once per action
// ("coro") or as `while (co_await sub.next())` that carries on inside the publisher's wake-up and
// parks again before publish() returns ("loop"),
// `bool(sub.next())` in a helper thread that is parked for real when it has to wait ("block";
// the main thread proceeds only when the helper has registered its sync_awaiter, and waits for the
// helper to return right after the action that wakes it), and next_ready() ("poll").
//
// header: {"min":n,"max":n (99 = unlimited),"wake":"fn"|"handle","single":"rvalue"|"lvalue"|"range",
//          "block":"bool"|"iter" (blocking next() as `bool(sub.next())` or through begin()/++ of the iterator),
//          "batch":"vector"|"list"|"array" (optional; what publish(begin,end) is called with; PushCS(0) = an empty range)}
// actions: SubscribeRecent(s,mode) SubscribeAt(s,pos,mode) SubscribeCopy(c,o) Leave(s) Ready(s)
//          Subscribe(s) Fetch(s) Poll(s) NextWhole(s,style) PushCS(n) Close(how) KickCS(s,via) KickGone
//          PlanCopy(a,c,o): the resumption handler of the parked waiter a (callback / resumed coroutine) will copy
//          subscriber o into c -- inside the publisher's wake-up loop (WakeCopy, merged like Wake)
//          (Wake / WFetch steps are merged into the step that caused them)
// projection: {"closed","nextFree","pos","pubAlive","q":[...],
//              "regs":[{"awt":subscriber id|0,"kicked","pos","used"[,"woken" when the registration has that bit]}...],
//              "subs":{"<id>":{"hnd","mode","pc","recv":[...],"res","wakes"}}}  (live subscribers)
#include <cocls/publisher.h>
#include "replay_common.h"
#include "publisher_item.h"

#include <atomic>
#include <coroutine>
#include <deque>
#include <functional>
#include <limits>
#include <list>
#include <optional>
#include <thread>
#include <unistd.h>

using namespace rp;

using Pub = cocls::publisher<Item>;     // publisher_item.h: moved-from and destroyed items are distinguishable
using Queue = Pub::queue;
using SubT = cocls::subscriber<Item>;

// protected members of publisher<int>::queue through pointers to members obtained in a derived class
struct QProbe : Queue {
    static auto &regs(Queue &q) { return q.*(&QProbe::_regs); }
    static std::size_t &next_free(Queue &q) { return q.*(&QProbe::_next_free); }
    static std::deque<Item> &window(Queue &q) { return q.*(&QProbe::_q); }
    static std::size_t &pos(Queue &q) { return q.*(&QProbe::_pos); }
    static bool &closed(Queue &q) { return q.*(&QProbe::_closed); }
    static std::mutex &mx(Queue &q) { return q.*(&QProbe::_mx); }
};

// the `_woken` bit of a registration (repair of the copy-of-woken defect) is projected when the tree under test has it
template <typename R>
static void set_woken(J &jr, const R &r) {
    if constexpr (requires { r._woken; }) jr.set("woken", r._woken);
}

struct SubProbe : SubT {
    SubProbe(Pub &p, cocls::subscribtion_type t) : SubT(p, t) {}
    SubProbe(Pub &p, std::size_t pos, cocls::subscribtion_type t) : SubT(p, pos, t) {}
    SubProbe(const SubProbe &o) : SubT(o) {}
    using SubT::_h;
    using SubT::_t;
};

// minimal coroutine type under the replayer's control (lazy, never destroys itself)
struct Co {
    struct promise_type {
        Co get_return_object() { return Co{std::coroutine_handle<promise_type>::from_promise(*this)}; }
        std::suspend_always initial_suspend() noexcept { return {}; }
        std::suspend_always final_suspend() noexcept { return {}; }
        void return_void() {}
        void unhandled_exception() { std::terminate(); }
    };
    std::coroutine_handle<promise_type> h{};
    Co() = default;
    explicit Co(std::coroutine_handle<promise_type> hh) : h(hh) {}
    Co(Co &&o) : h(std::exchange(o.h, {})) {}
    Co &operator=(Co &&o) { reset(); h = std::exchange(o.h, {}); return *this; }
    ~Co() { reset(); }
    void reset() { if (h) { h.destroy(); h = {}; } }
};

static cocls::subscribtion_type mode_of(const std::string &m) {
    if (m == "behind") return cocls::subscribtion_type::skip_if_behind;
    if (m == "recent") return cocls::subscribtion_type::skip_to_recent;
    return cocls::subscribtion_type::all_values;
}
static const char *mode_name(cocls::subscribtion_type t) {
    switch (t) {
        case cocls::subscribtion_type::skip_if_behind: return "behind";
        case cocls::subscribtion_type::skip_to_recent: return "recent";
        default: return "all";
    }
}

static const long SPIN_LIMIT = 20000000L;   // yields; a legal hand-over takes a few

struct Sub {
    int id = 0;
    // the subscriber lives in storage that is never reused within a scenario, so that the pointer of
    // a destroyed subscriber stays a pointer to "already released memory" that nobody else owns
    alignas(SubProbe) unsigned char store[sizeof(SubProbe)];
    SubProbe *obj = nullptr;
    template <typename... A> void make(A &&... a) { obj = new (store) SubProbe(std::forward<A>(a)...); }
    void unmake() { if (obj) { obj->~SubProbe(); obj = nullptr; } }
    ~Sub() { unmake(); }
    std::string pc = "idle";
    std::string res = "none";
    std::vector<int> recv;
    int wakes = 0;              // wake-ups of the call in progress
    long parks = 0, total_wakes = 0;
    std::string bad;            // replayer-side check that failed
    // split style: the awaiter object of the call in progress
    std::optional<SubT::next_awt> awt;
    Co dummy;                   // a real suspended coroutine whose handle is registered ("handle" wake style)
    // coro / loop style
    Co reader, looper;
    bool in_next = false;
    // block style
    std::thread th;
    std::atomic<int> done{0};
    bool bres = false;

    void flag(const std::string &why) { if (bad.empty()) bad = why; }

    void deliver(bool r) {
        res = "none";
        wakes = 0;
        if (r) { recv.push_back(obj->value().shown()); pc = "idle"; }
        else pc = "eos";
    }
    // a registered awaiter of the split style has been resumed by the library
    std::function<void()> handler;      // what the program does when this waiter is resumed (PlanCopy)
    void on_wake(cocls::awaiter *a) {
        wakes++;
        total_wakes++;
        if (pc != "parked") flag("woken while " + pc);
        else pc = "fetch";
        if (a && (!awt || a != static_cast<cocls::awaiter *>(&*awt))) flag("foreign awaiter resumed");
        if (handler) { auto h = std::move(handler); handler = nullptr; h(); }
    }
};

static cocls::suspend_point<void> wake_fn(cocls::awaiter *a, void *ctx) noexcept {
    static_cast<Sub *>(ctx)->on_wake(a);
    return {};
}

static Co dummy_body(Sub *s) {
    for (;;) {
        co_await std::suspend_always{};
        s->on_wake(nullptr);
    }
}

static Co reader_body(Sub *s) {
    for (;;) {
        co_await std::suspend_always{};     // wait for the replayer's NextWhole(s,"coro")
        s->in_next = true;
        bool r = co_await s->obj->next();
        s->in_next = false;
        if (s->pc == "parked_c") { s->wakes++; s->total_wakes++; }
        s->deliver(r);
    }
}

static Co looper_body(Sub *s) {
    co_await std::suspend_always{};         // wait for the replayer's NextWhole(s,"loop")
    for (;;) {
        s->in_next = true;
        bool r = co_await s->obj->next();
        s->in_next = false;
        s->res = "none";
        if (!r) { s->pc = "eos"; break; }
        s->recv.push_back(s->obj->value().shown());
        // no scenario publishes more than a handful of values: a stream that never ends is a defect
        // of the library (seen on the pinned tree after a polled end of stream), not a reason to hang
        if (s->recv.size() > 64) { s->flag("while (co_await next()) does not terminate"); s->pc = "eos"; break; }
    }
}

struct World {
    std::unique_ptr<Pub> pub;
    std::shared_ptr<Queue> qp;
    std::map<int, std::unique_ptr<Sub>> subs;
    std::vector<std::unique_ptr<Sub>> graveyard;     // records of destroyed subscribers (storage stays reserved)
    std::map<std::size_t, int> slot_last_left;       // slot -> identity of the subscriber that left it last
    const SubT *stale = nullptr;                     // pointer of the subscriber destroyed last
    std::string wake_style = "fn", single = "rvalue", block_form = "bool", batch = "vector";
    int npub = 0;
    bool hung = false;

    Queue &q() { return *qp; }

    cocls::awaiter *slot_awt(std::size_t h) {
        std::lock_guard<std::mutex> _(QProbe::mx(q()));
        return QProbe::regs(q())[h]._awt;
    }

    J project() {
        J m = J::map();
        std::lock_guard<std::mutex> _(QProbe::mx(q()));
        m.set("pos", QProbe::pos(q()));
        m.set("closed", QProbe::closed(q()));
        m.set("pubAlive", pub != nullptr);
        m.set("nextFree", QProbe::next_free(q()));
        J w = J::list();
        for (const Item &v : QProbe::window(q())) w.push(v.shown());    // element by element: a gutted element shows at once
        m.set("q", w);
        auto &regs = QProbe::regs(q());
        J rl = J::list();
        for (std::size_t i = 0; i < regs.size(); i++) {
            auto &r = regs[i];
            J jr = J::map();
            jr.set("pos", r._pos);
            jr.set("used", r._used);
            jr.set("kicked", r._kicked);
            set_woken(jr, r);
            int owner = 0;
            if (!r._used && r._awt) {
                // stale awaiter pointer of a subscriber that was destroyed while parked
                auto it = slot_last_left.find(i);
                owner = it == slot_last_left.end() ? -4 : it->second;
            }
            if (r._used && r._awt) {
                owner = -1;
                for (auto &kv : subs) {
                    Sub &s = *kv.second;
                    if (s.obj && s.obj->_h == i) {
                        owner = s.id;
                        if (s.pc == "parked" && wake_style == "fn" &&
                            (!s.awt || r._awt != static_cast<cocls::awaiter *>(&*s.awt))) owner = -2;
                        if (r._sub != static_cast<const SubT *>(s.obj)) owner = -3;
                    }
                }
            }
            jr.set("awt", owner);
            rl.push(jr);
        }
        m.set("regs", rl);
        J sm = J::map();
        for (auto &kv : subs) {
            Sub &s = *kv.second;
            if (!s.obj) continue;
            J js = J::map();
            js.set("pc", s.pc);
            js.set("hnd", s.obj->_h);
            js.set("mode", mode_name(s.obj->_t));
            js.set("recv", J::list(s.recv.begin(), s.recv.end()));
            js.set("res", s.res);
            js.set("wakes", s.wakes);
            if (s.obj->_h >= regs.size() || s.obj->position() != regs[s.obj->_h]._pos) s.flag("position() disagrees with the registration");
            if (s.total_wakes > s.parks) s.flag("more wake-ups than parkings");
            if (!s.bad.empty()) js.set("bad", s.bad);
            sm.set(std::to_string(s.id), js);
        }
        m.set("subs", sm);
        return m;
    }

    Sub &fresh(int id) {
        auto &p = subs[id];
        if (p) graveyard.push_back(std::move(p));
        p.reset(new Sub());
        p->id = id;
        return *p;
    }
    void equip(Sub &s) {
        s.dummy = dummy_body(&s);
        s.dummy.h.resume();      // runs to its first suspension: from now on a suspended coroutine
        s.reader = reader_body(&s);
        s.reader.h.resume();
        s.looper = looper_body(&s);
        s.looper.h.resume();
    }

    // blocking next() in a helper thread: returns when the call returned or parked for real
    void next_block(Sub &s) {
        s.done.store(0);
        Sub *sp = &s;
        bool iter = block_form == "iter";
        s.th = std::thread([sp, iter] {
            bool r;
            if (iter) {
                // what `for (auto &x: sub)` does: begin() / operator++ evaluate bool(next())
                if (sp->recv.empty()) { auto it = sp->obj->begin(); r = it != sp->obj->end(); }
                else { SubT::iterator it(*sp->obj, true); ++it; r = it != sp->obj->end(); }
            } else {
                r = sp->obj->next();
            }
            sp->bres = r;
            sp->done.store(1, std::memory_order_release);
        });
        for (long spin = 0;; spin++) {
            if (s.done.load(std::memory_order_acquire)) { s.th.join(); s.deliver(s.bres); return; }
            if (slot_awt(s.obj->_h) != nullptr) { s.pc = "parked_b"; s.res = "none"; s.parks++; return; }
            if (spin > SPIN_LIMIT) { hung = true; s.flag("blocking next() neither returned nor parked"); return; }
            std::this_thread::yield();
        }
    }
    // after an action of the publisher side: helper threads whose awaiter was taken out must return
    void settle_blocked() {
        for (auto &kv : subs) {
            Sub &s = *kv.second;
            if (!s.obj || s.pc != "parked_b") continue;
            if (slot_awt(s.obj->_h) != nullptr) continue;
            for (long spin = 0; !s.done.load(std::memory_order_acquire); spin++) {
                if (spin > SPIN_LIMIT) { hung = true; s.flag("blocked next() was unregistered but never woke up"); return; }
                std::this_thread::yield();
            }
            s.th.join();
            s.wakes++;
            s.total_wakes++;
            s.deliver(s.bres);
        }
    }

    void leave(Sub &s) {
        s.awt.reset();
        s.reader.reset();       // destroys a coroutine parked in co_await next() together with its awaiter
        s.looper.reset();
        s.dummy.reset();
        if (s.obj) {
            slot_last_left[s.obj->_h] = s.id;
            stale = s.obj;
        }
        s.unmake();
    }

    bool step(const Step &st, Reporter &rep, std::size_t k) {
        const std::string &a = st.name;
        if (a == "SubscribeRecent" || a == "SubscribeAt" || a == "SubscribeCopy") {
            Sub &s = fresh(st.iarg(0));
            if (a == "SubscribeRecent") s.make(*pub, mode_of(st.sarg(1)));
            else if (a == "SubscribeAt") s.make(*pub, (std::size_t) st.iarg(1), mode_of(st.sarg(2)));
            else s.make(static_cast<const SubProbe &>(*subs.at(st.iarg(1))->obj));
            equip(s);
            return true;
        }
        if (a == "PushCS") {
            int n = st.iarg(0);
            if (n == 1 && single == "rvalue") { Item v(++npub); pub->publish(std::move(v)); }
            else if (n == 1 && single == "lvalue") { const Item v(++npub); pub->publish(v); }
            else if (batch == "list") {
                // bidirectional iterators, passed as rvalues (n = 0: an empty container)
                std::list<Item> vals;
                for (int i = 0; i < n; i++) vals.emplace_back(++npub);
                pub->publish(vals.cbegin(), vals.cend());
            } else if (batch == "array") {
                // plain pointers (n = 0: begin == end somewhere inside an array)
                Item vals[8];
                if (n > 7) { rep.error(k, "batch too long"); return false; }
                for (int i = 0; i < n; i++) vals[i] = Item(++npub);
                const Item *b = vals + 1 - (n > 0), *e = b + n;
                pub->publish(b, e);
            } else {
                std::vector<Item> vals;
                for (int i = 0; i < n; i++) vals.emplace_back(++npub);
                pub->publish(vals.begin(), vals.end());
            }
            settle_blocked();
            return true;
        }
        if (a == "PlanCopy") {
            // runs inside publish()/close()/kick(), on the resumed waiter's behalf, before the remaining waiters are resumed
            int c = st.iarg(1), o = st.iarg(2);
            subs.at(st.iarg(0))->handler = [this, c, o] {
                Sub &orig = *subs.at(o);
                if (orig.pc == "eos") return;       // nothing to continue from
                Sub &s = fresh(c);
                s.make(static_cast<const SubProbe &>(*orig.obj));
                equip(s);
            };
            return true;
        }
        if (a == "KickGone") {
            pub->kick(stale);       // documented: an invalid pointer is fine, nothing happens
            settle_blocked();
            return true;
        }
        if (a == "Close") {
            if (st.sarg(0) == "close") pub->close(); else pub.reset();
            settle_blocked();
            return true;
        }
        auto it = subs.find(st.iarg(0));
        if (it == subs.end() || !it->second->obj) { rep.error(k, "no such subscriber"); return false; }
        Sub &s = *it->second;
        if (a == "KickCS") {
            if (st.sarg(1) == "pub") pub->kick(s.obj); else s.obj->kick_me();
            settle_blocked();
        } else if (a == "Leave") {
            leave(s);
        } else if (a == "Ready") {
            s.awt.emplace(s.obj->next());
            s.res = "none";
            s.wakes = 0;
            s.pc = s.awt->await_ready() ? "fetch" : "nr";
        } else if (a == "Subscribe") {
            bool r = wake_style == "handle" ? s.awt->await_suspend(std::coroutine_handle<>(s.dummy.h))
                                            : s.awt->await_suspend(&wake_fn, &s);
            if (r) { s.pc = "parked"; s.parks++; } else s.pc = "fetch";
        } else if (a == "Fetch") {
            bool r = s.awt->await_resume();
            s.awt.reset();
            s.deliver(r);
        } else if (a == "Poll") {
            std::size_t before = s.recv.size();
            if (s.obj->next_ready()) { s.deliver(true); if (s.recv.size() != before + 1) s.flag("poll"); }
            else s.res = "notready";
        } else if (a == "NextWhole") {
            s.res = "none";
            s.wakes = 0;
            if (st.sarg(1) == "coro") {
                s.reader.h.resume();
                if (s.in_next) { s.pc = "parked_c"; s.parks++; }
            } else if (st.sarg(1) == "loop") {
                s.looper.h.resume();        // runs until it parks (also again, inside later wake-ups) or ends
                if (s.in_next) s.pc = "parked_l";
            } else {
                next_block(s);
            }
        } else {
            rep.error(k, "unknown action");
            return false;
        }
        return true;
    }

    void run(const Scenario &sc, Reporter &rep) {
        std::size_t mn = (std::size_t) sc.hdr.at("min").as_int(1);
        long long mx = sc.hdr.at("max").as_int(99);
        wake_style = sc.hdr.at("wake").as_str("fn");
        single = sc.hdr.at("single").as_str("rvalue");
        block_form = sc.hdr.at("block").as_str("bool");
        batch = sc.hdr.has("batch") ? sc.hdr.at("batch").as_str("vector") : "vector";
        if (mx >= 99 && mn == 1) pub.reset(new Pub());
        else pub.reset(new Pub(mx >= 99 ? std::numeric_limits<std::size_t>::max() : (std::size_t) mx, mn));
        qp = pub->get_queue();
        for (std::size_t k = 0; k < sc.steps.size(); k++) {
            if (!step(sc.steps[k], rep, k)) break;
            if (hung) {
                // a helper thread is stuck inside the library (it can neither be joined nor killed):
                // die here, graph_replay reports the scenario the replayer terminated in
                fprintf(stderr, "helper thread stuck in scenario %s step %zu %s\n", sc.id.c_str(), k, sc.steps[k].label.c_str());
                fflush(stdout);
                _exit(3);
            }
            if (!rep.check(k, project())) break;
        }
        teardown(sc, rep);
    }

    void teardown(const Scenario &sc, Reporter &rep) {
        // release threads blocked in next(): closing wakes every waiting subscriber
        bool blocked = false;
        for (auto &kv : subs) blocked |= kv.second->obj && kv.second->pc == "parked_b";
        if (blocked) {
            qp->close();
            settle_blocked();
            for (auto &kv : subs) {
                if (kv.second->obj && kv.second->pc == "parked_b") {
                    if (!rep.failed()) rep.diverge(sc.steps.size() - 1, "close() did not wake a thread blocked in next()");
                    hung = true;
                }
            }
            if (hung) {
                fprintf(stderr, "helper thread stuck at the end of scenario %s\n", sc.id.c_str());
                fflush(stdout);
                _exit(3);
            }
        }
        for (auto &kv : subs) if (kv.second->obj) leave(*kv.second);
        subs.clear();
        graveyard.clear();
        pub.reset();
        qp.reset();
    }
};

int main() {
    return replay_main(std::cin, [](const Scenario &sc, Reporter &rep) {
        World w;
        w.run(sc, rep);
    });
}
