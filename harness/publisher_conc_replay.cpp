// publisher_conc_replay.cpp -- replays spec/Publisher/PublisherConc.tla (the thread-structured wrapper
// of Publisher.tla) on the real cocls::publisher<int> / cocls::subscriber<int> with REAL THREADS under
// the controlled scheduler at lock grain: the queue's std::mutex is virtual (cocls_verif/pthread_shim.h),
// every lock..unlock critical section is one scheduler step, the code that follows an unlock (wake-up
// loop, return path) is a step of its own because v_unlock parks after the unlock, and
// sync_awaiter::flag.wait() of a blocking next() is a controlled wait.
//
// The published item type poisons itself in its destructor and counts copies made FROM a destroyed item, so a value
// that next() copies out of the window after the lock was released (while another thread's publish trimmed the
// window) is observable without a sanitizer ("stale" in the projection, and the poisoned value in "recv").
// Scheduling points are the lock operations, the park after every unlock, controlled waits, marks -- and
// sync_awaiter's notify: the waking thread stands there after it has set the released thread's flag, which makes
// the wake-up loop one waiter per step (another publishing thread can run in between).
//
// Threads: "P" the publisher thread (publish single/batch, close, ~publisher, kick), optionally "Q", a second
// thread that publishes / closes through the same publisher, and one thread per
// subscriber identity ("1","2",...: construct recent / at position / by copy of another thread's
// subscriber, blocking next(), next_ready(), a coroutine doing co_await next() that is resumed -- by the
// library -- on the publisher thread, destroy).  Each thread loops: park at mark("cmd"); run the command
// the controller stored for it.
//
// One specification action = the controller moves the thread from its mark to the lock operation of the
// call (first critical section of a call) and performs ONE critical section; PWake / P2Wake = one stretch of
// the wake-up loop (up to the notify of the released thread / the lock of the resumed coroutine's get_value);
// TTail = what follows the unlock of get_value up to the return of next().  After every action each thread is
// moved on through code that the specification says has no visible effect (other return paths, a released
// thread walking to its next lock) -- never through a lock -- until it shows the pending operation the
// specification expects (idle | lock | unlocked | notify | wait).
// Checked after every action: the projection below; and for EVERY step that is not a critical section:
// the mutex-guarded state (_pos, _q, _closed, _next_free, _regs) is identical before and after it, so a
// guarded access moved out of the lock, a method that lost its lock_guard, a wake-up performed inside the
// lock (the released thread is runnable too early / the resumed coroutine dead-locks on the queue lock)
// and an added or removed critical section are all reported.
//
// header: {"min":n,"max":n (99 = unlimited),"threads":["P","Q"?,"1","2"]}
// projection: {"closed","nextFree","pos","pubAlive","q","regs":[{"awt","kicked","pos","used"[,"woken"]}],
//              "pend":{thread: idle|lock|unlocked|notify|wait|woken|done}, "stale": copies made from a destroyed item,
//              "subs":{"<id>":{"eos","hnd","mode","recv","res"}}}
#include <cocls/publisher.h>
#include <cocls_verif/pthread_shim.h>
#include "replay_common.h"
#include "publisher_item.h"

#include <coroutine>
#include <deque>
#include <limits>
#include <optional>
#include <unistd.h>

using namespace rp;
using cocls_verif::vsched;
using cocls_verif::op_t;

using Pub = cocls::publisher<Item>;
using Queue = Pub::queue;
using SubT = cocls::subscriber<Item>;

struct QProbe : Queue {
    static auto &regs(Queue &q) { return q.*(&QProbe::_regs); }
    static std::size_t &next_free(Queue &q) { return q.*(&QProbe::_next_free); }
    static std::deque<Item> &window(Queue &q) { return q.*(&QProbe::_q); }
    static std::size_t &pos(Queue &q) { return q.*(&QProbe::_pos); }
    static bool &closed(Queue &q) { return q.*(&QProbe::_closed); }
};

// the `_woken` bit of a registration (repair of the copy-of-woken defect) is projected when the tree under test has it
template <typename R>
static void set_woken(J &jr, const R &r) {
    if constexpr (requires { r._woken; }) jr.set("woken", r._woken);
}

struct SubProbe : SubT {
    SubProbe(Pub &p, cocls::subscribtion_type t) : SubT(p, t) {}
    SubProbe(Pub &p, std::size_t pos, cocls::subscribtion_type t) : SubT(p, pos, t) {}
    SubProbe(const SubProbe &o) : SubT(o) {}
    using SubT::_h;
    using SubT::_t;
};

struct Co {
    struct promise_type {
        Co get_return_object() { return Co{std::coroutine_handle<promise_type>::from_promise(*this)}; }
        std::suspend_always initial_suspend() noexcept { return {}; }
        std::suspend_always final_suspend() noexcept { return {}; }
        void return_void() {}
        void unhandled_exception() { std::terminate(); }
    };
    std::coroutine_handle<promise_type> h{};
    Co() = default;
    explicit Co(std::coroutine_handle<promise_type> hh) : h(hh) {}
    Co(Co &&o) : h(std::exchange(o.h, {})) {}
    Co &operator=(Co &&o) { reset(); h = std::exchange(o.h, {}); return *this; }
    ~Co() { reset(); }
    void reset() { if (h) { h.destroy(); h = {}; } }
};

static cocls::subscribtion_type mode_of(const std::string &m) {
    if (m == "behind") return cocls::subscribtion_type::skip_if_behind;
    if (m == "recent") return cocls::subscribtion_type::skip_to_recent;
    return cocls::subscribtion_type::all_values;
}
static const char *mode_name(cocls::subscribtion_type t) {
    switch (t) {
        case cocls::subscribtion_type::skip_if_behind: return "behind";
        case cocls::subscribtion_type::skip_to_recent: return "recent";
        default: return "all";
    }
}

struct Sub {
    int id = 0;
    // constructed in place (by the subscriber's thread) in storage the controller already knows and that is
    // never reused within a scenario
    alignas(SubProbe) unsigned char store[sizeof(SubProbe)];
    SubProbe *obj = nullptr;
    bool built = false;         // the constructor has returned
    std::string res = "none";
    std::vector<int> recv;
    bool eos = false;
    Co reader;
    bool in_next = false;
    ~Sub() { reader.reset(); if (obj) obj->~SubProbe(); }
    void deliver(bool r) {
        res = "none";
        if (r) recv.push_back(obj->value().shown()); else eos = true;
    }
};

static Co reader_body(Sub *s) {
    for (;;) {
        co_await std::suspend_always{};     // wait for the command "coro"
        s->in_next = true;
        bool r = co_await s->obj->next();   // may be resumed on the publisher thread
        s->in_next = false;
        s->deliver(r);
    }
}

struct Cmd { std::string op; int a = 0, b = 0; std::string m; };

struct World {
    alignas(Pub) unsigned char pubmem[sizeof(Pub)];
    Pub *pub = nullptr;
    bool pub_alive = false;
    std::shared_ptr<Queue> qp;
    std::map<int, std::unique_ptr<Sub>> subs;
    std::vector<std::unique_ptr<Sub>> graveyard;
    std::map<std::size_t, int> slot_last_left;
    std::vector<std::string> threads;
    std::map<std::string, int> tid;
    std::map<std::string, Cmd> cmd;
    int npub = 0;
    bool stop = false;
    vsched sched;

    Queue &q() { return *qp; }
};

static void publisher_thread(World &w, const std::string me) {
    for (;;) {
        vsched::mark("cmd");
        if (w.stop) return;
        Cmd c = w.cmd[me];
        if (c.op == "push") {
            // the values were numbered by the controller (c.b = first value): the order of the critical sections decides
            if (c.a == 1 && (c.b % 2) == 0) { Item v(c.b); w.pub->publish(std::move(v)); }
            else if (c.a == 1) { const Item v(c.b); w.pub->publish(v); }
            else {
                std::vector<Item> vals;
                for (int i = 0; i < c.a; i++) vals.emplace_back(c.b + i);
                w.pub->publish(vals.begin(), vals.end());
            }
        } else if (c.op == "close") {
            w.pub->close();
        } else if (c.op == "destroy") {
            w.pub->~Pub();          // the storage stays: a constructor racing with it sees a publisher object
        } else if (c.op == "kick") {
            w.pub->kick(w.subs.at(c.a)->obj);
        }
    }
}

static void subscriber_thread(World &w, int id) {
    const std::string me = std::to_string(id);
    for (;;) {
        vsched::mark("cmd");
        if (w.stop) return;
        Cmd c = w.cmd[me];
        Sub &s = *w.subs.at(id);
        if (c.op == "recent" || c.op == "at" || c.op == "copy") {
            if (c.op == "recent") s.obj = new (s.store) SubProbe(*w.pub, mode_of(c.m));
            else if (c.op == "at") s.obj = new (s.store) SubProbe(*w.pub, (std::size_t) c.a, mode_of(c.m));
            else s.obj = new (s.store) SubProbe(static_cast<const SubProbe &>(*w.subs.at(c.a)->obj));
            s.reader = reader_body(&s);
            s.reader.h.resume();
            s.built = true;
        } else if (c.op == "leave") {
            s.built = false;
            s.reader.reset();       // a coroutine parked in co_await next() goes with its subscriber
            s.obj->~SubProbe();
            s.obj = nullptr;
        } else if (c.op == "block") {
            bool r = s.obj->next();
            s.deliver(r);
        } else if (c.op == "poll") {
            if (s.obj->next_ready()) s.deliver(true); else s.res = "notready";
        } else if (c.op == "coro") {
            s.res = "none";
            s.reader.h.resume();    // returns when the coroutine completed its next() or parked in it
        }
    }
}

static std::string pend_of(World &w, const std::string &t) {
    int id = w.tid[t];
    if (w.sched.done(id)) return "done";
    const auto &e = w.sched.pending(id);
    if (e.op == op_t::mark) return "idle";
    if (e.op == op_t::lock) return "lock";
    if (e.op == op_t::unlock && w.sched.pending_after(id)) return "unlocked";
    if (e.op == op_t::notify) return "notify";
    if (e.op == op_t::wait) return w.sched.enabled(id) ? "woken" : "wait";
    return std::string("?") + cocls_verif::op_name(e.op);
}

// the mutex-guarded state of the queue (raw)
static J core(World &w) {
    J m = J::map();
    Queue &q = w.q();
    m.set("pos", QProbe::pos(q));
    m.set("closed", QProbe::closed(q));
    m.set("nextFree", QProbe::next_free(q));
    J win = J::list();
    for (const Item &v : QProbe::window(q)) win.push(v.shown());
    m.set("q", win);
    J rl = J::list();
    for (auto &r : QProbe::regs(q)) {
        J jr = J::map();
        jr.set("pos", r._pos);
        jr.set("used", r._used);
        jr.set("kicked", r._kicked);
        set_woken(jr, r);
        jr.set("awt", (long long) reinterpret_cast<std::uintptr_t>(r._awt));
        jr.set("sub", (long long) reinterpret_cast<std::uintptr_t>(r._sub));
        rl.push(jr);
    }
    m.set("regs", rl);
    return m;
}

static J project(World &w) {
    J m = J::map();
    Queue &q = w.q();
    m.set("pos", QProbe::pos(q));
    m.set("closed", QProbe::closed(q));
    m.set("pubAlive", w.pub_alive);
    m.set("nextFree", QProbe::next_free(q));
    J win = J::list();
    for (const Item &v : QProbe::window(q)) win.push(v.shown());
    m.set("q", win);
    m.set("stale", Item::stale);
    auto &regs = QProbe::regs(q);
    J rl = J::list();
    for (std::size_t i = 0; i < regs.size(); i++) {
        auto &r = regs[i];
        J jr = J::map();
        jr.set("pos", r._pos);
        jr.set("used", r._used);
        jr.set("kicked", r._kicked);
        set_woken(jr, r);
        int owner = 0;
        if (!r._used && r._awt) {
            auto it = w.slot_last_left.find(i);
            owner = it == w.slot_last_left.end() ? -4 : it->second;
        }
        if (r._used && r._awt) {
            owner = -1;
            for (auto &kv : w.subs) {
                Sub &s = *kv.second;
                if (s.built && s.obj && s.obj->_h == i) {
                    owner = s.id;
                    if (r._sub != static_cast<const SubT *>(s.obj)) owner = -3;
                }
            }
        }
        jr.set("awt", owner);
        rl.push(jr);
    }
    m.set("regs", rl);
    J sm = J::map();
    for (auto &kv : w.subs) {
        Sub &s = *kv.second;
        if (!s.built || !s.obj) continue;
        J js = J::map();
        js.set("hnd", s.obj->_h);
        js.set("mode", mode_name(s.obj->_t));
        js.set("recv", J::list(s.recv.begin(), s.recv.end()));
        js.set("res", s.res);
        js.set("eos", s.eos);
        sm.set(std::to_string(s.id), js);
    }
    m.set("subs", sm);
    J pend = J::map();
    for (auto &t : w.threads) pend.set(t, pend_of(w, t));
    m.set("pend", pend);
    return m;
}

struct Runner {
    World &w;
    const Scenario &sc;
    Reporter &rep;
    bool bad = false;

    void fail(std::size_t k, const std::string &why) { if (!bad) rep.diverge(k, why); bad = true; }

    // a step that is not a critical section: must leave the guarded state alone
    void plain_step(std::size_t k, const std::string &t, const char *what) {
        std::string before = core(w).dump();
        w.sched.step(w.tid[t]);
        std::string after = core(w).dump();
        if (before != after)
            fail(k, "thread " + t + " changed mutex-guarded state outside a critical section (" + what + "): before=" + before + " after=" + after);
    }
    // one lock..unlock critical section
    void cs_step(std::size_t k, const std::string &t) {
        if (pend_of(w, t) != "lock") { fail(k, "thread " + t + " is not at a lock operation of the queue: " + pend_of(w, t)); return; }
        if (!w.sched.enabled(w.tid[t])) { fail(k, "thread " + t + " cannot take the queue lock (held by thread " + std::to_string(w.sched.owner_of(w.sched.pending(w.tid[t]).obj)) + ")"); return; }
        w.sched.step(w.tid[t]);
        std::string p = pend_of(w, t);
        if (p != "unlocked")
            fail(k, "thread " + t + " did not come out of its critical section at an unlock: " + p +
                    (p == "lock" && !w.sched.enabled(w.tid[t]) ? " (it blocks on the queue lock while holding it: work done inside the lock that must be done outside)" : ""));
    }
    // from the command mark to the first lock operation of the call
    void to_lock(std::size_t k, const std::string &t, const Cmd &c) {
        if (pend_of(w, t) != "idle") { fail(k, "thread " + t + " is not idle in the implementation: " + pend_of(w, t)); return; }
        w.cmd[t] = c;
        plain_step(k, t, "from the start of the call to its first lock operation");
        if (!bad && pend_of(w, t) != "lock") fail(k, "thread " + t + " did not reach a lock operation of the queue: " + pend_of(w, t));
    }
    // move every thread through code without visible effect until it shows the expected pending operation;
    // never through a lock, never out of a mark
    void normalize(std::size_t k, const JV &want) {
        for (int round = 0; round < 64 && !bad; round++) {
            bool moved = false;
            for (auto &t : w.threads) {
                std::string cur = pend_of(w, t), wt = want.at(t).as_str();
                if (cur == wt) continue;
                if (cur == "unlocked" || cur == "notify" || (cur == "woken" && wt != "wait")) {
                    plain_step(k, t, cur == "unlocked" ? "after an unlock" : cur == "notify" ? "rest of the wake-up loop"
                                                                             : "released thread on its way to the next lock");
                    moved = true;
                    if (bad) break;
                }
            }
            if (!moved) break;
        }
    }

    void run() {
        for (std::size_t k = 0; k < sc.steps.size() && !bad; k++) {
            const Step &st = sc.steps[k];
            const std::string &a = st.name;
            JV exp = JReader(st.expected).parse();
            if (a == "PPush" || a == "P2Push") {
                const char *t = a == "PPush" ? "P" : "Q";
                Cmd c; c.op = "push"; c.a = st.iarg(0); c.b = w.npub + 1;
                w.npub += c.a;
                to_lock(k, t, c);
                if (!bad) cs_step(k, t);
            }
            else if (a == "P2Close") { Cmd c; c.op = "close"; to_lock(k, "Q", c); if (!bad) cs_step(k, "Q"); }
            else if (a == "P2Wake") {
                std::string p = pend_of(w, "Q");
                if (p != "unlocked" && p != "notify") fail(k, "second publishing thread is not in its wake-up loop: " + p);
                else plain_step(k, "Q", "wake-up loop");
            }
            else if (a == "P2Tail") cs_step(k, "Q");
            else if (a == "TTail") {
                const std::string &t = st.sarg(0);
                if (pend_of(w, t) != "unlocked") fail(k, "thread " + t + " is not between the unlock of get_value and the return of next(): " + pend_of(w, t));
                else plain_step(k, t, "return path of next()");
            }
            else if (a == "PClose") {
                Cmd c; c.op = st.sarg(0) == "close" ? "close" : "destroy";
                to_lock(k, "P", c);
                if (!bad) cs_step(k, "P");
                if (c.op == "destroy") w.pub_alive = false;
            }
            else if (a == "PKick") { Cmd c; c.op = "kick"; c.a = st.iarg(0); to_lock(k, "P", c); if (!bad) cs_step(k, "P"); }
            else if (a == "PWake") {
                std::string p = pend_of(w, "P");
                if (p != "unlocked" && p != "notify") fail(k, "publisher thread is not in its wake-up loop: " + p);
                else plain_step(k, "P", "wake-up loop");
            }
            else if (a == "PFetch" || a == "PTail") cs_step(k, "P");
            else if (a == "TJoinRecent" || a == "TJoinAt" || a == "TJoinCopy") {
                int id = st.iarg(0);
                auto &p = w.subs[id];
                if (p) w.graveyard.push_back(std::move(p));
                p.reset(new Sub());
                p->id = id;
                Cmd c;
                if (a == "TJoinRecent") { c.op = "recent"; c.m = st.sarg(1); }
                else if (a == "TJoinAt") { c.op = "at"; c.a = st.iarg(1); c.m = st.sarg(2); }
                else { c.op = "copy"; c.a = st.iarg(1); }
                to_lock(k, st.sarg(0), c);
                if (!bad) cs_step(k, st.sarg(0));
            }
            else if (a == "TLeave") {
                Sub &s = *w.subs.at(st.iarg(0));
                w.slot_last_left[s.obj->_h] = s.id;
                Cmd c; c.op = "leave";
                to_lock(k, st.sarg(0), c);
                if (!bad) cs_step(k, st.sarg(0));
            }
            else if (a == "TReady" || a == "TPollReady") {
                Cmd c; c.op = a == "TReady" ? st.sarg(1) : "poll";
                w.subs.at(st.iarg(0))->res = "none";     // result of the call that starts now
                to_lock(k, st.sarg(0), c);
                if (!bad) cs_step(k, st.sarg(0));
            }
            else if (a == "TSubscribe" || a == "TFetch" || a == "TPollFetch") cs_step(k, st.sarg(0));
            else { rep.error(k, "unknown action"); bad = true; break; }
            if (bad) break;
            normalize(k, exp.at("pend"));
            if (bad) break;
            if (!rep.check(k, project(w))) bad = true;
        }
    }
};

int main() {
    return replay_main(std::cin, [](const Scenario &sc, Reporter &rep) {
        World *pw = new World();
        World &w = *pw;
        std::size_t mn = (std::size_t) sc.hdr.at("min").as_int(1);
        long long mx = sc.hdr.at("max").as_int(99);
        if (mx >= 99 && mn == 1) w.pub = new (w.pubmem) Pub();
        else w.pub = new (w.pubmem) Pub(mx >= 99 ? std::numeric_limits<std::size_t>::max() : (std::size_t) mx, mn);
        w.pub_alive = true;
        w.qp = w.pub->get_queue();
        for (auto &x : sc.hdr.at("threads").l) w.threads.push_back(x.s);
        // lock grain plus sync_awaiter's notify: every other atomic operation runs through
        w.sched.lock_grain = false;
        w.sched.no_yield = [](const cocls_verif::event &e) { return !(e.op == op_t::mark || e.op == op_t::notify); };
        w.sched.install();
        Item::stale = 0;
        for (auto &t : w.threads) {
            if (t == "P" || t == "Q") { std::string name = t; w.tid[t] = w.sched.spawn([pw, name] { publisher_thread(*pw, name); }); }
            else { int id = atoi(t.c_str()); w.tid[t] = w.sched.spawn([pw, id] { subscriber_thread(*pw, id); }); }
        }
        Runner r{w, sc, rep};
        r.run();
        // wind down: release threads blocked in next() (closing wakes every waiter), let every call finish
        w.stop = true;
        bool blocked = false;
        for (auto &t : w.threads) blocked |= pend_of(w, t) == "wait";
        bool self_deadlock = false;
        for (auto &t : w.threads) self_deadlock |= pend_of(w, t) == "lock" && !w.sched.enabled(w.tid[t]) && w.sched.holds_any(w.tid[t]);
        if (blocked && !self_deadlock) w.qp->close();      // controller thread: unmanaged, the real mutex is free
        bool drained = !self_deadlock && w.sched.drain();
        if (!drained && !r.bad) rep.diverge(sc.steps.size() - 1, "threads cannot finish at the end of the schedule (deadlock / a blocked next() that close() does not wake)");
        w.sched.uninstall();
        if (!drained) { fflush(stdout); _exit(1); }
        w.sched.join_all();
        for (auto &kv : w.subs) kv.second.reset();
        w.graveyard.clear();
        if (w.pub_alive) w.pub->~Pub();
        w.qp.reset();
        delete pw;
    });
}
