// sched_thread_replay.cpp -- replays schedules of spec/Scheduler/SchedulerThread.tla on the real
// cocls::scheduler in thread mode (start_thread()).  The scheduler's worker thread is adopted by the controlled
// scheduler (interposed pthread_create), its mutex / condition variable are virtual and the clock is virtual
// (cocls_verif/pthread_shim.h); the worker's clock read is a scheduling point of its own.
//
// header: {"script":[{"op":"S","tp":2,"id":1},{"op":"C","id":1},{"op":"T"},...]}
// projection: {"enabled":[..],"fut":{"1":{"st","wat"}},"heap":[{"id","k","tp"}],"now":n,"pend":{"c":..,"w":..},"ret":..}
#include <cocls/scheduler.h>
#include <cocls_verif/pthread_shim.h>
#include "replay_common.h"

using namespace rp;
using cocls_verif::vsched;
using cocls_verif::op_t;

struct SProbe : cocls::scheduler {
    static auto heap_mp() { return &SProbe::_scheduled; }
    using Item = cocls::scheduler::SchItem;
};
struct FProbe : cocls::future<void> {
    static auto state_mp() { return &FProbe::_state; }
};

struct Op { std::string op; int tp = 0, id = 0; };

struct World {
    cocls::scheduler *sch = nullptr;
    std::vector<Op> script;
    struct Slot { alignas(cocls::future<void>) unsigned char mem[sizeof(cocls::future<void>)]; bool live = false; int wat = -1; };
    std::vector<std::unique_ptr<Slot>> futs;      // index k-1
    std::string ret = "none";
    int ids[8];
    long long T0 = 0;
    bool destroyed = false;
    vsched sched;
    cocls::future<void> *fut(std::size_t i) { return reinterpret_cast<cocls::future<void> *>(futs[i]->mem); }
    std::chrono::system_clock::time_point tp(int n) {
        return std::chrono::system_clock::time_point(std::chrono::duration_cast<std::chrono::system_clock::duration>(std::chrono::nanoseconds(T0 + n * 1000000000LL)));
    }
    int now() { return (int) ((sched.vnow_ns - T0) / 1000000000LL); }
};

static void client(World &w) {
    vsched::mark("begin");
    w.sch = new cocls::scheduler();
    w.sch->start_thread();
    std::size_t k = 0;
    for (auto &op : w.script) {
        if (op.op == "S") {
            w.futs[k]->live = true;
            new (w.futs[k]->mem) cocls::future<void>(w.sch->sleep_until(w.tp(op.tp), &w.ids[op.id]));
            k++;
        } else if (op.op == "C") {
            bool r = w.sch->cancel(&w.ids[op.id]);
            w.ret = r ? "true" : "false";
        } else if (op.op == "T") {
            vsched::mark("tick");
        }
    }
    vsched::mark("stop");
    delete w.sch;
    w.sch = nullptr;
    w.destroyed = true;
}

static std::string pend_of(World &w, int t) {
    if (t >= (int) w.sched.nthreads()) return "none";
    if (w.sched.done(t)) return "done";
    const auto &e = w.sched.pending(t);
    switch (e.op) {
        case op_t::mark: return std::string("pre:mark:") + e.tag;
        case op_t::lock: return "pre:lock";
        case op_t::unlock: return "post:unlock";
        case op_t::cond_wait: return "pre:cond";
        case op_t::thread_start: return "pre:start";
        case op_t::wait: return "pre:wait";
        default: return std::string("?") + cocls_verif::op_name(e.op) + "@" + e.func;
    }
}

static J project(World &w) {
    J m = J::map();
    m.set("now", w.now());
    m.set("ret", w.ret);
    J pend = J::map(), enabled = J::list();
    pend.set("c", pend_of(w, 0));
    pend.set("w", pend_of(w, 1));
    // the client's "tick" step is only meaningful while the worker sleeps un-notified on a deadline
    if (w.sched.enabled(0)) {
        bool tick = w.sched.pending(0).op == op_t::mark && std::string(w.sched.pending(0).tag) == "tick";
        if (!tick || (w.sched.nthreads() > 1 && w.sched.timed_wait_deadline(1) >= 0)) enabled.push("c");
    }
    if (w.sched.nthreads() > 1 && w.sched.enabled(1)) enabled.push("w");
    m.set("pend", pend);
    m.set("enabled", enabled);
    // the heap array
    J heap = J::list();
    std::map<const void *, int> slot_of;
    for (std::size_t i = 0; i < w.futs.size(); i++) if (w.futs[i]->live) slot_of[w.futs[i]->mem] = (int) i + 1;
    if (w.sch) {
        auto &v = (*w.sch).*SProbe::heap_mp();
        for (auto &it : v) {
            J e = J::map();
            long long ns = std::chrono::duration_cast<std::chrono::nanoseconds>(it._tp.time_since_epoch()).count();
            e.set("tp", (long) ((ns - w.T0) / 1000000000LL));
            e.set("id", (long) ((const int *) it._ident - w.ids));
            auto f = slot_of.find(it._p.get_id());
            e.set("k", it._p ? (f == slot_of.end() ? -1 : f->second) : 0);
            heap.push(e);
        }
    }
    m.set("heap", heap);
    J fut = J::map();
    for (std::size_t i = 0; i < w.futs.size(); i++) {
        J f = J::map();
        std::string st = "none";
        if (w.futs[i]->live) {
            st = "pending";
            cocls::future<void> *p = w.fut(i);
            if (p->ready()) {
                auto s = p->*FProbe::state_mp();
                using S = cocls::future_common::State;
                st = s == S::value ? "done" : s == S::exception ? "exc" : s == S::not_value ? "canceled" : "other";
                if (w.futs[i]->wat < 0) w.futs[i]->wat = w.now();
            }
        }
        f.set("st", st);
        f.set("wat", w.futs[i]->wat < 0 ? 0 : w.futs[i]->wat);
        fut.set(std::to_string(i + 1), f);
    }
    m.set("fut", fut);
    return m;
}

static void run(const Scenario &sc, Reporter &rep) {
    World *pw = new World();
    World &w = *pw;
    for (auto &x : sc.hdr.at("script").l) {
        Op o; o.op = x.at("op").as_str(); o.tp = (int) x.at("tp").as_int(0); o.id = (int) x.at("id").as_int(0);
        w.script.push_back(o);
    }
    std::size_t nslots = (std::size_t) sc.hdr.at("slots").as_int(3);
    for (std::size_t i = 0; i < nslots; i++) w.futs.emplace_back(new World::Slot());
    w.sched.lock_grain = true;
    w.sched.adopt_threads = true;
    w.sched.virtual_clock = true;
    w.sched.yield_on_clock = true;
    w.T0 = w.sched.vnow_ns;
    w.sched.install();
    w.sched.spawn([pw] { client(*pw); });
    bool bad = false;
    for (std::size_t k = 0; k < sc.steps.size() && !bad; k++) {
        const Step &st = sc.steps[k];
        if (st.name == "Tick" || st.name == "CTick") {
            long long d = w.sched.nthreads() > 1 ? w.sched.timed_wait_deadline(1) : -1;
            if (d < 0) { rep.diverge(k, "time cannot pass: the worker is not sleeping un-notified on a deadline; got=" + project(w).dump()); bad = true; break; }
            if (d > w.sched.vnow_ns) w.sched.vnow_ns = d;
            if (st.name == "Tick") { if (!rep.check(k, project(w))) bad = true; continue; }
        }
        int t = st.name[0] == 'C' ? 0 : 1;
        if (t >= (int) w.sched.nthreads() || !w.sched.enabled(t)) {
            rep.diverge(k, std::string("thread ") + (t ? "w" : "c") + " not enabled in the implementation; got=" + project(w).dump());
            bad = true;
            break;
        }
        bool was_cond = w.sched.pending(t).op == op_t::cond_wait;
        w.sched.step(t);
        // condition_variable::wait_until reads the clock once more after the wait returned (to compute its
        // cv_status): not a step of the scheduler's own code
        if (was_cond && !w.sched.done(t) && w.sched.pending(t).op == op_t::mark && std::string(w.sched.pending(t).tag) == "clock") w.sched.step(t);
        if (!rep.check(k, project(w))) bad = true;
    }
    // finish: let time pass whenever everything is blocked on a deadline
    // The client always goes first: ~stop_callback in the worker really blocks (a libstdc++ semaphore, not a
    // virtual primitive) while the stop callback runs on the client thread, so the worker must not be stepped into it
    // while the client is inside the callback (the specification has the same guard on WExit).
    bool drained = false;
    for (int guard = 0; guard < 100000; guard++) {
        if (w.sched.all_done()) { drained = true; break; }
        if (w.sched.enabled(0)) { w.sched.step(0); continue; }
        if (w.sched.nthreads() > 1 && w.sched.enabled(1)) { w.sched.step(1); continue; }
        long long d = w.sched.earliest_deadline();
        if (d < 0 || d <= w.sched.vnow_ns) break;
        w.sched.vnow_ns = d;
    }
    if (!drained && !bad) rep.diverge(sc.steps.size() - 1, "deadlock: threads blocked at the end of the schedule got=" + project(w).dump());
    w.sched.uninstall();
    if (!drained) { fflush(stdout); _exit(1); }
    w.sched.join_all();
    for (std::size_t i = 0; i < w.futs.size(); i++) if (w.futs[i]->live && w.fut(i)->ready()) w.fut(i)->~future();
    delete pw;
}

int main() {
    return replay_main(std::cin, run);
}
