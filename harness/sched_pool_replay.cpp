// sched_pool_replay.cpp -- replays schedules of spec/Scheduler/SchedulerPool.tla on the real cocls::scheduler started
// in a real cocls::thread_pool (scheduler(thread_pool &) / start(pool): worker_coro<true>).  The pool's threads are
// adopted by the controlled scheduler (interposed pthread_create); both mutexes (S = scheduler::_mx, P = thread_pool::_mx),
// both condition variables and the joins are virtual, the clock is virtual (cocls_verif/pthread_shim.h) and the worker's
// clock read is a scheduling point of its own.  Lock grain: atomics are not scheduling points.
//
// header: {"script":[{"op":"S"|"A","tp":2,"id":1},{"op":"C","id":1},{"op":"T"},{"op":"J"},{"op":"PS"},{"op":"D"}],
//          "workers":N,"slots":3,"ctor":bool,"expect_hang":bool}
// projection: {"co":{"1":{"at","by","st"}},"enabled":[..],"exit":b,"fut":{"1":{"st","wat"}},"heap":[{"id","k","tp"}],
//              "jobs":{"<script pos>":{"by","st"}},"now":n,"pend":{"c":..,"w1":..},"qlen":n,"ret":..,"sfut":..}
// pend: pre:lock:<M> | post:unlock:<M> | pre:cond:<M> | pre:mark:<tag> | pre:start | pre:join:<thread> | pre:wait | done,
//       M = S or P, followed by "+S" / "+P" for every one of the two mutexes the thread holds while it is parked.
#include <cocls/scheduler.h>
#include <cocls/thread_pool.h>
#include <cocls/async.h>
#include <cocls_verif/pthread_shim.h>
#include "replay_common.h"

using namespace rp;
using cocls_verif::vsched;
using cocls_verif::op_t;

struct SProbe : cocls::scheduler {
    static auto heap_mp() { return &SProbe::_scheduled; }
    static auto mx_mp() { return &SProbe::_mx; }
    static auto cond_mp() { return &SProbe::_cond; }
    // the scheduler's own future (resolved when the worker coroutine ends): "none" | "pending" | "done" | "exc" | "canceled"
    static std::string own_future(cocls::scheduler &s);
};
struct FProbe : cocls::future<void> {
    static auto state_mp() { return &FProbe::_state; }
};
struct PProbe : cocls::thread_pool {
    static auto exit_mp() { return &PProbe::_exit; }
    static auto queue_mp() { return &PProbe::_queue; }
    static auto mx_mp() { return &PProbe::_mx; }
    static auto cond_mp() { return &PProbe::_cond; }
};

static std::string fut_state(cocls::future<void> &f) {
    if (!f.ready()) return "pending";
    auto s = f.*FProbe::state_mp();
    using S = cocls::future_common::State;
    return s == S::value ? "done" : s == S::exception ? "exc" : s == S::not_value ? "canceled" : "other";
}

std::string SProbe::own_future(cocls::scheduler &s) {
    auto &gs = static_cast<SProbe &>(s)._glob_state;
    if (!gs.has_value()) return "none";
    return fut_state(gs->_fut);
}

struct Op { std::string op; int tp = 0, id = 0; };

struct JobRec { int started = 0, finished = 0, cancelled = 0; std::string by = "none"; };

// dies with the closure: tells whether the closure was ever called
struct Guard {
    JobRec *r;
    bool called = false;
    explicit Guard(JobRec *r) : r(r) {}
    ~Guard() { if (!called) r->cancelled++; }
};

struct World {
    cocls::thread_pool *pool = nullptr;
    void *sch_mem = nullptr;          // storage of the scheduler: its address is known before the constructor runs
    bool sch_live = false;            // constructor entered, destructor not yet finished
    cocls::scheduler *sch = nullptr;
    std::vector<Op> script;
    int nworkers = 1;
    bool ctor_form = true, expect_hang = false;
    struct Slot {
        alignas(cocls::future<void>) unsigned char mem[sizeof(cocls::future<void>)];
        bool live = false;
        int wat = -1;
        // "A" sleeps: the awaiting coroutine
        bool awaiting = false;
        int ok = 0, exc = 0;
        std::string by = "none";
        int at = 0;
    };
    std::vector<std::unique_ptr<Slot>> futs;      // index k-1
    std::map<int, JobRec> jobs;                   // script position (1-based) -> record
    std::string ret = "none";
    int ids[8];
    long long T0 = 0;
    vsched sched;
    cocls::future<void> *fut(std::size_t i) { return reinterpret_cast<cocls::future<void> *>(futs[i]->mem); }
    cocls::scheduler *obj() { return sch_live ? static_cast<cocls::scheduler *>(sch_mem) : nullptr; }
    std::chrono::system_clock::time_point tp(int n) {
        return std::chrono::system_clock::time_point(std::chrono::duration_cast<std::chrono::system_clock::duration>(std::chrono::nanoseconds(T0 + n * 1000000000LL)));
    }
    int now() { return (int) ((sched.vnow_ns - T0) / 1000000000LL); }
    // the two mutexes / condition variables (addresses as the interposed pthread layer sees them)
    const void *S_mx() { return sch_mem ? (const void *) (static_cast<cocls::scheduler *>(sch_mem)->*SProbe::mx_mp()).native_handle() : nullptr; }
    const void *S_cv() { return sch_mem ? (const void *) (static_cast<cocls::scheduler *>(sch_mem)->*SProbe::cond_mp()).native_handle() : nullptr; }
    const void *P_mx() { return pool ? (const void *) (pool->*PProbe::mx_mp()).native_handle() : nullptr; }
    const void *P_cv() { return pool ? (const void *) (pool->*PProbe::cond_mp()).native_handle() : nullptr; }
};

static std::string thread_name(int id) { return id == 0 ? "c" : "w" + std::to_string(id); }
static std::string cur_thread_name() {
    auto *me = vsched::self();
    return me ? thread_name(me->id) : "unmanaged";
}

static std::atomic<bool> g_terminated{false};

// an "A" sleep: the future lives in storage the controller sees; the coroutine records how, where and when it went on
static cocls::async<void> sleeper(World &w, std::size_t k, Op op) {
    World::Slot &s = *w.futs[k];
    s.live = true;
    new (s.mem) cocls::future<void>(w.sch->sleep_until(w.tp(op.tp), &w.ids[op.id]));
    s.awaiting = true;
    try {
        co_await *w.fut(k);
        s.ok++;
    } catch (const cocls::await_canceled_exception &) {
        s.exc++;
    }
    s.by = cur_thread_name();
    s.at = w.now();
}

static void client(World &w) {
    vsched::mark("begin");
    w.pool = new cocls::thread_pool(w.nworkers);
    w.sch_mem = operator new(sizeof(cocls::scheduler));
    w.sch_live = true;
    if (w.ctor_form) {
        w.sch = new (w.sch_mem) cocls::scheduler(*w.pool);
    } else {
        w.sch = new (w.sch_mem) cocls::scheduler();
        w.sch->start(*w.pool);
    }
    std::size_t k = 0;
    for (std::size_t i = 0; i < w.script.size(); i++) {
        const Op &op = w.script[i];
        if (op.op == "S") {
            w.futs[k]->live = true;
            new (w.futs[k]->mem) cocls::future<void>(w.sch->sleep_until(w.tp(op.tp), &w.ids[op.id]));
            k++;
        } else if (op.op == "A") {
            sleeper(w, k, op).detach();
            k++;
        } else if (op.op == "C") {
            bool r = w.sch->cancel(&w.ids[op.id]);
            w.ret = r ? "true" : "false";
        } else if (op.op == "T") {
            vsched::mark("tick");
        } else if (op.op == "J") {
            JobRec *r = &w.jobs[(int) i + 1];
            w.pool->run_detached([r, g = std::make_unique<Guard>(r)] { g->called = true; r->started++; r->by = cur_thread_name(); r->finished++; });
        } else if (op.op == "PS") {
            w.pool->stop();
        } else if (op.op == "D") {
            vsched::mark("stop");
            w.sch->~scheduler();
            w.sch_live = false;
            w.sch = nullptr;
        }
    }
}

static std::string mutex_name(World &w, const void *obj) {
    if (obj && (obj == w.S_mx() || obj == w.S_cv())) return "S";
    if (obj && (obj == w.P_mx() || obj == w.P_cv())) return "P";
    return "?";
}

static std::string pend_of(World &w, int t) {
    if (t >= (int) w.sched.nthreads()) return "pre:start";     // pool threads not created yet are reported the way the specification starts them
    if (w.sched.done(t)) return "done";
    const auto &e = w.sched.pending(t);
    std::string s;
    switch (e.op) {
        case op_t::mark: s = std::string("pre:mark:") + e.tag; break;
        case op_t::lock: s = "pre:lock:" + mutex_name(w, e.obj); break;
        case op_t::unlock: s = "post:unlock:" + mutex_name(w, e.obj); break;
        case op_t::cond_wait: s = "pre:cond:" + mutex_name(w, e.obj); break;
        case op_t::thread_start: s = "pre:start"; break;
        case op_t::thread_join: s = "pre:join:" + thread_name((int) e.arg); break;
        case op_t::wait: s = "pre:wait"; break;
        default: s = std::string("?") + cocls_verif::op_name(e.op) + "@" + e.func; break;
    }
    if (w.P_mx() && w.sched.owner_of(w.P_mx()) == t) s += "+P";
    if (w.S_mx() && w.sched.owner_of(w.S_mx()) == t) s += "+S";
    return s;
}

// the thread sleeping un-notified on a deadline in the SCHEDULER's condition variable (-1: none)
static int timed_sleeper(World &w) {
    for (std::size_t t = 1; t < w.sched.nthreads(); t++) {
        if (w.sched.done((int) t) || !w.sched.parked((int) t)) continue;
        const auto &e = w.sched.pending((int) t);
        if (e.op == op_t::cond_wait && e.obj == w.S_cv() && w.sched.timed_wait_deadline((int) t) >= 0) return (int) t;
    }
    return -1;
}

static J project(World &w) {
    J m = J::map();
    m.set("now", w.now());
    m.set("ret", w.ret);
    J pend = J::map(), enabled = J::list();
    for (int t = 0; t <= w.nworkers; t++) {
        std::string n = thread_name(t);
        pend.set(n, pend_of(w, t));
        if (t >= (int) w.sched.nthreads() || !w.sched.enabled(t)) continue;
        // the client's "tick" step is only meaningful while the worker sleeps un-notified on a deadline
        if (t == 0 && w.sched.pending(0).op == op_t::mark && std::string(w.sched.pending(0).tag) == "tick" && timed_sleeper(w) < 0) continue;
        // a thread parked inside the terminate handler never goes on
        if (w.sched.pending(t).op == op_t::mark && std::string(w.sched.pending(t).tag) == "terminated") continue;
        enabled.push(n);
    }
    enabled.sort_as_set();
    m.set("pend", pend);
    m.set("enabled", enabled);
    // the heap array
    J heap = J::list();
    std::map<const void *, int> slot_of;
    for (std::size_t i = 0; i < w.futs.size(); i++) if (w.futs[i]->live) slot_of[w.futs[i]->mem] = (int) i + 1;
    if (w.sch) {
        auto &v = (*w.sch).*SProbe::heap_mp();
        for (auto &it : v) {
            J e = J::map();
            long long ns = std::chrono::duration_cast<std::chrono::nanoseconds>(it._tp.time_since_epoch()).count();
            e.set("tp", (long) ((ns - w.T0) / 1000000000LL));
            e.set("id", (long) ((const int *) it._ident - w.ids));
            auto f = slot_of.find(it._p.get_id());
            e.set("k", it._p ? (f == slot_of.end() ? -1 : f->second) : 0);
            heap.push(e);
        }
    }
    m.set("heap", heap);
    m.set("sfut", w.obj() ? SProbe::own_future(*w.obj()) : std::string("none"));
    J fut = J::map(), co = J::map();
    for (std::size_t i = 0; i < w.futs.size(); i++) {
        World::Slot &s = *w.futs[i];
        J f = J::map();
        std::string st = "none";
        if (s.live) {
            st = fut_state(*w.fut(i));
            if (st != "pending" && s.wat < 0) s.wat = w.now();
        }
        f.set("st", st);
        f.set("wat", s.wat < 0 ? 0 : s.wat);
        fut.set(std::to_string(i + 1), f);
        J c = J::map();
        std::string cs = s.ok + s.exc > 1 ? "twice" : s.ok ? "ran" : s.exc ? "exc" : s.awaiting ? "susp" : "none";
        c.set("st", cs);
        c.set("by", s.by);
        c.set("at", s.at);
        co.set(std::to_string(i + 1), c);
    }
    m.set("fut", fut);
    m.set("co", co);
    if (w.pool) {
        m.set("exit", (bool) (w.pool->*PProbe::exit_mp()));
        m.set("qlen", (long) (w.pool->*PProbe::queue_mp()).size());
    } else {
        m.set("exit", false);
        m.set("qlen", 0);
    }
    J jobs = J::map();
    for (auto &kv : w.jobs) {
        const JobRec &r = kv.second;
        J j = J::map();
        std::string st = (r.started > 1 || r.finished > 1 || r.cancelled > 1) ? "twice" : (r.cancelled && r.started) ? "ran_and_cancelled"
                       : r.cancelled ? "cancelled" : r.finished ? "ran" : r.started ? "running" : "pending";
        j.set("st", st);
        j.set("by", r.by);
        jobs.set(std::to_string(kv.first), j);
    }
    m.set("jobs", jobs);
    return m;
}

static bool at_mark(World &w, int t, const char *tag) {
    return !w.sched.done(t) && w.sched.parked(t) && w.sched.pending(t).op == op_t::mark && std::string(w.sched.pending(t).tag) == tag;
}

// one step of thread t; condition_variable::wait_until reads the clock once more after the wait on the scheduler's
// condition variable has returned (to compute its cv_status): not a step of the scheduler's own code
static void step_thread(World &w, int t) {
    bool was_scond = w.sched.pending(t).op == op_t::cond_wait && w.sched.pending(t).obj == w.S_cv();
    w.sched.step(t);
    if (was_scond && at_mark(w, t, "clock")) w.sched.step(t);
}

static void run(const Scenario &sc, Reporter &rep) {
    World *pw = new World();
    World &w = *pw;
    for (auto &x : sc.hdr.at("script").l) {
        Op o; o.op = x.at("op").as_str(); o.tp = (int) x.at("tp").as_int(0); o.id = (int) x.at("id").as_int(0);
        w.script.push_back(o);
    }
    w.nworkers = (int) sc.hdr.at("workers").as_int(1);
    w.ctor_form = sc.hdr.at("ctor").as_bool(true);
    w.expect_hang = sc.hdr.at("expect_hang").as_bool(false);
    std::size_t nslots = (std::size_t) sc.hdr.at("slots").as_int(3);
    for (std::size_t i = 0; i < nslots; i++) w.futs.emplace_back(new World::Slot());
    for (std::size_t i = 0; i < w.script.size(); i++) if (w.script[i].op == "J") w.jobs[(int) i + 1] = JobRec();
    g_terminated = false;
    w.sched.lock_grain = true;
    w.sched.adopt_threads = true;
    w.sched.virtual_clock = true;
    w.sched.yield_on_clock = true;
    w.T0 = w.sched.vnow_ns;
    w.sched.install();
    w.sched.spawn([pw] { client(*pw); });
    bool bad = false;
    for (std::size_t k = 0; k < sc.steps.size() && !bad; k++) {
        const Step &st = sc.steps[k];
        if (st.name == "Tick" || st.name == "CTick") {
            int ts = timed_sleeper(w);
            if (ts < 0) { rep.diverge(k, "time cannot pass: the worker is not sleeping un-notified on a deadline; got=" + project(w).dump()); bad = true; break; }
            long long d = w.sched.timed_wait_deadline(ts);
            if (d > w.sched.vnow_ns) w.sched.vnow_ns = d;
            if (st.name == "Tick") { if (!rep.check(k, project(w))) bad = true; continue; }
        }
        std::string tn = st.name[0] == 'C' ? "c" : st.sarg(0);
        int t = tn == "c" ? 0 : atoi(tn.c_str() + 1);
        if (t >= (int) w.sched.nthreads() || !w.sched.enabled(t)) {
            rep.diverge(k, "thread " + tn + " not enabled in the implementation; got=" + project(w).dump());
            bad = true;
            break;
        }
        step_thread(w, t);
        if (!rep.check(k, project(w))) bad = true;
    }
    // finish: let time pass whenever everything is blocked on a deadline.
    // The client always goes first: ~stop_callback at the end of the worker coroutine really blocks (a libstdc++
    // semaphore, not a virtual primitive) while the stop callback runs on the client thread, so the thread executing the
    // worker coroutine must not be stepped into it while the client is inside the callback (the specification has the
    // same guard on KExit / KEnqRej).  While the client is inside the callback it is either enabled or waits for S,
    // whose holder parks after its unlock, before the coroutine's end.
    bool drained = false;
    for (int guard = 0; guard < 100000; guard++) {
        if (w.sched.all_done()) { drained = true; break; }
        if (g_terminated) break;
        int pick = -1;
        for (int t = 0; t < (int) w.sched.nthreads() && pick < 0; t++) {
            if (!w.sched.enabled(t)) continue;
            if (t == 0 && at_mark(w, 0, "tick") && timed_sleeper(w) < 0) continue;
            pick = t;
        }
        if (pick >= 0) { step_thread(w, pick); continue; }
        long long d = w.sched.earliest_deadline();
        if (d < 0 || d <= w.sched.vnow_ns) break;
        w.sched.vnow_ns = d;
    }
    // a behaviour of the specification that ends in std::terminate (the client is parked in the terminate handler for
    // ever) or in a hang the specification predicts (header expect_hang): the threads are abandoned, everything leaks
    bool abandoned = !drained && (g_terminated || (w.expect_hang && !bad));
    if (!drained && !bad && !abandoned) rep.diverge(sc.steps.size() - 1, "deadlock: threads blocked at the end of the schedule got=" + project(w).dump());
    w.sched.uninstall();
    if (!drained && !abandoned) { fflush(stdout); _exit(1); }
    w.sched.join_all();
    if (abandoned) return;
    for (std::size_t i = 0; i < w.futs.size(); i++) if (w.futs[i]->live && w.fut(i)->ready()) w.fut(i)->~future();
    if (w.sch_mem && !w.sch_live) operator delete(w.sch_mem);
    // the pool object dies on the controller thread (un-managed, real pthread calls): only when it has been stopped,
    // i.e. every pool thread has exited; otherwise it is leaked
    if (w.pool && (w.pool->*PProbe::exit_mp())) delete w.pool;
    delete pw;
}

int main() {
    // std::terminate on a managed thread (e.g. an exception leaving ~scheduler): recorded, the thread parks for ever
    std::set_terminate([] {
        g_terminated = true;
        if (vsched::self()) for (;;) vsched::mark("terminated");
        fprintf(stdout, "\nTERMINATE std::terminate called on an un-managed thread\n");
        fflush(stdout);
        _exit(4);
    });
    return replay_main(std::cin, run);
}
