// signal_conc_replay.cpp -- replays schedules of spec/Signal/SignalConc.tla on the real
// cocls::signal<int> with real threads under the controlled scheduler (vsched): one collector thread
// and one thread per arriving listener (coroutine on an emitter / connect() callback).
//
// header: {"form":"rvalue"|"lvalue","nemit":n,"kinds":{name:"prel"|"thrl"|"hookl"|"precbt"|"precbf"|"thrcbt"|"thrcbf"},
//          ("hookl": no signal at the start; that thread's coroutine awaits signal<int>::hook_up(fn) and fn hands the
//           collector to the collector thread -- harness mark "handed" inside fn)
//          "order":[pre-subscribed listeners in subscription order]}
//          "fine":bool -- finest grain (spec/Signal/SignalFine.tla, vsched yield_after): the code after every
//          visible operation is a step of its own; pending operations are then reported as pre:X / post:X
// step label: CEmit | CXchg | CCas | CDrop | CDxchg | TStart(t) | TCas(t) | TDxchg(t)  (= "step that thread");
//          any label starting with C steps the collector thread, any other the thread named by its argument
// projection after each step:
//   {"chain":[from the top],"refs":use_count,"cur","stor","cvar","lst":{l:state},"received":{l:[..]},
//    "pend":{"C":pc,t:pc},"casn":listener whose CAS the collector thread is executing | "null",
//    "exp":{l:expected value (= node's _next) of a pending CAS},"cblive":{c:live functor instances}}
#define REPLAY_COUNT_ALLOCS
#include <cocls/signal.h>
#include <cocls/async.h>
#include <cocls_verif/vsched.h>
#include "replay_common.h"

#include <optional>

using namespace rp;
using cocls_verif::vsched;
using cocls_verif::op_t;

static constexpr int CANCEL = -1;
static constexpr int POISON = -9;
static constexpr int TEMP_DEAD = -7;

using signal_t = cocls::signal<int>;
using collector_t = signal_t::collector;
using emitter_t = signal_t::emitter;
using state_t = decltype(std::declval<collector_t>()._state)::element_type;

struct Seen {
    int v[24];
    int n = 0;
    void push(int x) { if (n < 24) v[n] = x; n++; }
    J json() const { J l = J::list(); for (int i = 0; i < n && i < 24; i++) l.push(v[i]); return l; }
};

enum class Phase { fresh, awaiting, done };

struct World;

// registration function of hook_up(): hands the collector to the collector thread
struct RegC {
    World *w;
    void operator()(collector_t c);
};

// the object returned by hook_up(), wrapped only to read what it keeps protected
struct HProbe : signal_t::hook_up_emitter<RegC> {
    using base_t = signal_t::hook_up_emitter<RegC>;
    HProbe(base_t &&b) : base_t(std::move(b)) {}
    const cocls::awaiter *node() const { return static_cast<const cocls::awaiter *>(this); }
    std::weak_ptr<state_t> weak_state() const { return this->_wk_state; }
};

struct LState {
    std::string name;
    emitter_t em;
    bool hooked = false;
    std::optional<HProbe> hk;
    Phase phase = Phase::fresh;
    Seen seen;
    const cocls::awaiter *node() const { return hooked ? (hk ? hk->node() : nullptr) : static_cast<const cocls::awaiter *>(&em); }
};

// a listener that does nothing between two signals except re-awaiting the emitter
static cocls::async<void> listener_body(LState &L) {
    for (;;) {
        L.phase = Phase::awaiting;
        try {
            // (the operand must be a named lvalue: g++ 12 awaits a COPY of `*L.hk`)
            if (L.hooked) { HProbe &e = *L.hk; int &r = co_await e; L.seen.push(r); }
            else { int &r = co_await L.em; L.seen.push(r); }
        } catch (const cocls::await_canceled_exception &) {
            L.seen.push(CANCEL);
            break;
        }
    }
    L.phase = Phase::done;
}

struct CbState {
    std::string name;
    bool answer = true;
    bool connected = false;
    int ctor = 0, dtor = 0;
    const void *inst[8];
    int ninst = 0;
    Seen seen;
    void add(const void *p) { ctor++; if (ninst < 8) inst[ninst++] = p; }
    const void *dead[8];     // where destroyed instances were: a pending CAS may still expect such a node
    int ndead = 0;
    void del(const void *p) {
        dtor++;
        for (int i = 0; i < ninst; i++) if (inst[i] == p) { inst[i] = inst[--ninst]; if (ndead < 8) dead[ndead++] = p; return; }
        dtor += 1000;
    }
    int live() const { return ctor - dtor; }
};

// an instance counts as alive from construction until destruction or until it is moved from
struct CbFn {
    CbState *s;
    explicit CbFn(CbState *s) : s(s) { s->add(this); }
    CbFn(const CbFn &o) : s(o.s) { if (s) s->add(this); }
    CbFn(CbFn &&o) : s(o.s) { if (s) { s->del(&o); o.s = nullptr; s->add(this); } }
    ~CbFn() { if (s) s->del(this); }
    bool operator()(int &v) { s->seen.push(v); return s->answer; }
};

struct World {
    std::optional<collector_t> col;                           // the collector thread's handle
    std::map<std::string, std::optional<signal_t>> tsig;      // signal objects owned by connecting threads
    std::weak_ptr<state_t> wk;
    state_t *raw = nullptr;
    std::map<std::string, std::string> kind;
    std::map<std::string, LState> ls;
    std::map<std::string, CbState> cbs;
    std::map<std::string, int> tid;
    std::string form;
    int nemit = 0;
    int lv_slot = 0, rv_slot = 0;
    bool c_dropping = false;
    bool fine = false;
    vsched sched;

    const cocls::awaiter *node_of(const std::string &name) {
        auto il = ls.find(name);
        if (il != ls.end()) return il->second.node();
        return nullptr;
    }
    std::string who(const cocls::awaiter *n) {
        if (!n) return "null";
        for (auto &kv : ls) if (kv.second.node() == n) return kv.first;
        // a connect() node is `class Awt : emitter { Fn _fn; }`: the live functor sits right behind the base
        const char *p = reinterpret_cast<const char *>(n) + sizeof(emitter_t);
        for (auto &kv : cbs) {
            for (int i = 0; i < kv.second.ninst; i++) {
                const char *a = static_cast<const char *>(kv.second.inst[i]);
                if (a >= p && a < p + 16) return kv.first;
            }
        }
        // stale pointer to a node that deleted itself (compared by address only, never dereferenced by the library)
        for (auto &kv : cbs) {
            for (int i = 0; i < kv.second.ndead; i++) {
                const char *a = static_cast<const char *>(kv.second.dead[i]);
                if (a >= p && a < p + 16) return kv.first;
            }
        }
        return "unknown";
    }
};

void RegC::operator()(collector_t c) {
    World &w = *this->w;
    w.col.emplace(std::move(c));
    w.wk = w.col->_state;
    w.raw = w.col->_state.get();
    // what the other arriving threads need: their emitter / their own signal object
    for (auto &kv : w.ls) if (!kv.second.hooked) kv.second.em = signal_t(*w.col).get_emitter();
    for (auto &kv : w.tsig) kv.second.emplace(signal_t(*w.col));
    vsched::mark("handed");     // from here on the collector thread may emit, while this thread is still inside fn
}

static std::string pend_site(World &w, const std::string &name) {
    int t = w.tid[name];
    const auto &e = w.sched.pending(t);
    switch (e.op) {
        case op_t::mark: return e.tag;
        case op_t::xchg: return (name != "C" || w.c_dropping) ? "dxchg" : "xchg";
        case op_t::cas: return "cas";
        default: break;
    }
    return std::string("?") + cocls_verif::op_name(e.op) + "@" + e.func;
}

static std::string pend_of(World &w, const std::string &name) {
    int t = w.tid[name];
    if (w.sched.done(t)) return "done";
    std::string site = pend_site(w, name);
    if (!w.fine) return site;
    return std::string(w.sched.pending_after(t) ? "post:" : "pre:") + site;
}

static J project(World &w) {
    J m = J::map();
    if (!w.raw) {
        // hook_up(): the signal is created inside the first await_suspend; until fn is called only the emitter knows it
        for (auto &kv : w.ls) if (kv.second.hooked && kv.second.hk) {
            auto wk = kv.second.hk->weak_state();
            if (auto sp = wk.lock()) { w.wk = wk; w.raw = sp.get(); }
        }
    }
    long refs = w.wk.use_count();
    m.set("refs", refs);
    std::vector<std::string> chain;
    std::string cur = "null";
    int stor = 0;
    // a thread parked at the exchange of ~state is inside the destructor body: the object is still there
    bool in_dtor = false;
    for (auto &kv : w.tid) in_dtor = in_dtor || (!w.sched.done(kv.second) && pend_site(w, kv.first) == "dxchg");
    if (refs > 0 || in_dtor) {
        int fuel = 12;
        for (cocls::awaiter *n = w.raw->_chain.verif_peek(); n && fuel--; n = n->_next) chain.push_back(w.who(n));
        if (w.raw->_cur_val == nullptr) cur = "null";
        else if (w.raw->_value_storage.has_value() && w.raw->_cur_val == &*w.raw->_value_storage) cur = "storage";
        else cur = w.raw->_cur_val == &w.lv_slot ? "caller" : "other";
        if (refs > 0 && w.raw->_value_storage.has_value()) stor = *w.raw->_value_storage;
    }
    m.set("chain", J::list(chain.begin(), chain.end()));
    m.set("cur", cur);
    m.set("stor", stor);
    m.set("cvar", w.lv_slot);
    // pending CAS operations: who is being subscribed, with which expected value
    std::map<std::string, std::string> casing;   // listener -> expected
    std::string casn = "null";
    J pend = J::map();
    for (auto &kv : w.tid) {
        pend.set(kv.first, pend_of(w, kv.first));
        int t = kv.second;
        // a CAS that is still to be executed, or (finest grain) has just failed and will be retried
        if (w.sched.parked(t) && w.sched.pending(t).op == op_t::cas && (!w.sched.pending_after(t) || !w.sched.pending(t).ok)) {
            auto node = reinterpret_cast<cocls::awaiter *>((std::uintptr_t) w.sched.pending(t).arg);
            std::string l = w.who(node);
            casing[l] = w.who(node->_next);
            if (kv.first == "C") casn = l;
        }
    }
    m.set("pend", pend);
    m.set("casn", casn);
    J exp = J::map();
    for (auto &kv : casing) exp.set(kv.first, kv.second);
    m.set("exp", exp);
    auto in = [&](const std::string &x) { return std::find(chain.begin(), chain.end(), x) != chain.end(); };
    J lst = J::map(), rec = J::map(), cblive = J::map();
    for (auto &kv : w.ls) {
        LState &L = kv.second;
        std::string s = L.phase == Phase::fresh ? "new" : L.phase == Phase::done ? "done"
                        : casing.count(kv.first) ? "casing" : in(kv.first) ? "waiting" : "out";
        lst.set(kv.first, s);
        rec.set(kv.first, L.seen.json());
    }
    for (auto &kv : w.cbs) {
        CbState &c = kv.second;
        std::string s = !c.connected ? "new" : c.live() == 0 ? "freed" : c.live() != 1 ? "live=" + std::to_string(c.live())
                        : casing.count(kv.first) ? "casing" : in(kv.first) ? "waiting" : "out";
        lst.set(kv.first, s);
        rec.set(kv.first, c.seen.json());
        cblive.set(kv.first, c.live());
    }
    m.set("lst", lst);
    m.set("received", rec);
    m.set("cblive", cblive);
    return m;
}

static void run(const Scenario &sc, Reporter &rep) {
    long base = alloc_stats::g_news.load() - alloc_stats::g_deletes.load();
    bool clean = false;
    {
        World w;
        w.form = sc.hdr.at("form").as_str("rvalue");
        w.nemit = (int) sc.hdr.at("nemit").as_int();
        for (auto &kv : sc.hdr.at("kinds").m) w.kind[kv.first] = kv.second.s;
        bool hook = false;
        for (auto &kv : w.kind) hook = hook || kv.second == "hookl";
        if (hook) {
            for (auto &kv : w.kind) {
                const std::string &k = kv.second;
                if (k == "thrl" || k == "hookl") {
                    LState &L = w.ls[kv.first];
                    L.name = kv.first;
                    L.hooked = k == "hookl";
                } else {
                    CbState &c = w.cbs[kv.first];
                    c.name = kv.first;
                    c.answer = k == "thrcbt";
                    w.tsig[kv.first];       // filled by the registration function
                }
            }
        } else {
            signal_t sig;
            w.col.emplace(sig.get_collector());
            w.wk = w.col->_state;
            w.raw = w.col->_state.get();
            for (auto &kv : w.kind) {
                const std::string &k = kv.second;
                if (k == "prel" || k == "thrl") {
                    LState &L = w.ls[kv.first];
                    L.name = kv.first;
                    L.em = sig.get_emitter();
                } else {
                    CbState &c = w.cbs[kv.first];
                    c.name = kv.first;
                    c.answer = k == "precbt" || k == "thrcbt";
                    if (k == "thrcbt" || k == "thrcbf") w.tsig[kv.first].emplace(sig);
                }
            }
            // listeners subscribed before the threads start, in the order given by the initial state
            for (auto &nm : sc.hdr.at("order").l) {
                const std::string &k = w.kind[nm.s];
                if (k == "prel") listener_body(w.ls[nm.s]).detach();
                else { w.cbs[nm.s].connected = true; sig.connect(CbFn(&w.cbs[nm.s])); }
            }
        }
        // awaiter::subscribe starts with `assert(this != chain.load(relaxed))` (awaiter.h:70); the load only
        // feeds the assertion, so it is not a scheduling point of its own
        w.sched.no_yield = [](const cocls_verif::event &e) {
            return (e.op == op_t::load) && strstr(e.func, "awaiter::subscribe(") != nullptr;
        };
        w.fine = sc.hdr.at("fine").as_bool(false);
        w.sched.yield_after = w.fine;
        w.sched.install();
        World *pw = &w;
        w.tid["C"] = w.sched.spawn([pw] {
            World &w = *pw;
            for (int i = 1; i <= w.nemit; i++) {
                vsched::mark("emit");
                if (w.form == "lvalue") {
                    w.lv_slot = i;
                    (*w.col)(w.lv_slot);                // suspend point discarded at once
                    w.lv_slot = POISON;                 // the referenced variable goes out of scope
                } else {
                    w.rv_slot = i;
                    (*w.col)(std::move(w.rv_slot));
                    w.rv_slot = TEMP_DEAD;
                }
            }
            vsched::mark("drop");
            w.c_dropping = true;
            w.col.reset();
        });
        for (auto &kv : w.kind) {
            std::string name = kv.first, k = kv.second;
            if (k == "hookl") {
                w.tid[name] = w.sched.spawn([pw, name] {
                    World &w = *pw;
                    vsched::mark("start");
                    w.ls[name].hk.emplace(signal_t::hook_up(RegC{&w}));
                    listener_body(w.ls[name]).detach();
                });
            } else if (k == "thrl") {
                w.tid[name] = w.sched.spawn([pw, name] {
                    World &w = *pw;
                    vsched::mark("start");
                    listener_body(w.ls[name]).detach();   // plain thread: the coroutine starts right here
                });
            } else if (k == "thrcbt" || k == "thrcbf") {
                w.tid[name] = w.sched.spawn([pw, name] {
                    World &w = *pw;
                    vsched::mark("start");
                    w.cbs[name].connected = true;
                    w.tsig[name]->connect(CbFn(&w.cbs[name]));
                    w.tsig[name].reset();
                });
            }
        }
        bool bad = false;
        for (std::size_t k = 0; k < sc.steps.size() && !bad; k++) {
            const Step &st = sc.steps[k];
            std::string th = st.name[0] == 'C' ? std::string("C") : st.sarg(0);
            auto it = w.tid.find(th);
            if (it == w.tid.end()) { rep.error(k, "unknown thread"); bad = true; break; }
            int t = it->second;
            if (!w.sched.enabled(t)) {
                rep.diverge(k, "thread not enabled in the implementation (" + std::string(w.sched.done(t) ? "finished" : "blocked") + ") got=" + project(w).dump());
                bad = true;
                break;
            }
            w.sched.step(t);
            if (!rep.check(k, project(w))) bad = true;
        }
        bool drained = w.sched.drain();
        std::size_t last = sc.steps.empty() ? 0 : sc.steps.size() - 1;
        if (!drained && !bad) { rep.diverge(last, "deadlock: threads blocked at the end of the schedule got=" + project(w).dump()); bad = true; }
        if (drained && !bad) {
            for (auto &kv : w.ls) {
                if (kv.second.phase != Phase::done) { rep.diverge(last, "listener " + kv.first + " was never resumed with the cancel exception"); bad = true; break; }
            }
            for (auto &kv : w.cbs) {
                if (bad) break;
                if (kv.second.live() != 0 || !kv.second.connected) { rep.diverge(last, "callback " + kv.first + " not released: live=" + std::to_string(kv.second.live())); bad = true; }
            }
            if (!bad && w.wk.use_count() != 0) { rep.diverge(last, "shared state still referenced at the end"); bad = true; }
        }
        w.sched.uninstall();
        if (!drained) {
            fflush(stdout);
            _exit(1);
        }
        w.sched.join_all();
        clean = !bad;
    }
    long after = alloc_stats::g_news.load() - alloc_stats::g_deletes.load();
    if (clean && after != base) {
        rep.diverge(sc.steps.empty() ? 0 : sc.steps.size() - 1, "allocation imbalance over the scenario: " + std::to_string(after - base));
    }
}

int main() {
    // the controller thread's ready queue (a thread_local std::deque) is constructed on first use and lives
    // until the thread ends: construct it before any allocation balance is taken
    (void) cocls::coro_queue::queue_impl::instance._queue.size();
    return replay_main(std::cin, run);
}
