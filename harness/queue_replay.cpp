// queue_replay.cpp -- replays behaviours of spec/Queue/Queue.tla (single client thread, the
// resolution step merged into its critical section by the path writer) on the real
// cocls::queue<T, Queue, CoroQueue, Lock>, comparing the projection of the real object with the
// specification's state after every step.
//
// header: {"void":bool, "item":bool, "mode":"poll"|"coro",
//          "forms":[...], "shift":n      -- Queue.tla FormSeq / shift: the n-th push uses forms[(n + shift) % len]
//          "si":bool, "sw":bool          -- Queue.tla SingleItem / SingleWaiter: primitives::single_item_queue as the
//                                           item container / as the container of the parked pops
//          "lock":"mutex"|"none"}        -- Lock template parameter (std::mutex | primitives::no_lock)
// instantiations: T = int | void | Item (a class that records which constructor built it, has an initializer-list
// constructor -- T{args...} is not T(args...) -- and can throw from any constructor on demand)
// projection: {"destroyed","fut":[{"st","v"}...],"items":[...],"npop","npush","ret":{"t1":..},"waiters":[ids]}
//   an item is its identity n (int), 0 (void / no value), or {"a","b","ctor"} (Item)
#include <cocls/queue.h>
#include <cocls/async.h>
#include <cocls/future.h>
#include "replay_common.h"

#include <deque>
#include <initializer_list>
#include <optional>
#include <stdexcept>

using namespace rp;
namespace prim = cocls::primitives;

struct TestExc : std::exception {};
struct CtorThrow {};

// ---------------------------------------------------------------------------------------------
// item type.  Records how the ORIGINAL object was built (copies and moves carry the record along; a moved-from
// object loses its identity), so that what a pop receives can be compared with what a direct T(args...) gives.
// The initializer-list constructor takes elements that are constructible from int and from Item itself (the
// shape of json-like / vector<any>-like types): T{n}, T{n, m}, T{x} do not build what T(n), T(n, m), T(x) build.
// ---------------------------------------------------------------------------------------------
struct Item;
struct Wrap {
    int a;
    Wrap(int x) : a(x) {}
    Wrap(const Item &it);
};
struct Item {
    static inline bool armed = false;   // the next constructor to run throws (one shot)
    static inline int dflt = 0;         // identity handed out by the default constructor
    int a = 0, b = 0;
    char ctor = '?';                    // '0' Item(), '1' Item(int), '2' Item(int,int), 'L' initializer_list, 'm' moved-from
    static void boom() { if (armed) { armed = false; throw CtorThrow(); } }
    Item() { boom(); a = dflt; ctor = '0'; }
    explicit Item(int x) { boom(); a = x; ctor = '1'; }
    Item(int x, int y) { boom(); a = x; b = y; ctor = '2'; }
    Item(std::initializer_list<Wrap> l) {
        boom();
        auto it = l.begin();
        if (it != l.end()) a = (it++)->a;
        if (it != l.end()) b = (it++)->a;
        ctor = 'L';
    }
    Item(const Item &o) { boom(); a = o.a; b = o.b; ctor = o.ctor; }
    Item(Item &&o) { boom(); a = o.a; b = o.b; ctor = o.ctor; o.a = 0; o.b = 0; o.ctor = 'm'; }
    Item &operator=(const Item &o) { a = o.a; b = o.b; ctor = o.ctor; return *this; }
    Item &operator=(Item &&o) {
        if (this != &o) { a = o.a; b = o.b; ctor = o.ctor; o.a = 0; o.b = 0; o.ctor = 'm'; }
        return *this;
    }
    bool is(int xa, int xb, char xc) const { return a == xa && b == xb && ctor == xc; }
};
inline Wrap::Wrap(const Item &it) : a(it.a) {}

static J item_json(const Item &x) {
    J m = J::map();
    m.set("a", x.a);
    m.set("b", x.b);
    m.set("ctor", std::string(1, x.ctor));
    return m;
}
static J item_json(int x) { return J(x); }

// ---------------------------------------------------------------------------------------------
// read access to the containers of the queue (protected members, reached through derived classes)
// ---------------------------------------------------------------------------------------------
template <typename X>
struct StdPeek : prim::std_queue<X> {
    static const auto &cont(const prim::std_queue<X> &q) { return q.*(&StdPeek::c); }
};
template <typename X>
struct SinglePeek : prim::single_item_queue<X> {
    static const std::optional<X> &val(const prim::single_item_queue<X> &q) { return q.*(&SinglePeek::_val); }
};
template <typename X, typename F>
void each(const prim::std_queue<X> &q, F &&f) { for (const X &x : StdPeek<X>::cont(q)) f(x); }
template <typename X, typename F>
void each(const prim::single_item_queue<X> &q, F &&f) { const auto &o = SinglePeek<X>::val(q); if (o.has_value()) f(*o); }

template <typename T, template <typename> class Q, template <typename> class CQ, typename Lock>
struct Probe : cocls::queue<T, Q, CQ, Lock> {
    using cocls::queue<T, Q, CQ, Lock>::_queue;
    using cocls::queue<T, Q, CQ, Lock>::_awaiters;
};

struct Rec {
    std::string st = "pending";
    std::string v = "0";     // canonical json of the value the coroutine received
    bool done = false;
    int resumes = 0;
};

template <typename T>
cocls::async<void> consumer(cocls::future<T> &f, Rec &r) {
    try {
        if constexpr (std::is_void_v<T>) { co_await f; r.v = "0"; }
        else { T x = co_await f; r.v = item_json(x).dump(); }
        r.st = "val";
    } catch (const cocls::await_canceled_exception &) {
        r.st = "canceled";
    } catch (const TestExc &) {
        r.st = "exc";
    }
    r.resumes++;
    r.done = true;
}

template <typename T, template <typename> class Q, template <typename> class CQ, typename Lock>
struct World {
    using queue_t = Probe<T, Q, CQ, Lock>;
    static constexpr bool is_void = std::is_void_v<T>;
    static constexpr bool is_obj = std::is_same_v<T, Item>;
    std::unique_ptr<queue_t> q{new queue_t()};
    std::deque<std::unique_ptr<cocls::future<T>>> futs;
    std::deque<std::unique_ptr<cocls::future<T>>> stray;   // futures of pops the specification says are refused
    std::deque<Rec> recs;
    std::map<const void *, int> id_of;   // future address -> pop id
    std::vector<std::string> forms;
    std::string ret = "none";
    std::string note;                    // replayer-side finding (reported in the projection)
    int npush = 0, npop = 0, nthrow = 0, nref = 0, shift = 0;
    bool coro = false;

    J fut_state(std::size_t i) {
        J m = J::map();
        cocls::future<T> &f = *futs[i];
        std::string st = "pending";
        J v = J(0);
        if (f.ready()) {
            try {
                if constexpr (is_void) { f.value(); }
                else v = item_json(f.value());
                st = "val";
            } catch (const cocls::await_canceled_exception &) { st = "canceled"; }
            catch (const TestExc &) { st = "exc"; }
            catch (...) { st = "other"; }
        }
        if (coro) {
            // what the awaiting coroutine observed must agree with the future itself
            Rec &r = recs[i];
            if (r.st != st || r.v != v.dump() || r.resumes > 1 || (st != "pending") != r.done) {
                st = "mismatch:" + st + "/" + r.st + "/" + r.v + "/resumes=" + std::to_string(r.resumes);
            }
        }
        m.set("st", st);
        m.set("v", v);
        return m;
    }

    J project() {
        J m = J::map();
        m.set("destroyed", q == nullptr);
        J fl = J::list();
        for (std::size_t i = 0; i < futs.size(); i++) fl.push(fut_state(i));
        m.set("fut", fl);
        J items = J::list();
        J waiters = J::list();
        if (q) {
            if constexpr (is_void) {
                for (std::size_t i = 0; i < q->_queue.size(); i++) items.push(0);
            } else {
                std::string first;
                each(q->_queue, [&](const T &x) { if (items.size() == 0) first = item_json(x).dump(); items.push(item_json(x)); });
                // the container's own observers must agree with its content
                if (q->_queue.size() != items.size() || q->_queue.empty() != (items.size() == 0)) m.set("container_mismatch", true);
                if (items.size() && item_json(q->_queue.front()).dump() != first) m.set("front_mismatch", true);
            }
            // the parked promises: each is identified by the future it points to
            each(q->_awaiters, [&](const cocls::promise<T> &p) {
                auto it = id_of.find(p.get_id());
                waiters.push(it == id_of.end() ? -1 : it->second);
            });
            if (q->_awaiters.size() != waiters.size() || q->_awaiters.empty() != (waiters.size() == 0)) m.set("container_mismatch", true);
            // public observers must agree with the probe
            if (q->size() != items.size() || q->empty() != (items.size() == 0)) m.set("size_mismatch", true);
        }
        m.set("items", items);
        m.set("waiters", waiters);
        m.set("npush", npush);
        m.set("npop", npop);
        J r = J::map();
        r.set("t1", ret);
        m.set("ret", r);
        if (!note.empty()) m.set("note", note);
        return m;
    }

    // one push() call carrying identity n through argument form `form`; arm: the first Item constructor the call
    // runs throws.  Returns push()'s result.
    bool push_form(const std::string &form, int n, bool arm) {
        if constexpr (is_void) {
            return q->push();
        } else if constexpr (is_obj) {
            if (form == "one") { Item::armed = arm; return q->push(n); }
            if (form == "two") { Item::armed = arm; return q->push(n, n + 50); }
            if (form == "zero") { Item::dflt = n; Item::armed = arm; return q->push(); }
            if (form == "copy") {
                Item x(n, n + 50);
                Item::armed = arm;
                struct Chk { Item &x; int n; std::string &note; ~Chk() { if (!x.is(n, n + 50, '2')) note = "push(lvalue) modified its argument"; } } chk{x, n, note};
                return q->push(x);
            }
            if (form == "cref") { const Item x(n); Item::armed = arm; return q->push(x); }
            if (form == "move") { Item x(n); Item::armed = arm; return q->push(std::move(x)); }
            throw std::logic_error("unknown push form " + form);
        } else {
            if (form == "one") return q->push(int(n));
            if (form == "copy") { int x = n; bool r = q->push(x); if (x != n) note = "push(lvalue) modified its argument"; return r; }
            if (form == "cref") { const int x = n; return q->push(x); }
            if (form == "move") { int x = n; return q->push(std::move(x)); }
            throw std::logic_error("push form not available for int: " + form);
        }
    }
    const std::string &form_of(int n) const { return forms[(std::size_t) (n + shift) % forms.size()]; }

    void run(const Scenario &sc, Reporter &rep) {
        coro = sc.hdr.at("mode").as_str("poll") == "coro";
        shift = (int) sc.hdr.at("shift").as_int(0);
        for (auto &f : sc.hdr.at("forms").l) forms.push_back(f.s);
        if (forms.empty()) forms.push_back(is_void || is_obj ? "zero" : "one");
        if (is_void) forms.assign(1, "zero");
        Item::armed = false;
        for (std::size_t k = 0; k < sc.steps.size(); k++) {
            const Step &st = sc.steps[k];
            if (st.name == "PushCS") {
                npush++;
                try {
                    bool r = push_form(form_of(npush), npush, false);
                    ret = r ? "true" : "false";
                } catch (const std::runtime_error &) { ret = "refused"; }
            } else if (st.name == "PushRefused") {
                // the specification says the item slot is occupied: the call must fail and change nothing
                nref++;
                try {
                    (void) push_form(form_of(nref), 800 + nref, false);
                    ret = "accepted";
                } catch (const std::runtime_error &) { ret = "refused"; }
            } else if (st.name == "PushThrow") {
                if constexpr (is_obj) {
                    // the failing construction rotates over the argument forms as well (the constructor from the
                    // arguments, the default constructor, the copy / move constructor of a ready-made item)
                    nthrow++;
                    try {
                        (void) push_form(form_of(nthrow), 900 + nthrow, true);
                        ret = "nothrow";
                    } catch (const CtorThrow &) { ret = "threw"; }
                    catch (const std::runtime_error &) { ret = "refused"; }
                    Item::armed = false;
                } else { rep.error(k, "PushThrow needs the throwing item type"); break; }
            } else if (st.name == "PopCS") {
                npop++;
                try {
                    futs.emplace_back(new cocls::future<T>(q->pop()));
                } catch (const std::runtime_error &) {
                    rep.diverge(k, "pop() failed with runtime_error where the specification lets it proceed");
                    break;
                }
                id_of[futs.back().get()] = npop;
                recs.emplace_back();
                if (coro) consumer<T>(*futs.back(), recs.back()).detach();
            } else if (st.name == "PopRefused") {
                // the specification says the waiter slot is occupied: the call must fail, no future comes into being
                // and the parked pop is untouched.  (A future that does come into being is kept until the queue is gone.)
                nref++;
                try {
                    stray.emplace_back(new cocls::future<T>(q->pop()));
                    ret = "accepted";
                } catch (const std::runtime_error &) { ret = "refused"; }
            } else if (st.name == "UnblockCS") {
                bool r = q->unblock_pop(std::make_exception_ptr(TestExc()));
                ret = r ? "true" : "false";
            } else if (st.name == "Destroy") {
                q.reset();
            } else {
                rep.error(k, "unknown action");
                break;
            }
            if (!rep.check(k, project())) break;
        }
        // tear down: the queue must go before the futures (parked promises point to them)
        q.reset();
        for (std::size_t i = 0; i < futs.size(); i++) {
            if (!futs[i]->ready()) { rep.diverge(sc.steps.size() - 1, "future still pending after queue destruction"); break; }
            if (coro && !recs[i].done) { rep.diverge(sc.steps.size() - 1, "consumer coroutine never resumed"); break; }
        }
        for (auto &f : stray) if (!f->ready()) (void) f.release();   // a pending future cannot be destroyed legally (the scenario has diverged)
    }
};

template <typename T, template <typename> class Q, template <typename> class CQ>
static void run_lock(const Scenario &sc, Reporter &rep) {
    if (sc.hdr.at("lock").as_str("mutex") == "none") { World<T, Q, CQ, prim::no_lock> w; w.run(sc, rep); }
    else { World<T, Q, CQ, std::mutex> w; w.run(sc, rep); }
}

template <typename T>
static void run_kind(const Scenario &sc, Reporter &rep) {
    bool si = sc.hdr.at("si").as_bool(false), sw = sc.hdr.at("sw").as_bool(false);
    if constexpr (std::is_void_v<T>) {
        // single_item_queue<void> does not exist (std::optional<void>)
        if (si) { rep.error(0, "queue<void> has no single-slot item container"); return; }
        if (sw) run_lock<T, prim::std_queue, prim::single_item_queue>(sc, rep);
        else run_lock<T, prim::std_queue, prim::std_queue>(sc, rep);
    } else {
        if (si && sw) run_lock<T, prim::single_item_queue, prim::single_item_queue>(sc, rep);
        else if (si) run_lock<T, prim::single_item_queue, prim::std_queue>(sc, rep);
        else if (sw) run_lock<T, prim::std_queue, prim::single_item_queue>(sc, rep);
        else run_lock<T, prim::std_queue, prim::std_queue>(sc, rep);
    }
}

int main() {
    return replay_main(std::cin, [](const Scenario &sc, Reporter &rep) {
        if (sc.hdr.at("void").as_bool()) run_kind<void>(sc, rep);
        else if (sc.hdr.at("item").as_bool(false)) run_kind<Item>(sc, rep);
        else run_kind<int>(sc, rep);
    });
}
