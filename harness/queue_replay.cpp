// queue_replay.cpp -- replays behaviours of spec/Queue/Queue.tla (single client thread, the
// resolution step merged into its critical section by the path writer) on the real
// cocls::queue<int> / cocls::queue<void>, comparing the projection of the real object with the
// specification's state after every step.
//
// header: {"void":bool, "mode":"poll"|"coro"}
// projection: {"destroyed","fut":[{"st","v"}...],"items":[...],"npop","npush","ret":{"t1":..},"waiters":[ids]}
#include <cocls/queue.h>
#include <cocls/async.h>
#include <cocls/future.h>
#include "replay_common.h"

#include <deque>
#include <optional>

using namespace rp;

struct TestExc : std::exception {};

template <typename T>
struct Probe : cocls::queue<T> {
    using cocls::queue<T>::_queue;
    using cocls::queue<T>::_awaiters;
};

template <typename T>
struct Rec {
    std::string st = "pending";
    int v = 0;
    bool done = false;
    int resumes = 0;
};

template <typename T>
cocls::async<void> consumer(cocls::future<T> &f, Rec<T> &r) {
    try {
        if constexpr (std::is_void_v<T>) { co_await f; r.v = 0; }
        else r.v = co_await f;
        r.st = "val";
    } catch (const cocls::await_canceled_exception &) {
        r.st = "canceled";
    } catch (const TestExc &) {
        r.st = "exc";
    }
    r.resumes++;
    r.done = true;
}

// an item type whose constructor can throw: a failing push must change nothing (in particular it must not lose a
// waiting pop)
struct ItemThrow {};
struct Item {
    int v;
    bool copy_throws = false;
    Item(int x) : v(x) { if (x < 0) throw ItemThrow(); }
    Item(const Item &o) : v(o.v) { if (o.copy_throws) throw ItemThrow(); }
    Item(Item &&o) noexcept : v(o.v) {}
    Item &operator=(const Item &) = default;
    Item &operator=(Item &&) = default;
    operator int() const { return v; }
};

template <typename T>
struct World {
    std::unique_ptr<Probe<T>> q{new Probe<T>()};
    std::deque<std::unique_ptr<cocls::future<T>>> futs;
    std::deque<Rec<T>> recs;
    std::map<const void *, int> id_of;   // future address -> pop id
    std::string ret = "none";
    int npush = 0, npop = 0, nthrow = 0;
    bool coro = false;

    J fut_state(std::size_t i) {
        J m = J::map();
        cocls::future<T> &f = *futs[i];
        std::string st = "pending";
        int v = 0;
        if (f.ready()) {
            try {
                if constexpr (std::is_void_v<T>) { f.value(); v = 0; }
                else v = (int) f.value();
                st = "val";
            } catch (const cocls::await_canceled_exception &) { st = "canceled"; }
            catch (const TestExc &) { st = "exc"; }
            catch (...) { st = "other"; }
        }
        if (coro) {
            // what the awaiting coroutine observed must agree with the future itself
            Rec<T> &r = recs[i];
            if (r.st != st || r.v != v || r.resumes > 1 || (st != "pending") != r.done) {
                st = "mismatch:" + st + "/" + r.st + "/resumes=" + std::to_string(r.resumes);
            }
        }
        m.set("st", st);
        m.set("v", v);
        return m;
    }

    J project() {
        J m = J::map();
        m.set("destroyed", q == nullptr);
        J fl = J::list();
        for (std::size_t i = 0; i < futs.size(); i++) fl.push(fut_state(i));
        m.set("fut", fl);
        J items = J::list();
        J waiters = J::list();
        if (q) {
            if constexpr (std::is_void_v<T>) {
                for (std::size_t i = 0; i < q->_queue.size(); i++) items.push(0);
            } else {
                auto copy = q->_queue;   // std::queue<int> copy
                while (!copy.empty()) { items.push((int) copy.front()); copy.pop(); }
            }
            // the parked promises: identify each by the future it points to
            std::size_t n = q->_awaiters.size();
            for (std::size_t i = 0; i < n; i++) {
                cocls::promise<T> p = std::move(q->_awaiters.front());
                q->_awaiters.pop();
                auto it = id_of.find(p.get_id());
                waiters.push(it == id_of.end() ? -1 : it->second);
                q->_awaiters.push(std::move(p));
            }
            // public observers must agree with the probe
            if (q->size() != items.size() || q->empty() != (items.size() == 0)) m.set("size_mismatch", true);
        }
        m.set("items", items);
        m.set("waiters", waiters);
        m.set("npush", npush);
        m.set("npop", npop);
        J r = J::map();
        r.set("t1", ret);
        m.set("ret", r);
        return m;
    }

    void run(const Scenario &sc, Reporter &rep) {
        coro = sc.hdr.at("mode").as_str("poll") == "coro";
        for (std::size_t k = 0; k < sc.steps.size(); k++) {
            const Step &st = sc.steps[k];
            if (st.name == "PushCS") {
                npush++;
                bool r;
                if constexpr (std::is_void_v<T>) r = q->push();
                else r = q->push(npush);
                ret = r ? "true" : "false";
            } else if (st.name == "PushThrow") {
                if constexpr (std::is_same_v<T, Item>) {
                    // the failing construction alternates between the emplace form (the constructor from the argument throws)
                    // and a ready-made item passed as an lvalue (its copy constructor throws)
                    try {
                        if (nthrow++ % 2 == 0) (void) q->push(-1);
                        else { Item it(77); it.copy_throws = true; (void) q->push(it); }
                        ret = "nothrow";
                    } catch (const ItemThrow &) { ret = "threw"; }
                } else { rep.error(k, "PushThrow needs the throwing item type"); break; }
            } else if (st.name == "PopCS") {
                npop++;
                futs.emplace_back(new cocls::future<T>(q->pop()));
                id_of[futs.back().get()] = npop;
                recs.emplace_back();
                if (coro) consumer<T>(*futs.back(), recs.back()).detach();
            } else if (st.name == "UnblockCS") {
                bool r = q->unblock_pop(std::make_exception_ptr(TestExc()));
                ret = r ? "true" : "false";
            } else if (st.name == "Destroy") {
                q.reset();
            } else {
                rep.error(k, "unknown action");
                break;
            }
            if (!rep.check(k, project())) break;
        }
        // tear down: the queue must go before the futures (parked promises point to them)
        q.reset();
        for (std::size_t i = 0; i < futs.size(); i++) {
            if (!futs[i]->ready()) { rep.diverge(sc.steps.size() - 1, "future still pending after queue destruction"); break; }
            if (coro && !recs[i].done) { rep.diverge(sc.steps.size() - 1, "consumer coroutine never resumed"); break; }
        }
    }
};

int main() {
    return replay_main(std::cin, [](const Scenario &sc, Reporter &rep) {
        if (sc.hdr.at("void").as_bool()) { World<void> w; w.run(sc, rep); }
        else if (sc.hdr.at("item").as_bool(false)) { World<Item> w; w.run(sc, rep); }
        else { World<int> w; w.run(sc, rep); }
    });
}
