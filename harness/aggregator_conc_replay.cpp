// aggregator_conc_replay.cpp -- replays behaviours of spec/Aggregator/AggregatorConc.tla (the aggregate with
// asynchronous sources at the grain of the critical sections of its internal queue) on the real
// cocls::generator_aggregator with REAL threads under the controlled scheduler:
//     thread 0      the consumer (blocking accesses, coroutine / future accesses, destruction with the
//                   controller's draining destructor),
//     thread s>=1   the thread on which the operation awaited by source s completes: the source's body
//                   continues there and its GenCallback pushes into the internal queue; when the push hands the
//                   item to the parked aggregate, the aggregate's body (and the consumer's coroutine) continue
//                   on that thread too.
// The internal queue's std::mutex is virtual (cocls_verif/pthread_shim.h, vsched lock grain): the scheduling
// points of a thread are "before pthread_mutex_lock", "right after pthread_mutex_unlock", "in an atomic wait"
// (generator's _block.wait, the sync awaiter of pop().wait()) and the harness's own mark("cmd") between
// commands.  ONE specification action = ONE controller step of ONE thread:
//     Access(c) Destroy Resolve(s,kind)   the thread is at its mark: the controller stores the command, the step
//                                         runs the thread up to its next scheduling point
//     XxxCS                               the thread is before the lock: the step is the whole critical section
//     PopAfter PushResolve PushDone DrainAfter   the thread is right after the unlock: the step is the code that
//                                         follows the critical section; the guarded state (queue content, waiter
//                                         slot) is compared before/after -- it must not change outside the lock
//     Wake DrainWake                      the thread is in a wait whose condition holds
// After EVERY step the projection of the real objects is compared with the specification's state, including
// every thread's pending operation ("pend": pre:mark | pre:lock | post:unlock | wait:ready | wait:blocked | done):
// a removed lock (no pre:lock where the specification has one), an added critical section or a guarded access
// after the unlock diverge.
//
// header: {"ns":N, "bstyle":"sync"|"iter", "nstyle":"co"|"fut"}
//   bstyle: blocking access as  if (gen.next()) gen.value();  or  it = gen.begin() / ++it / it != end / *it
//   nstyle: non-blocking access as  co_await gen.next()  in a small coroutine, or  gen()  future kept and polled
// Values: source s yields 100*s + j.  Failures: a step of the "throw" family lets an exception of the step's kind out of
// the source (aggregator_exc.h); what the consumer gets is attributed by the identity of the exception object and
// reported with its observed dynamic type ("k").
// projection (keys sorted): {"alive","ast","cscript","obs":[{"k","r","s","v"}],"pend":{"c","s1",..},"queue","sloc","spar","sscr","sseq","sst","waiter"}
#include <cocls/generator.h>
#include <cocls/generator_aggregator.h>
#include <cocls/async.h>
#include <cocls/future.h>
#include <cocls_verif/pthread_shim.h>
#include "replay_common.h"
#include "aggregator_exc.h"

#include <optional>

using namespace rp;
using cocls_verif::vsched;
using cocls_verif::op_t;

// ---------------------------------------------------------------------------------------------
// allocation balance: every block allocated during a scenario must be freed when its world is gone
// ---------------------------------------------------------------------------------------------
static std::atomic<long> g_live_blocks{0};
void *operator new(std::size_t sz) {
    void *p = malloc(sz ? sz : 1);
    if (!p) throw std::bad_alloc();
    g_live_blocks.fetch_add(1, std::memory_order_relaxed);
    return p;
}
void *operator new[](std::size_t sz) { return operator new(sz); }
void operator delete(void *p) noexcept { if (p) { g_live_blocks.fetch_sub(1, std::memory_order_relaxed); free(p); } }
void operator delete[](void *p) noexcept { operator delete(p); }
void operator delete(void *p, std::size_t) noexcept { operator delete(p); }
void operator delete[](void *p, std::size_t) noexcept { operator delete(p); }

using agx::SrcExc;

// ---------------------------------------------------------------------------------------------
// access to private / protected state
// ---------------------------------------------------------------------------------------------
template <typename Tag> struct Stolen { static inline typename Tag::type value{}; };
template <typename Tag, typename Tag::type V> struct Steal { static inline const bool done = (Stolen<Tag>::value = V, true); };

using G = cocls::generator<int>;
struct T_caller { using type = cocls::awaiter *G::promise_type::*; };
template struct Steal<T_caller, &G::promise_type::_caller>;

using Cb = cocls::_details::GenCallback<int, void>;
using Q = cocls::_details::GenAggrQueue<int, void>;
struct QProbe : Q {
    static auto items_mp() { return &QProbe::_queue; }
    static auto waiters_mp() { return &QProbe::_awaiters; }
};
// GenCallback::_q is a protected *reference* member: read through a layout-identical derived type
struct CbProbe : Cb {
    static Q &queue_of(Cb *cb) { return static_cast<CbProbe *>(cb)->_q; }
};

// ---------------------------------------------------------------------------------------------
struct Obs { std::string r = "pending"; int s = 0; int v = 0; std::string k = "none"; };
enum Kind { K_NONE, K_B, K_N, K_DESTROY, K_RESOLVE, K_QUIT };
struct Cmd { Kind kind = K_NONE; int idx = 0; };

struct Counted {
    int *ctor, *dtor;
    Counted(int *c, int *d) : ctor(c), dtor(d) { ++*ctor; }
    Counted(const Counted &) = delete;
    ~Counted() { ++*dtor; }
};
struct Param {
    int *live;
    explicit Param(int *l) : live(l) { ++*live; }
    Param(const Param &o) : live(o.live) { ++*live; }
    ~Param() { --*live; }
};

// lets a coroutine learn its own handle without suspending
struct SelfHandle {
    std::coroutine_handle<> h;
    bool await_ready() const noexcept { return false; }
    bool await_suspend(std::coroutine_handle<> me) noexcept { h = me; return false; }
    std::coroutine_handle<> await_resume() const noexcept { return h; }
};

struct World;

struct SrcState {
    std::vector<std::string> done;
    std::string next_kind;          // what the source does when its awaited operation completes (from the action label)
    std::string st = "init";
    int seq = 0;
    int ctor = 0, dtor = 0, par = 0;
    int nops = 0;
    bool has_op = false;
    cocls::promise<int> prom;       // of the operation the source awaits
    void *cb = nullptr;             // its GenCallback, learned on first activation
    std::exception_ptr ep;          // the exception that left its body
};

// a scripted source generator: EVERY step first awaits an operation, which is completed on the source's own thread
static G source_fn(World *w, int s, Param);

struct World {
    using promise_type = G::promise_type;

    std::string bstyle = "sync", nstyle = "co";
    int ns = 0;
    std::map<int, SrcState> src;           // 1..ns
    std::string error;

    std::vector<std::string> cdone;
    std::vector<Obs> obs;
    int cur = 0;
    std::map<int, std::unique_ptr<cocls::future<int>>> futs;
    std::optional<G> gen;
    void *frame = nullptr;
    bool started = false, destroying = false, destroyed = false;
    std::string it = "none";
    std::optional<G::iterator> iter;
    int helpers_started = 0, helpers_finished = 0;
    bool leaked = false;

    vsched sched;
    std::vector<Cmd> cmd;                   // per thread

    World() { obs.reserve(64); }

    promise_type &P() { return std::coroutine_handle<promise_type>::from_address(frame).promise(); }
    bool hdone() { return std::coroutine_handle<promise_type>::from_address(frame).done(); }

    // ---- what the consumer sees -------------------------------------------------------------
    static void set_val(Obs &o, int v) { o.r = "val"; o.s = v / 100; o.v = v % 100; }
    static void nomore(Obs &o) { o.r = "end"; o.s = 0; o.v = 0; }   // no_more_values_exception: the sequence is over
    // To be called in a catch handler: what an access of the aggregate threw at the consumer.  The exception object that
    // left a source is that source's failure, reported with its observed type; anything else is the library's own
    // signalling (`nomore_ends`: a no_more_values_exception means "the sequence is over" in the access style at hand).
    void caught(Obs &o, bool nomore_ends = false) {
        std::exception_ptr ep = std::current_exception();
        if (int s = agx::source_of(src, ep)) { o.r = "exc"; o.s = s; o.v = 0; o.k = agx::kind_of(ep); return; }
        try { throw; }
        catch (const SrcExc &e) { o.r = "exc"; o.s = e.s; o.v = 0; o.k = "user"; }     // (a copy of it)
        catch (const cocls::no_more_values_exception &) { if (nomore_ends) nomore(o); else o.r = "other_exception"; }
        catch (const cocls::value_not_ready_exception &) { o.r = "notready"; }
        catch (...) { o.r = "other_exception"; }
    }
    void observe_next(Obs &o, bool b) {
        if (b) {
            try { set_val(o, gen->value()); }
            catch (...) { caught(o); }
        } else {
            o.r = "end"; o.s = 0; o.v = 0;
            try { (void) gen->value(); o.r = "end_with_value"; }
            catch (const cocls::value_not_ready_exception &) { if (agx::source_of(src, std::current_exception())) o.r = "end_with_exception"; }
            catch (...) { o.r = "end_with_exception"; }
        }
    }
    void observe_future(Obs &o, cocls::future<int> &f, int i) {
        if (!f.ready()) return;
        bool hv = f.has_value();
        if (!hv) { o.r = "end"; o.s = 0; o.v = 0; return; }
        try { set_val(o, (i & 1) ? *f : f.value()); }
        catch (...) { caught(o); }
    }

    void sync_access(int i) {
        Obs &o = obs[i - 1];
        try {
            bool b = gen->next();           // next_sync: resumes the aggregate, then _block.wait
            observe_next(o, b);
        } catch (...) { caught(o, true); }
    }
    void iter_access(int i) {
        Obs &o = obs[i - 1];
        try {
            if (!iter || it != "true") { iter.reset(); iter.emplace(gen->begin()); }
            else ++*iter;
            bool b = *iter != gen->end();
            it = b ? "true" : "false";
            if (b) {
                try { set_val(o, **iter); }
                catch (...) { caught(o); }
            } else observe_next(o, false);
        } catch (...) { caught(o, true); }
    }
    void future_access(int i) {
        Obs &o = obs[i - 1];
        try { futs[i].reset(new cocls::future<int>((*gen)())); }
        catch (...) { caught(o, true); futs.erase(i); }
    }
    void poll_futures() {
        for (auto &kv : futs) {
            if (!kv.second) continue;
            Obs &o = obs[kv.first - 1];
            if (o.r == "pending") observe_future(o, *kv.second, kv.first);
        }
    }
    void destroy_now() {
        destroying = true;
        iter.reset();
        gen.reset();          // ~generator -> frame destroyed -> controller drains (blocks), queue, callbacks, sources
        destroyed = true;
    }
    void resolve(int s) {
        SrcState &me = src[s];
        if (!me.has_op) { error = "source " + std::to_string(s) + " awaits no operation"; return; }
        me.has_op = false;
        cocls::promise<int> p = std::move(me.prom);
        p(me.nops);           // discarded suspend point: the source continues in here, on this thread
    }
    void exec(int t, const Cmd &c);

    // ---- threads ----------------------------------------------------------------------------
    static std::string tname(int t) { return t == 0 ? "c" : "s" + std::to_string(t); }
    std::string pend_of(int t) {
        if (sched.done(t)) return "done";
        const auto &e = sched.pending(t);
        switch (e.op) {
            case op_t::mark: return "pre:mark";
            case op_t::lock: return "pre:lock";
            case op_t::unlock: return "post:unlock";
            case op_t::wait: return sched.enabled(t) ? "wait:ready" : "wait:blocked";
            default: return std::string("?") + cocls_verif::op_name(e.op) + "@" + e.func;
        }
    }

    // ---- projection -------------------------------------------------------------------------
    int source_of_cb(Cb *cb) {
        const void *a = static_cast<cocls::awaiter *>(cb);
        for (auto &kv : src) if (kv.second.cb == a) return kv.first;
        return -1;
    }
    Q *find_queue() {
        // the queue is a local of the aggregate's body: it exists from the first activation to the end of the body /
        // the destruction of the frame
        if (!started || destroyed) return nullptr;
        if (!destroying && hdone()) return nullptr;
        for (auto &kv : src) if (kv.second.cb) return &CbProbe::queue_of(static_cast<Cb *>(static_cast<cocls::awaiter *>(kv.second.cb)));
        return nullptr;
    }
    // the state guarded by the internal queue's lock
    J guarded() {
        J m = J::map();
        J ql = J::list();
        bool waiter = false;
        if (Q *q = find_queue()) {
            auto copy = (*q).*QProbe::items_mp();
            while (!copy.empty()) { ql.push(source_of_cb(copy.front())); copy.pop(); }
            waiter = !((*q).*QProbe::waiters_mp()).empty();
        }
        m.set("queue", ql);
        m.set("waiter", waiter);
        return m;
    }
    J project() {
        J m = J::map();
        m.set("alive", !destroyed);
        std::string ast;
        if (destroyed) ast = "gone";
        else if (destroying) ast = "yield";         // being destroyed: the frame was parked at a co_yield, the drain runs
        else if (!started) ast = "init";
        else if (hdone()) ast = "final";
        else ast = (P().*Stolen<T_caller>::value) != nullptr ? "pop" : "yield";
        m.set("ast", ast);
        m.set("cscript", J::list(cdone.begin(), cdone.end()));
        J ol = J::list();
        for (auto &o : obs) { J e = J::map(); e.set("k", o.k); e.set("r", o.r); e.set("s", o.s); e.set("v", o.v); ol.push(e); }
        m.set("obs", ol);
        J ql = J::list();
        std::string waiter = "none";
        if (Q *q = find_queue()) {
            auto copy = (*q).*QProbe::items_mp();
            while (!copy.empty()) { ql.push(source_of_cb(copy.front())); copy.pop(); }
            if (!((*q).*QProbe::waiters_mp()).empty()) waiter = destroying ? "drain" : "agg";
        }
        m.set("queue", ql);
        m.set("waiter", waiter);
        J sloc = J::map(), spar = J::map(), sscr = J::map(), sseq = J::map(), sst = J::map();
        for (auto &kv : src) {
            std::string k = std::to_string(kv.first);
            SrcState &s = kv.second;
            J l = J::map(); l.set("ctor", s.ctor); l.set("dtor", s.dtor);
            sloc.set(k, l);
            spar.set(k, s.par);
            sscr.set(k, J::list(s.done.begin(), s.done.end()));
            sseq.set(k, s.seq);
            sst.set(k, s.par == 0 ? std::string("gone") : s.st);
        }
        m.set("sloc", sloc); m.set("spar", spar);
        m.set("sscr", sscr); m.set("sseq", sseq); m.set("sst", sst);
        J pend = J::map();
        for (int t = 0; t <= ns; t++) pend.set(tname(t), pend_of(t));
        m.set("pend", pend);
        if (!error.empty()) m.set("error", error);
        return m;
    }

    // ---- driver -----------------------------------------------------------------------------
    void thread_body(int t) {
        (void) cocls::coro_queue::queue_impl::instance._queue.size();
        for (;;) {
            vsched::mark("cmd");
            Cmd c = cmd[t];
            cmd[t] = Cmd{};
            if (c.kind == K_QUIT) break;
            exec(t, c);
        }
    }
    bool at_mark(int t) { return sched.parked(t) && sched.pending(t).op == op_t::mark; }

    // brings a scenario that did not end with the aggregate destroyed to an orderly end (legal continuations only:
    // pending steps of threads, completion of awaited operations with "return", destruction when no access is outstanding)
    bool wind_up() {
        for (int fuel = 0; fuel < 10000; fuel++) {
            bool progressed = false;
            for (int t = 0; t <= ns; t++) {
                if (!sched.done(t) && !at_mark(t) && sched.enabled(t)) { sched.step(t); progressed = true; }
            }
            if (progressed) continue;
            poll_futures();
            bool outstanding = !obs.empty() && obs.back().r == "pending";
            if (!destroyed && !destroying && !outstanding && at_mark(0)) { cmd[0] = Cmd{K_DESTROY, 0}; sched.step(0); continue; }
            for (int s = 1; s <= ns && !progressed && !destroyed; s++) {
                if (src[s].has_op && at_mark(s)) { src[s].next_kind = "return"; cmd[s] = Cmd{K_RESOLVE, s}; sched.step(s); progressed = true; }
            }
            if (!progressed) break;
        }
        return destroyed;
    }

    void run(const Scenario &sc, Reporter &rep) {
        bstyle = sc.hdr.at("bstyle").as_str("sync");
        nstyle = sc.hdr.at("nstyle").as_str("co");
        ns = (int) sc.hdr.at("ns").as_int();
        for (int s = 1; s <= ns; s++) src[s];
        {
            std::vector<G> list;
            for (int s = 1; s <= ns; s++) list.push_back(source_fn(this, s, Param(&src[s].par)));
            gen.emplace(cocls::generator_aggregator(std::move(list)));
        }
        frame = const_cast<void *>(gen->get_id());
        cmd.resize(ns + 1);
        sched.log_enabled = false;
        sched.lock_grain = true;
        sched.install();
        for (int t = 0; t <= ns; t++) {
            int id = sched.spawn([this, t] { thread_body(t); });
            if (id != t) { rep.error(0, "thread numbering"); leaked = true; sched.uninstall(); return; }
        }
        bool bad = false;
        auto fail = [&](std::size_t k, const std::string &why) {
            rep.diverge(k, why + " got=" + project().dump());
            bad = true;
        };
        for (std::size_t k = 0; k < sc.steps.size() && !bad; k++) {
            const Step &st = sc.steps[k];
            const std::string &a = st.name;
            int t = 0;
            op_t want = op_t::mark;
            bool after_unlock = false;
            if (a == "Access" || a == "Destroy") { t = 0; want = op_t::mark; }
            else if (a == "Resolve") { t = st.iarg(0); want = op_t::mark; }
            else if (a == "Wake" || a == "DrainWake") { t = 0; want = op_t::wait; }
            else if (a == "DrainCS") { t = 0; want = op_t::lock; }
            else if (a == "DrainAfter") { t = 0; want = op_t::unlock; after_unlock = true; }
            else if (a == "PopCS" || a == "PushCS") { t = st.iarg(0); want = op_t::lock; }
            else if (a == "PopAfter" || a == "PushResolve" || a == "PushDone") { t = st.iarg(0); want = op_t::unlock; after_unlock = true; }
            else { rep.error(k, "unknown action"); bad = true; break; }
            if (t < 0 || t > ns) { rep.error(k, "unknown thread"); bad = true; break; }
            if (sched.done(t) || sched.pending(t).op != want) {
                fail(k, "thread " + tname(t) + " is not where the specification has it before this step (" + pend_of(t) + ")");
                break;
            }
            if (!sched.enabled(t)) { fail(k, "thread " + tname(t) + " is blocked in the implementation (" + pend_of(t) + ")"); break; }
            if (a == "Access") {
                Cmd c;
                c.kind = st.sarg(0) == "b" ? K_B : K_N;
                c.idx = ++cur;
                cdone.push_back(st.sarg(0));
                obs.emplace_back();
                started = true;
                cmd[0] = c;
            } else if (a == "Destroy") {
                cmd[0] = Cmd{K_DESTROY, 0};
            } else if (a == "Resolve") {
                src[t].next_kind = st.sarg(1);
                cmd[t] = Cmd{K_RESOLVE, t};
            }
            std::string before;
            if (after_unlock) before = guarded().dump();
            sched.step(t);
            if (after_unlock) {
                std::string after = guarded().dump();
                if (before != after) {
                    fail(k, "state guarded by the internal queue's lock changed in the step after the unlock (outside the critical section): before=" + before + " after=" + after);
                    break;
                }
            }
            poll_futures();
            if (!rep.check(k, project())) bad = true;
        }
        if (bad) {
            // leave everything as it is: stop the threads that can be stopped
            for (int t = 0; t <= ns; t++) cmd[t] = Cmd{K_QUIT, 0};
            (void) sched.drain();
            sched.uninstall();
            leaked = true;
            sched.join_all();       // a thread that is still blocked stays parked for good (detached, its world is leaked)
            return;
        }
        bool ok = wind_up();
        if (ok) for (int t = 0; t <= ns; t++) cmd[t] = Cmd{K_QUIT, 0};
        bool drained = ok && sched.drain();
        sched.uninstall();
        if (!drained) {
            rep.diverge(sc.steps.empty() ? 0 : sc.steps.size() - 1, "threads blocked at the end of the scenario got=" + project().dump());
            leaked = true;
            sched.join_all();
            return;
        }
        sched.join_all();
        futs.clear();
        if (helpers_started != helpers_finished) rep.diverge(sc.steps.size() - 1, "a co_awaiting consumer was never resumed");
        else for (auto &kv : src) {
            if (kv.second.par != 0 || kv.second.ctor != kv.second.dtor) { rep.diverge(sc.steps.size() - 1, "source locals/parameters not destroyed exactly once"); break; }
        }
    }
};

static G source_fn(World *w, int s, Param) {
    SrcState &me = w->src[s];
    Counted guard(&me.ctor, &me.dtor);
    me.st = "run";
    {
        // who charged me: the caller recorded by next_async is this source's GenCallback
        std::coroutine_handle<> h = co_await SelfHandle{};
        auto &p = std::coroutine_handle<G::promise_type>::from_address(h.address()).promise();
        me.cb = p.*Stolen<T_caller>::value;
    }
    for (;;) {
        {
            cocls::future<int> f;
            me.prom = f.get_promise();
            me.has_op = true;
            int k = ++me.nops;
            me.st = "await";
            int r = co_await f;         // completed by World::resolve on this source's thread
            me.st = "run";
            if (r != k) w->error = "await returned a wrong value";
        }
        const std::string kind = me.next_kind;
        me.done.push_back(kind);
        if (kind == "yield") {
            int v = 100 * s + (++me.seq);
            me.st = "yield";
            if (me.seq & 1) co_yield v;
            else co_yield int(v);
            me.st = "run";
        } else if (agx::is_throw(kind)) {
            me.st = "exc";
            try { agx::raise(kind, s); }
            catch (...) { me.ep = std::current_exception(); throw; }
            w->error = "unknown source step " + kind;
            co_return;
        } else if (kind == "return") {
            me.st = "done";
            co_return;
        } else {
            w->error = "unknown source step " + kind;
            co_return;
        }
    }
}

static cocls::async<void> co_access(World &w, int i) {
    try {
        bool b = co_await w.gen->next();
        w.observe_next(w.obs[i - 1], b);
    } catch (...) {
        w.caught(w.obs[i - 1], true);
    }
    w.helpers_finished++;
}

void World::exec(int t, const Cmd &c) {
    switch (c.kind) {
        case K_B:
            if (bstyle == "iter") iter_access(c.idx);
            else sync_access(c.idx);
            break;
        case K_N:
            if (nstyle == "fut") future_access(c.idx);
            else { helpers_started++; co_access(*this, c.idx).detach(); }
            break;
        case K_DESTROY: destroy_now(); break;
        case K_RESOLVE: resolve(t); break;
        default: break;
    }
}

int main() {
    (void) cocls::coro_queue::queue_impl::instance._queue.size();
    return replay_main(std::cin, [](const Scenario &sc, Reporter &rep) {
        long before = g_live_blocks.load();
        {
            auto w = std::make_unique<World>();
            w->run(sc, rep);
            if (w->leaked) { (void) w.release(); return; }
        }
        long after = g_live_blocks.load();
        if (!rep.failed() && after != before)
            rep.diverge(sc.steps.empty() ? 0 : sc.steps.size() - 1, "allocation imbalance: " + std::to_string(after - before) + " block(s) not freed");
    });
}
