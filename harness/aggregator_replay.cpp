// aggregator_replay.cpp -- replays behaviours of spec/Aggregator/Aggregator.tla on the real
// cocls::generator_aggregator over scripted source generators (generator<int> / generator<int,int>).
//
// A scenario is one maximal path of the specification's state graph: the source scripts, the
// consumer's accesses and the order in which awaited operations complete.  Internal actions
// (AggStart ... Drain, SrcStep, Push) are merged into the public call that contains them, so a step is
//     Access("b"|"n")      ExternalResolve(k)      Destroy
// The source scripts are read from the `sscr` history of the LAST step's expected projection; after
// EVERY step the projection of the real objects is compared with the specification's state.
//
// header: {"witharg":bool, "ns":N, "modes":["<impl>/<bstyle>/<nstyle>", ...]}  every scenario is executed
// once per listed mode.
//   impl   native    consumer is plain code (co_await accesses by a small coroutine per access)
//          native_raw as native, but a completed operation's continuation is taken out of the returned
//                    suspend_point and resumed by hand (no coroutine queue installed: the aggregate's body
//                    then continues nested inside GenCallback's push inside the source's co_yield)
//          coro      one consumer coroutine performs all accesses, completes operations itself (in
//                    coroutine context) when it is not suspended, and destroys the aggregate
//          thr_late / thr_early  consumer on its own thread under the controlled scheduler: blocking
//                    accesses, blocking future waits and the destructor's drain really block; operations are
//                    completed by another thread; late: the released consumer continues after the
//                    completing thread returned, early: right after the wake-up flag was stored (before
//                    notify_all and before the completing thread has unwound out of the frames involved)
//   bstyle sync: if (gen.next()) gen.value();   iter: it = gen.begin() / ++it / it != end / *it
//   nstyle fc: odd accesses gen() future, even co_await gen.next();   cf: the other way round
//
// Values: source s yields 100*s + j.  Access i passes 100+i.  Operation k completes with k.
// Failures: a step of the "throw" family lets an exception of the step's kind out of the source (aggregator_exc.h);
// an exception the consumer gets is attributed to a source by the identity of the exception object and reported with
// its observed dynamic type ("k").
//
// projection (keys sorted): {"alive","ast","cscript":[...],"obs":[{"k","r","s","v"}],"queue":[s...],
//   "sgot":{s:[{"j","v"}]},"sloc":{s:{"ctor","dtor"}},"spar":{s:n},"sscr":{s:[...]},"sseq":{s:n},"sst":{s:..},"waiter"}
// `_count` lives in the aggregate's coroutine frame and has no address reachable from outside; it is bound
// through behaviour (end / hang / drain) and through the queue content.
#include <cocls/generator.h>
#include <cocls/generator_aggregator.h>
#include <cocls/async.h>
#include <cocls/future.h>
#include <cocls_verif/vsched.h>
#include "replay_common.h"
#include "aggregator_exc.h"

#include <malloc.h>
#include <optional>
#include <unistd.h>

using namespace rp;
using cocls_verif::vsched;
using cocls_verif::op_t;

// ---------------------------------------------------------------------------------------------
// allocation balance: every block allocated during a scenario (coroutine frames, queue nodes, vectors,
// harness bookkeeping alike) must be freed when the scenario's world is gone
// ---------------------------------------------------------------------------------------------
static std::atomic<long> g_live_blocks{0};
void *operator new(std::size_t sz) {
    void *p = malloc(sz ? sz : 1);
    if (!p) throw std::bad_alloc();
    g_live_blocks.fetch_add(1, std::memory_order_relaxed);
    return p;
}
void *operator new[](std::size_t sz) { return operator new(sz); }
void operator delete(void *p) noexcept { if (p) { g_live_blocks.fetch_sub(1, std::memory_order_relaxed); free(p); } }
void operator delete[](void *p) noexcept { operator delete(p); }
void operator delete(void *p, std::size_t) noexcept { operator delete(p); }
void operator delete[](void *p, std::size_t) noexcept { operator delete(p); }

using agx::SrcExc;

// ---------------------------------------------------------------------------------------------
// access to private / protected state
// ---------------------------------------------------------------------------------------------
template <typename Tag> struct Stolen { static inline typename Tag::type value{}; };
template <typename Tag, typename Tag::type V> struct Steal { static inline const bool done = (Stolen<Tag>::value = V, true); };

using G0 = cocls::generator<int>;
using G1 = cocls::generator<int, int>;
template <typename G> struct T_caller { using type = cocls::awaiter *G::promise_type::*; };
template struct Steal<T_caller<G0>, &G0::promise_type::_caller>;
template struct Steal<T_caller<G1>, &G1::promise_type::_caller>;

template <typename G> struct AggTypes;
template <> struct AggTypes<G0> {
    using Cb = cocls::_details::GenCallback<int, void>;
    using Q = cocls::_details::GenAggrQueue<int, void>;
};
template <> struct AggTypes<G1> {
    using Cb = cocls::_details::GenCallback<int, int>;
    using Q = cocls::_details::GenAggrQueue<int, int>;
};
template <typename G> struct QProbe : AggTypes<G>::Q {
    static auto items_mp() { return &QProbe::_queue; }
    static auto waiters_mp() { return &QProbe::_awaiters; }
};
// GenCallback::_q is a protected *reference* member (no pointer to member exists for it): it is read through
// a layout-identical derived type
template <typename G> struct CbProbe : AggTypes<G>::Cb {
    static typename AggTypes<G>::Q &queue_of(typename AggTypes<G>::Cb *cb) { return static_cast<CbProbe *>(cb)->_q; }
};

// ---------------------------------------------------------------------------------------------
struct Obs { std::string r = "pending"; int s = 0; int v = 0; std::string k = "none"; };
struct Got { int j; int v; };
enum Kind { K_B, K_N, K_DESTROY, K_RESOLVE, K_QUIT };
struct Cmd { Kind kind = K_QUIT; int idx = 0; };

struct Counted {
    int *ctor, *dtor;
    Counted(int *c, int *d) : ctor(c), dtor(d) { ++*ctor; }
    Counted(const Counted &) = delete;
    ~Counted() { ++*dtor; }
};
struct Param {
    int *live;
    explicit Param(int *l) : live(l) { ++*live; }
    Param(const Param &o) : live(o.live) { ++*live; }
    ~Param() { --*live; }
};

// lets a coroutine learn its own handle without suspending
struct SelfHandle {
    std::coroutine_handle<> h;
    bool await_ready() const noexcept { return false; }
    bool await_suspend(std::coroutine_handle<> me) noexcept { h = me; return false; }
    std::coroutine_handle<> await_resume() const noexcept { return h; }
};

template <typename G> struct World;

struct SrcState {
    std::vector<std::string> script, done;
    std::string st = "init";
    int seq = 0;
    int ctor = 0, dtor = 0, par = 0;
    std::vector<Got> got;
    void *cb = nullptr;     // its GenCallback, learned on first activation
    std::exception_ptr ep;  // the exception that left its body
};

// ---------------------------------------------------------------------------------------------
// a scripted source generator
// ---------------------------------------------------------------------------------------------
template <typename G>
G source_fn(World<G> *w, int s, Param) {
    constexpr bool WithArg = !G::arg_is_void;
    SrcState &me = w->src[s];
    Counted guard(&me.ctor, &me.dtor);
    me.st = "run";
    {
        // who charged me: the caller recorded by next_async is this source's GenCallback
        std::coroutine_handle<> h = co_await SelfHandle{};
        auto &p = std::coroutine_handle<typename G::promise_type>::from_address(h.address()).promise();
        me.cb = p.*Stolen<T_caller<G>>::value;
    }
    for (;;) {
        std::size_t pos = me.done.size();
        if (pos >= me.script.size()) { w->error = "source script exhausted"; co_return; }
        const std::string kind = me.script[pos];
        me.done.push_back(kind);
        if (kind == "yield") {
            int v = 100 * s + (++me.seq);
            me.st = "yield";
            if constexpr (WithArg) {
                if (me.seq & 1) { int a = co_yield v; me.st = "run"; me.got.push_back({me.seq, a}); }
                else { int a = co_yield int(v); me.st = "run"; me.got.push_back({me.seq, a}); }
            } else {
                if (me.seq & 1) co_yield v;
                else co_yield int(v);
                me.st = "run";
            }
        } else if (kind == "ynull") {
            if constexpr (WithArg) { int a = co_yield nullptr; me.got.push_back({0, a}); }
            else co_yield nullptr;
        } else if (kind == "apend") {
            int k = ++w->nops;
            cocls::future<int> f;
            w->proms[k] = f.get_promise();
            me.st = "await";
            int r = co_await f;
            me.st = "run";
            if (r != k) w->error = "await returned a wrong value";
        } else if (agx::is_throw(kind)) {
            me.st = "exc";
            try { agx::raise(kind, s); }
            catch (...) { me.ep = std::current_exception(); throw; }
            w->error = "unknown source step " + kind;
            co_return;
        } else if (kind == "return") {
            me.st = "done";
            co_return;
        } else {
            w->error = "unknown source step " + kind;
            co_return;
        }
    }
}

template <typename G> struct Gate {
    World<G> *w;
    bool await_ready() const noexcept { return false; }
    void await_suspend(std::coroutine_handle<> h) noexcept { w->gate_h = h; }
    Cmd await_resume() const noexcept { return w->cmd; }
};
template <typename G> cocls::async<void> co_access(World<G> &w, int i);
template <typename G> cocls::async<void> consumer(World<G> &w);

// ---------------------------------------------------------------------------------------------
template <typename G>
struct World {
    static constexpr bool WithArg = !G::arg_is_void;
    using promise_type = typename G::promise_type;
    using Q = typename AggTypes<G>::Q;
    using Cb = typename AggTypes<G>::Cb;

    std::string impl, bstyle, nstyle;
    int ns = 0;
    std::map<int, SrcState> src;           // 1..ns
    int nops = 0;
    std::map<int, cocls::promise<int>> proms;
    std::string error;

    std::vector<std::string> cdone;
    std::vector<Obs> obs;
    std::vector<int> args;
    int cur = 0;
    std::map<int, std::unique_ptr<cocls::future<int>>> futs;
    std::optional<G> gen;
    void *frame = nullptr;
    bool started = false, destroying = false, destroyed = false;
    std::string it = "none";
    std::optional<typename G::iterator> iter;
    int helpers_started = 0, helpers_finished = 0;
    bool leaked = false;
    // coro
    std::coroutine_handle<> gate_h;
    Cmd cmd;
    bool consumer_finished = false;
    // threads
    vsched sched;
    int ct = -1;
    Cmd tcmd;

    World() { obs.reserve(64); args.resize(64); for (int i = 0; i < 64; i++) args[i] = 100 + i; }

    promise_type &P() { return std::coroutine_handle<promise_type>::from_address(frame).promise(); }
    bool hdone() { return std::coroutine_handle<promise_type>::from_address(frame).done(); }

    // ---- what the consumer sees -------------------------------------------------------------
    void set_val(Obs &o, int v) { o.r = "val"; o.s = v / 100; o.v = v % 100; }
    static void nomore(Obs &o) { o.r = "end"; o.s = 0; o.v = 0; }   // no_more_values_exception: the sequence is over
    // To be called in a catch handler: what an access of the aggregate threw at the consumer.  The exception object that
    // left a source is that source's failure, reported with its observed type; anything else is the library's own
    // signalling: `ends` tells which of the library's types mean "the sequence is over" in the access style at hand.
    enum { E_NOMORE = 1, E_CANCEL = 2 };
    void caught(Obs &o, unsigned ends = 0) {
        std::exception_ptr ep = std::current_exception();
        if (int s = agx::source_of(src, ep)) { o.r = "exc"; o.s = s; o.v = 0; o.k = agx::kind_of(ep); return; }
        try { throw; }
        catch (const SrcExc &e) { o.r = "exc"; o.s = e.s; o.v = 0; o.k = "user"; }     // (a copy of it)
        catch (const cocls::no_more_values_exception &) { if (ends & E_NOMORE) nomore(o); else o.r = "other_exception"; }
        catch (const cocls::await_canceled_exception &) { if (ends & E_CANCEL) nomore(o); else o.r = "other_exception"; }
        catch (const cocls::value_not_ready_exception &) { o.r = "notready"; }
        catch (...) { o.r = "other_exception"; }
    }
    void observe_next(Obs &o, bool b) {
        if (b) {
            try { set_val(o, gen->value()); }
            catch (...) { caught(o); }
        } else {
            o.r = "end"; o.s = 0; o.v = 0;
            try { (void) gen->value(); o.r = "end_with_value"; }
            catch (const cocls::value_not_ready_exception &) { if (agx::source_of(src, std::current_exception())) o.r = "end_with_exception"; }
            catch (...) { o.r = "end_with_exception"; }
        }
    }
    void observe_future(Obs &o, cocls::future<int> &f, int i) {
        if (!f.ready()) return;
        bool hv = f.has_value();
        if (!hv) { o.r = "end"; o.s = 0; o.v = 0; return; }
        try { set_val(o, (i & 1) ? *f : f.value()); }
        catch (...) { caught(o); }
    }

    auto next_(int i) {
        if constexpr (WithArg) return gen->next(args[i]);
        else return gen->next();
    }
    cocls::future<int> call_(int i) {
        if constexpr (WithArg) return (*gen)(args[i]);
        else return (*gen)();
    }

    void sync_access(int i) {
        Obs &o = obs[i - 1];
        try {
            auto a = next_(i);
            bool nb = !a;
            bool b = a;
            if (nb == b) { o.r = "bool_inconsistent"; return; }
            observe_next(o, b);
        } catch (...) { caught(o, E_NOMORE); }
    }
    void iter_access(int i) {
        if constexpr (!WithArg) {
            Obs &o = obs[i - 1];
            try {
                if (!iter || it != "true") { iter.reset(); iter.emplace(gen->begin()); }
                else ++*iter;
                bool b = *iter != gen->end();
                it = b ? "true" : "false";
                if (b) {
                    try { set_val(o, **iter); }
                    catch (...) { caught(o); }
                } else observe_next(o, false);
            } catch (...) { caught(o, E_NOMORE); }
        }
    }
    void blocking_access(int i) {
        if (bstyle == "iter" && !WithArg) iter_access(i);
        else sync_access(i);
    }
    bool use_future(int i) const { return ((i & 1) != 0) == (nstyle == "fc"); }
    void future_access(int i) {
        Obs &o = obs[i - 1];
        try {
            futs[i].reset(new cocls::future<int>(call_(i)));
            if (ct >= 0 && (i % 3) != 0) futs[i]->sync();     // own thread: wait for it like *gen() / gen().wait() do
        } catch (...) { caught(o, E_NOMORE); futs.erase(i); }
    }
    void poll_futures() {
        for (auto &kv : futs) {
            if (!kv.second) continue;
            Obs &o = obs[kv.first - 1];
            if (o.r == "pending") observe_future(o, *kv.second, kv.first);
        }
    }
    void destroy_now() {
        destroying = true;
        iter.reset();
        gen.reset();          // ~generator -> frame destroyed -> controller drains (may block), queue, callbacks, sources
        destroyed = true;
    }
    void exec_native(const Cmd &c) {
        switch (c.kind) {
            case K_B: blocking_access(c.idx); break;
            case K_N:
                if (use_future(c.idx)) future_access(c.idx);
                else { helpers_started++; co_access<G>(*this, c.idx).detach(); }
                break;
            case K_DESTROY: destroy_now(); break;
            default: break;
        }
    }

    bool send(const Cmd &c) {
        if (!gate_h) return false;
        cmd = c;
        auto hh = std::exchange(gate_h, nullptr);
        cocls::coro_queue::resume(hh);
        return true;
    }

    bool at_cmd_mark() {
        const auto &e = sched.pending(ct);
        return sched.parked(ct) && e.op == op_t::mark && !strcmp(e.tag, "cmd");
    }
    bool continue_consumer() {
        for (int fuel = 0; fuel < 200000; fuel++) {
            if (sched.done(ct) || at_cmd_mark()) return true;
            if (!sched.enabled(ct)) return false;
            sched.step(ct);
        }
        return false;
    }
    bool run_command(const Cmd &c) {
        tcmd = c;
        sched.step(ct);
        return continue_consumer();
    }

    void resolve(int k, bool raw = false) {
        auto itp = proms.find(k);
        if (itp == proms.end()) { error = "no pending operation " + std::to_string(k); return; }
        cocls::promise<int> p = std::move(itp->second);
        proms.erase(itp);
        if (raw) {
            cocls::suspend_point<bool> sp = p(k);
            std::coroutine_handle<> hh = sp.pop();
            hh.resume();                 // no coroutine queue installed around the continuation
        } else {
            p(k);                        // discarded suspend point: the source continues in here
        }
    }

    // ---- projection -------------------------------------------------------------------------
    int source_of_cb(Cb *cb) {
        const void *a = static_cast<cocls::awaiter *>(cb);
        for (auto &kv : src) if (kv.second.cb == a) return kv.first;
        return -1;
    }
    Q *find_queue() {
        for (auto &kv : src) if (kv.second.cb) return &CbProbe<G>::queue_of(static_cast<Cb *>(static_cast<cocls::awaiter *>(kv.second.cb)));
        return nullptr;
    }
    J project() {
        J m = J::map();
        m.set("alive", !destroyed);
        std::string ast;
        bool frame_locals = false;
        if (destroyed) ast = "gone";
        else if (!started) ast = "init";
        else if (hdone()) ast = "final";
        else {
            frame_locals = true;
            ast = (P().*Stolen<T_caller<G>>::value) != nullptr ? "pop" : "yield";
        }
        m.set("ast", ast);
        m.set("cscript", J::list(cdone.begin(), cdone.end()));
        J ol = J::list();
        for (auto &o : obs) { J e = J::map(); e.set("k", o.k); e.set("r", o.r); e.set("s", o.s); e.set("v", o.v); ol.push(e); }
        m.set("obs", ol);
        J ql = J::list();
        std::string waiter = "none";
        if (frame_locals) {
            if (Q *q = find_queue()) {
                auto copy = (*q).*QProbe<G>::items_mp();
                while (!copy.empty()) { ql.push(source_of_cb(copy.front())); copy.pop(); }
                if (!((*q).*QProbe<G>::waiters_mp()).empty()) waiter = destroying ? "drain" : "agg";
            }
        }
        m.set("queue", ql);
        m.set("waiter", waiter);
        J sgot = J::map(), sloc = J::map(), spar = J::map(), sscr = J::map(), sseq = J::map(), sst = J::map();
        for (auto &kv : src) {
            std::string k = std::to_string(kv.first);
            SrcState &s = kv.second;
            J g = J::list();
            for (auto &x : s.got) { J e = J::map(); e.set("j", x.j); e.set("v", x.v); g.push(e); }
            sgot.set(k, g);
            J l = J::map(); l.set("ctor", s.ctor); l.set("dtor", s.dtor);
            sloc.set(k, l);
            spar.set(k, s.par);
            sscr.set(k, J::list(s.done.begin(), s.done.end()));
            sseq.set(k, s.seq);
            sst.set(k, s.par == 0 ? std::string("gone") : s.st);
        }
        m.set("sgot", sgot); m.set("sloc", sloc); m.set("spar", spar);
        m.set("sscr", sscr); m.set("sseq", sseq); m.set("sst", sst);
        if (!error.empty()) m.set("error", error);
        return m;
    }

    // ---- driver -----------------------------------------------------------------------------
    void run(const Scenario &sc, Reporter &rep, const std::string &mode) {
        {
            auto a = mode.find('/'), b = mode.rfind('/');
            impl = mode.substr(0, a); bstyle = mode.substr(a + 1, b - a - 1); nstyle = mode.substr(b + 1);
        }
        bool threaded = impl == "thr_late" || impl == "thr_early";
        ns = (int) sc.hdr.at("ns").as_int();
        for (int s = 1; s <= ns; s++) src[s];
        if (!sc.steps.empty()) {
            JV last = JReader(sc.steps.back().expected).parse();
            for (auto &kv : last.at("sscr").m) for (auto &x : kv.second.l) src[atoi(kv.first.c_str())].script.push_back(x.s);
        }
        {
            std::vector<G> list;
            for (int s = 1; s <= ns; s++) list.push_back(source_fn<G>(this, s, Param(&src[s].par)));
            gen.emplace(cocls::generator_aggregator(std::move(list)));
        }
        frame = const_cast<void *>(gen->get_id());
        if (impl == "coro") consumer<G>(*this).detach();
        if (threaded) {
            sched.log_enabled = false;
            sched.install();
            ct = sched.spawn([this] {
                (void) cocls::coro_queue::queue_impl::instance._queue.size();
                for (;;) {
                    vsched::mark("cmd");
                    if (tcmd.kind == K_QUIT) break;
                    exec_native(tcmd);
                }
            });
        }
        bool bad = false;
        for (std::size_t k = 0; k < sc.steps.size() && !bad; k++) {
            const Step &st = sc.steps[k];
            if (st.name == "Access" || st.name == "Destroy") {
                Cmd c;
                if (st.name == "Destroy") c.kind = K_DESTROY;
                else {
                    c.kind = st.sarg(0) == "b" ? K_B : K_N;
                    c.idx = ++cur;
                    cdone.push_back(st.sarg(0));
                    obs.emplace_back();
                    started = true;
                }
                if (impl == "coro") {
                    if (!send(c)) { rep.diverge(k, "consumer coroutine is not ready for the next access got=" + project().dump()); bad = true; break; }
                } else if (threaded) {
                    if (!at_cmd_mark()) { rep.diverge(k, "consumer thread is still inside the previous call got=" + project().dump()); bad = true; break; }
                    run_command(c);
                } else exec_native(c);
            } else if (st.name == "ExternalResolve") {
                int kk = st.iarg(0);
                if (impl == "thr_early") {
                    int rt = sched.spawn([this, kk] { resolve(kk); });
                    for (int fuel = 0; fuel < 200000 && !sched.done(rt); fuel++) {
                        const auto &e = sched.pending(rt);
                        if (e.op == op_t::notify && (strstr(e.func, "unblock_sync") || strstr(e.func, "wakeup"))) break;
                        if (!sched.enabled(rt)) break;
                        sched.step(rt);
                    }
                    continue_consumer();
                    for (int fuel = 0; fuel < 200000 && !sched.done(rt) && sched.enabled(rt); fuel++) sched.step(rt);
                    if (!sched.done(rt)) { rep.diverge(k, "completing thread is stuck got=" + project().dump()); bad = true; break; }
                    continue_consumer();
                } else if (impl == "coro" && gate_h) {
                    send(Cmd{K_RESOLVE, kk});
                } else {
                    resolve(kk, impl == "native_raw");
                    if (threaded) continue_consumer();
                }
            } else {
                rep.error(k, "unknown action");
                bad = true;
                break;
            }
            poll_futures();
            if (!rep.check(k, project())) bad = true;
        }
        if (bad) {
            if (threaded) sched.uninstall();
            leaked = true;
            return;
        }
        if (threaded) {
            bool ok = continue_consumer();
            if (ok && !sched.done(ct)) ok = run_command(Cmd{K_QUIT, 0});
            bool drained = ok && sched.drain();
            sched.uninstall();
            if (!drained) {
                rep.diverge(sc.steps.size() - 1, "consumer thread blocked at the end of the scenario got=" + project().dump());
                leaked = true;
                return;
            }
            sched.join_all();
        }
        if (impl == "coro") {
            if (gate_h && !destroyed) send(Cmd{K_DESTROY, 0});
            if (gate_h) send(Cmd{K_QUIT, 0});
            if (!consumer_finished) { rep.diverge(sc.steps.size() - 1, "consumer coroutine never came back got=" + project().dump()); leaked = true; return; }
        }
        if (!destroyed) destroy_now();
        futs.clear();
        if (helpers_started != helpers_finished) rep.diverge(sc.steps.size() - 1, "a co_awaiting consumer was never resumed");
        else for (auto &kv : src) {
            if (kv.second.par != 0 || kv.second.ctor != kv.second.dtor) { rep.diverge(sc.steps.size() - 1, "source locals/parameters not destroyed exactly once"); break; }
        }
    }
};

template <typename G>
cocls::async<void> co_access(World<G> &w, int i) {
    try {
        bool b;
        if constexpr (World<G>::WithArg) b = co_await w.gen->next(w.args[i]);
        else b = co_await w.gen->next();
        w.observe_next(w.obs[i - 1], b);
    } catch (...) {
        w.caught(w.obs[i - 1], World<G>::E_NOMORE);
    }
    w.helpers_finished++;
}

template <typename G>
cocls::async<void> consumer(World<G> &w) {
    constexpr bool WithArg = World<G>::WithArg;
    for (;;) {
        Cmd c = co_await Gate<G>{&w};
        if (c.kind == K_QUIT) break;
        int i = c.idx;
        switch (c.kind) {
            case K_B: w.blocking_access(i); break;
            case K_RESOLVE: w.resolve(i); break;
            case K_DESTROY: w.destroy_now(); break;
            case K_N: {
                if (!w.use_future(i)) {
                    try {
                        bool b;
                        if constexpr (WithArg) b = co_await w.gen->next(w.args[i]);
                        else b = co_await w.gen->next();
                        w.observe_next(w.obs[i - 1], b);
                    } catch (...) { w.caught(w.obs[i - 1], World<G>::E_NOMORE); }
                } else if (i % 3 == 0) {
                    w.future_access(i);          // kept, not awaited
                } else {
                    Obs &o = w.obs[i - 1];
                    try {
                        cocls::future<int> f = w.call_(i);
                        if (i % 3 == 1) {
                            bool hv = co_await f.has_value();
                            if (!hv) { o.r = "end"; o.s = 0; o.v = 0; }
                            else {
                                try { w.set_val(o, *f); }
                                catch (...) { w.caught(o); }
                            }
                        } else {
                            try { int v = co_await f; w.set_val(o, v); }
                            catch (...) { w.caught(o, World<G>::E_CANCEL); }
                        }
                    } catch (...) { w.caught(o, World<G>::E_NOMORE); }
                }
            } break;
            default: break;
        }
    }
    w.consumer_finished = true;
}

template <typename G>
static void run_modes(const Scenario &sc, Reporter &rep) {
    std::vector<std::string> ms;
    for (auto &m : sc.hdr.at("modes").l) ms.push_back(m.s);
    if (ms.empty()) ms.push_back("native/sync/fc");
    for (auto &m : ms) {
        if (rep.failed()) break;
        long before = g_live_blocks.load();
        {
            auto w = std::make_unique<World<G>>();
            w->run(sc, rep, m);
            if (w->leaked) { (void) w.release(); continue; }
        }
        long after = g_live_blocks.load();
        if (!rep.failed() && after != before)
            rep.diverge(sc.steps.size() - 1, "allocation imbalance: " + std::to_string(after - before) + " block(s) not freed in mode " + m);
    }
}

int main() {
    (void) cocls::coro_queue::queue_impl::instance._queue.size();
    return replay_main(std::cin, [](const Scenario &sc, Reporter &rep) {
        alarm(20);   // watchdog only: a hang (a wait that is never released) kills the replayer inside the scenario
        if (sc.hdr.at("witharg").as_bool()) run_modes<G1>(sc, rep);
        else run_modes<G0>(sc, rep);
    });
}
