// pool_replay.cpp -- replays schedules of spec/ThreadPool/ThreadPool.tla on the real cocls::thread_pool.
// The pool's own worker threads (created by the library through std::thread) are adopted by the
// controlled scheduler via the interposed pthread_create; pool mutex / condition variable / join are
// virtual (cocls_verif/pthread_shim.h), so "take the lock", "wake up in the wait" and "join" are
// scheduling points with exact enabledness.  Lock grain: atomics are not scheduling points.
//
// header: {"script":["co","fn","stop",...], "workers":N, "second":bool (a second client thread "d" calls stop())}
// Nested submissions (a job whose body submits to the same pool) have the id parent + script length (grandchild:
// + 2 * script length), see ThreadPool.tla.
// projection: {"enabled":[threads],"exit":bool,"jobs":{"1":{"by":thread,"fut":none|pending|value|exception|broken,"st":pending|running|ran|cancelled}},
//              "pend":{thread:..},"qlen":n,"wdone":[workers]}
#include <cocls/thread_pool.h>
#include <cocls/async.h>
#include <cocls/future.h>
#include <cocls_verif/pthread_shim.h>
#include "replay_common.h"

using namespace rp;
using cocls_verif::vsched;
using cocls_verif::op_t;

struct PProbe : cocls::thread_pool {
    static auto exit_mp() { return &PProbe::_exit; }
    static auto queue_mp() { return &PProbe::_queue; }
};

struct Rec {
    std::string kind;
    int started = 0, finished = 0, cancelled = 0;
    std::string by = "none";
    // The future returned by run() is constructed in place (guaranteed elision), so the promise held by the
    // queued closure points at this storage from the moment run() begins: the projection can observe a
    // cancellation that happens while the submitter is still inside run().
    alignas(cocls::future<int>) unsigned char fut_mem[sizeof(cocls::future<int>)];
    cocls::future<int> *fut = nullptr;
    // kind "aw": the future the coroutine awaits through pool(future) and its promise (heap objects: leaked when the
    // script never resolves them, a suspended coroutine may still refer to them)
    cocls::future<int> *awfut = nullptr;
    cocls::promise<int> *awp = nullptr;
    int target = 0;     // kinds "rvj"/"rv": the aw job whose future is resolved
    bool late_fut = false;  // run(async) of a coroutine with nested submissions: the future is resolved by the LAST leg
    int expect = 0;         // value the future must carry
    bool has_fut = false;   // the submission returns a future (reported as pending until the submission is made)
};

struct World;
static std::string cur_thread_name(World &w);

// dies with the closure: tells whether the closure was ever called
struct Guard {
    Rec *r;
    bool called = false;
    explicit Guard(Rec *r) : r(r) {}
    ~Guard() { if (!called) r->cancelled++; }
};

struct World {
    std::unique_ptr<cocls::thread_pool> pool;
    std::vector<std::string> script;
    int nworkers = 1;
    int form = 0;                   // rotation of equivalent API forms (header "form")
    bool second = false;            // a second client thread "d" (managed thread nworkers + 1, spawned once the pool exists)
    std::map<int, Rec> recs;        // job id (1-based position in script) -> record
    vsched sched;
    std::vector<cocls::async<void>> keep;
};

static std::string thread_name(World &w, int id) { return id == 0 ? "c" : (w.second && id == w.nworkers + 1) ? "d" : "w" + std::to_string(id); }

static std::string cur_thread_name(World &w) {
    auto *me = vsched::self();
    return me ? thread_name(w, me->id) : "unmanaged";
}

// thrown by the jobs of kind "fnx" / "asx"
struct JobThrow { int j; };

static void job_begin(World &w, int j) { Rec &r = w.recs[j]; r.started++; r.by = cur_thread_name(w); }
static void job_end(World &w, int j) { w.recs[j].finished++; }

static cocls::async<void> co_job(World &w, int j) {
    try {
        co_await *w.pool;
        job_begin(w, j);
        job_end(w, j);
    } catch (const cocls::await_canceled_exception &) {
        w.recs[j].cancelled++;
    }
}

static cocls::async<int> asy_job(World &w, int j) {
    job_begin(w, j);
    job_end(w, j);
    co_return j;
}

static cocls::async<int> asx_job(World &w, int j) {
    job_begin(w, j);
    job_end(w, j);
    throw JobThrow{j};
    co_return j;
}

// co_await pool(future) with two extra scheduling points: before await_ready() and before await_suspend(); whatever
// await_suspend() of the pool's awaiter returns (bool today) is passed through exactly as the compiler would use it
template<typename Inner>
struct Stepper {
    Inner inner;
    bool await_ready() { vsched::mark("aw0"); return inner.await_ready(); }
    auto await_suspend(std::coroutine_handle<> h) { vsched::mark("awb"); return inner.await_suspend(h); }
    decltype(auto) await_resume() { return inner.await_resume(); }
};

static cocls::async<void> aw_job(World &w, int j) {
    try {
        using Inner = decltype((*w.pool)(*w.recs[j].awfut));
        int v = co_await Stepper<Inner>{(*w.pool)(*w.recs[j].awfut)};
        (void) v;
        job_begin(w, j);
        job_end(w, j);
    } catch (const cocls::await_canceled_exception &) {
        w.recs[j].cancelled++;
    }
}

static cocls::async<void> res_job(World &w, int j) {
    job_begin(w, j);
    job_end(w, j);
    co_return;
}

// ---- jobs with nested submissions -------------------------------------------------------------------------------
static const char *child_kind(const std::string &k) {
    if (k == "asn" || k == "acu" || k == "con") return "co";
    if (k == "as2") return "con";
    if (k == "asr") return "fna";
    if (k == "fnn") return "fn";
    if (k == "dtn") return "det";
    return nullptr;
}

// co_await <pool awaiter> issued by the leg `leg` of a job (0: by the client): when await_suspend() of the library's
// awaiter has returned, the leg is over -- the coroutine is suspended and control goes back to whoever ran the leg.
// The coroutine may already be running (or be finished and destroyed) on another worker by then: nothing of the
// coroutine frame (this awaiter included) is touched after the inner call.
template<typename Inner>
struct Hop {
    World *w;
    int leg;
    bool *not_suspended;    // set when await_ready() says so (may be null)
    Inner inner;
    bool await_ready() {
        bool r = inner.await_ready();
        if (r && not_suspended) *not_suspended = true;
        return r;
    }
    auto await_suspend(std::coroutine_handle<> h) {
        World *pw = w;
        int l = leg;
        if constexpr (std::is_void_v<decltype(inner.await_suspend(h))>) {
            inner.await_suspend(h);
            if (l) job_end(*pw, l);
        } else {
            auto r = inner.await_suspend(h);
            if (r && l) job_end(*pw, l);
            return r;
        }
    }
    decltype(auto) await_resume() { return inner.await_resume(); }
};

// a coroutine that hands itself over to the pool `hops` times.  started_by_pool: the coroutine is started by the pool
// (pool.run(async)), its first leg is the submission j itself; otherwise the client starts it and the first hop is j.
// Submission ids: j, j + N, j + 2N.  use_current: the hops go through thread_pool::current.
static cocls::async<int> chain_job(World &w, int j, int hops, bool started_by_pool, bool use_current) {
    int N = (int) w.script.size();
    int leg = 0, id = j;
    if (started_by_pool) { job_begin(w, id); leg = id; id += N; }
    for (int k = 0; k < hops; k++) {
        bool cancelled = false, inl = false;
        try {
            if (use_current) {
                using Inner = cocls::thread_pool::current::current_awaiter;
                co_await Hop<Inner>{&w, leg, &inl, cocls::thread_pool::current().operator co_await()};
            } else {
                using Inner = cocls::thread_pool::co_awaiter;
                co_await Hop<Inner>{&w, leg, &inl, w.pool->operator co_await()};
            }
        } catch (const cocls::await_canceled_exception &) {
            cancelled = true;
        }
        if (cancelled) {
            // (the previous leg ends when its await_suspend() returns, possibly after this)
            w.recs[id].cancelled++;
            co_return j;
        }
        // not suspended at all (thread_pool::current on a stopped pool): the previous leg ends here
        if (inl && leg) job_end(w, leg);
        job_begin(w, id);
        leg = id;
        id += N;
    }
    job_end(w, leg);
    co_return j;
}

// pool.run(async) of a coroutine that submits a function to the pool and awaits its result: co_await pool.run(fn)
static cocls::async<int> asr_job(World &w, int j) {
    int n = j + (int) w.script.size();
    World *pw = &w;
    job_begin(w, j);
    cocls::future<int> f = w.pool->run([pw, n] { job_begin(*pw, n); job_end(*pw, n); return n; });
    try {
        using Inner = decltype(f.operator co_await());
        int v = co_await Hop<Inner>{pw, j, nullptr, f.operator co_await()};
        if (v != n) w.recs[n].started += 100;   // reported as "twice"
    } catch (const cocls::await_canceled_exception &) {
        w.recs[n].cancelled++;
    }
    if (!w.recs[j].finished) job_end(w, j);
    co_return j;
}

static std::string fut_state(World &w, int j) {
    Rec &r = w.recs[j];
    if (!r.has_fut) return r.fut ? "unexpected" : "none";
    if (!r.fut || !r.fut->ready()) return "pending";
    try { return r.fut->value() == r.expect ? "value" : "wrong_value"; }
    catch (const cocls::await_canceled_exception &) { return "broken"; }
    catch (const JobThrow &e) { return e.j == r.expect ? "exception" : "wrong_exception"; }
    catch (...) { return "other_exception"; }
}

static std::string job_state(World &w, int j) {
    Rec &r = w.recs[j];
    bool cancelled = r.cancelled > 0;
    if (r.fut && r.fut->ready()) {
        try { (void) r.fut->value(); }
        catch (const cocls::await_canceled_exception &) { cancelled = true; }
        catch (const JobThrow &) {}
        catch (...) { return "other_exception"; }
    }
    if (r.started > 1 || r.finished > 1 || r.cancelled > 1) return "twice";
    if (cancelled && r.started) return "ran_and_cancelled";
    if (cancelled) return "cancelled";
    if (r.finished) {
        if (r.fut && !r.late_fut && !r.fut->ready()) return "ran_future_pending";
        return "ran";
    }
    if (r.started) return "running";
    return "pending";
}

static std::string pend_of(World &w, int t) {
    if (w.sched.done(t)) return "done";
    const auto &e = w.sched.pending(t);
    switch (e.op) {
        case op_t::mark: return "pre:mark";
        case op_t::lock: return "pre:lock";
        case op_t::unlock: return "post:unlock";
        case op_t::cond_wait: return "pre:cond";
        case op_t::thread_start: return "pre:start";
        case op_t::thread_join: return "pre:join";
        default: return std::string("?") + cocls_verif::op_name(e.op) + "@" + e.func;
    }
}

// ThreadPool.tla Target(): the "aw" element (1-based position, 0: none) whose future the "rvj" / "rv" element at position p
// resolves: a run of "rvj" is paired in order with the "aw" elements that follow, a run of "rv" with those that precede
static int target_of(const std::vector<std::string> &sc, int p) {
    const std::string &k = sc[p - 1];
    int rank = 0;
    for (int m = p - 1; m >= 1 && sc[m - 1] != "aw"; m--) if (sc[m - 1] == k) rank++;
    if (k == "rvj") {
        for (int m = p + 1; m <= (int) sc.size(); m++) if (sc[m - 1] == "aw" && rank-- == 0) return m;
    } else if (k == "rv") {
        for (int m = p - 1; m >= 1; m--) if (sc[m - 1] == "aw" && rank-- == 0) return m;
    }
    return 0;
}

static J project(World &w) {
    J m = J::map();
    J pend = J::map(), enabled = J::list(), wdone = J::list();
    for (std::size_t t = 0; t < w.sched.nthreads(); t++) {
        std::string n = thread_name(w, (int) t);
        pend.set(n, pend_of(w, (int) t));
        if (w.sched.enabled((int) t)) enabled.push(n);
        if (t > 0 && n != "d" && w.sched.done((int) t)) wdone.push(n);
    }
    // workers not created yet (before CBegin) are reported the way the specification starts them
    for (int i = (int) w.sched.nthreads(); i <= w.nworkers; i++) pend.set(thread_name(w, i), "pre:start");
    if (w.second && (int) w.sched.nthreads() <= w.nworkers + 1) pend.set("d", "pre:mark");
    enabled.sort_as_set();
    wdone.sort_as_set();
    m.set("pend", pend);
    m.set("enabled", enabled);
    m.set("wdone", wdone);
    if (w.pool) {
        m.set("exit", (bool) ((*w.pool).*PProbe::exit_mp()));
        m.set("qlen", (long) ((*w.pool).*PProbe::queue_mp()).size());
    } else {
        m.set("exit", false);
        m.set("qlen", 0);
    }
    J jobs = J::map();
    for (auto &kv : w.recs) {
        J r = J::map();
        r.set("st", job_state(w, kv.first));
        r.set("by", kv.second.by);
        r.set("fut", fut_state(w, kv.first));
        jobs.set(std::to_string(kv.first), r);
    }
    m.set("jobs", jobs);
    return m;
}

static void client(World &w) {
    vsched::mark("begin");
    w.pool.reset(new cocls::thread_pool(w.nworkers));
    for (std::size_t i = 0; i < w.script.size(); i++) {
        int j = (int) i + 1;
        const std::string &k = w.script[i];
        if (k == "stop") { w.pool->stop(); continue; }
        if (k == "rv") {
            vsched::mark("rv");
            int tg = target_of(w.script, j);
            if (tg) (*w.recs[tg].awp)(tg);
            continue;
        }
        Rec *r = &w.recs[j];
        World *pw = &w;
        if (k == "co") {
            co_job(w, j).detach();
        } else if (k == "fn") {
            r->fut = reinterpret_cast<cocls::future<int> *>(r->fut_mem);
            new (r->fut_mem) cocls::future<int>(w.pool->run([pw, j] { job_begin(*pw, j); job_end(*pw, j); return j; }));
        } else if (k == "fnx") {
            r->fut = reinterpret_cast<cocls::future<int> *>(r->fut_mem);
            new (r->fut_mem) cocls::future<int>(w.pool->run([pw, j]() -> int { job_begin(*pw, j); job_end(*pw, j); throw JobThrow{j}; }));
        } else if (k == "det") {
            w.pool->run_detached([pw, j, g = std::make_unique<Guard>(r)] { g->called = true; job_begin(*pw, j); job_end(*pw, j); });
        } else if (k == "wst") {
            w.pool->run_detached([pw, j, g = std::make_unique<Guard>(r)] { g->called = true; job_begin(*pw, j); pw->pool->stop(); job_end(*pw, j); });
        } else if (k == "asy" || k == "asx" || k == "asn" || k == "as2" || k == "acu" || k == "asr") {
            r->fut = reinterpret_cast<cocls::future<int> *>(r->fut_mem);
            // a coroutine with nested submissions resolves the future in its last leg
            r->late_fut = k != "asy" && k != "asx";
            auto make = [&]() -> cocls::async<int> {
                if (k == "asy") return asy_job(w, j);
                if (k == "asx") return asx_job(w, j);
                if (k == "asr") return asr_job(w, j);
                return chain_job(w, j, k == "as2" ? 2 : 1, true, k == "acu");
            };
            if ((j + w.form) % 2 == 0) {
                new (r->fut_mem) cocls::future<int>(w.pool->run(make()));
            } else {
                // the lvalue overload, with the caller's coroutine object destroyed as soon as run() has returned (a local
                // of a function that returns the future): the queued work must own everything it needs
                auto c = std::make_unique<cocls::async<int>>(make());
                new (r->fut_mem) cocls::future<int>(w.pool->run(*c));
                c.reset();
            }
        } else if (k == "con") {
            chain_job(w, j, 2, false, false).detach();
        } else if (k == "dtn") {
            int n = j + (int) w.script.size();
            Rec *rn = &w.recs[n];
            w.pool->run_detached([pw, j, n, rn, g = std::make_unique<Guard>(r)] {
                g->called = true; job_begin(*pw, j);
                pw->pool->run_detached([pw, n, g = std::make_unique<Guard>(rn)] { g->called = true; job_begin(*pw, n); job_end(*pw, n); });
                job_end(*pw, j);
            });
        } else if (k == "fnn") {
            int n = j + (int) w.script.size();
            Rec *rn = &w.recs[n];
            r->fut = reinterpret_cast<cocls::future<int> *>(r->fut_mem);
            new (r->fut_mem) cocls::future<int>(w.pool->run([pw, j, n, rn] {
                job_begin(*pw, j);
                // the function keeps the future of its own submission and returns without waiting for it
                rn->fut = reinterpret_cast<cocls::future<int> *>(rn->fut_mem);
                new (rn->fut_mem) cocls::future<int>(pw->pool->run([pw, n] { job_begin(*pw, n); job_end(*pw, n); return n; }));
                job_end(*pw, j);
                return j;
            }));
        } else if (k == "res") {
            cocls::suspend_point<void> sp = res_job(w, j).detach();
            w.pool->resume(std::move(sp));
        } else if (k == "aw") {
            aw_job(w, j).detach();
        } else if (k == "rvj") {
            int tg = r->target;
            w.pool->run_detached([pw, j, tg, g = std::make_unique<Guard>(r)] {
                g->called = true; job_begin(*pw, j);
                if (tg) (*pw->recs[tg].awp)(tg);
                job_end(*pw, j);
            });
        }
    }
}

static void run(const Scenario &sc, Reporter &rep) {
    World *pw = new World();
    World &w = *pw;
    for (auto &x : sc.hdr.at("script").l) w.script.push_back(x.s);
    w.nworkers = (int) sc.hdr.at("workers").as_int(1);
    w.form = (int) sc.hdr.at("form").as_int(0);
    w.second = sc.hdr.at("second").as_bool(false);
    for (std::size_t i = 0; i < w.script.size(); i++) if (w.script[i] != "stop" && w.script[i] != "rv") w.recs[(int) i + 1].kind = w.script[i];
    {   // records of the nested submissions (created up front: the map is not modified while the threads run)
        int N = (int) w.script.size();
        for (int lvl = 1; lvl <= 2; lvl++)
            for (int i = 1; i <= N; i++) {
                auto it = w.recs.find((lvl - 1) * N + i);
                if (it == w.recs.end()) continue;
                if (const char *ck = child_kind(it->second.kind)) w.recs[lvl * N + i].kind = ck;
            }
        for (auto &kv : w.recs) {
            kv.second.expect = kv.first;
            const std::string &kd = kv.second.kind;
            kv.second.has_fut = kd == "fn" || kd == "asy" || kd == "fnn" || kd == "fnx" || kd == "asx" || kd == "asn" || kd == "as2" || kd == "acu" || kd == "asr";
        }
    }
    for (auto &kv : w.recs) {
        if (kv.second.kind == "aw") {
            kv.second.awfut = new cocls::future<int>();
            kv.second.awp = new cocls::promise<int>(kv.second.awfut->get_promise());
        } else if (kv.second.kind == "rvj") {
            kv.second.target = target_of(w.script, kv.first);
        }
    }
    w.sched.lock_grain = true;
    w.sched.adopt_threads = true;
    w.sched.install();
    w.sched.spawn([pw] { client(*pw); });
    bool bad = false;
    for (std::size_t k = 0; k < sc.steps.size() && !bad; k++) {
        const Step &st = sc.steps[k];
        std::string tn = st.name[0] == 'C' ? "c" : st.name[0] == 'D' ? "d" : st.sarg(0);
        int t = tn == "c" ? 0 : tn == "d" ? w.nworkers + 1 : atoi(tn.c_str() + 1);
        if (t >= (int) w.sched.nthreads()) { rep.diverge(k, "thread " + tn + " does not exist in the implementation"); bad = true; break; }
        if (!w.sched.enabled(t)) {
            rep.diverge(k, "thread not enabled in the implementation (" + std::string(w.sched.done(t) ? "finished" : "blocked") + ") got=" + project(w).dump());
            bad = true;
            break;
        }
        w.sched.step(t);
        // the second client thread comes into being when the pool exists (its workers are the managed threads 1..n)
        if (st.name == "CBegin" && w.second && (int) w.sched.nthreads() == w.nworkers + 1)
            w.sched.spawn([pw] { vsched::mark("dbegin"); pw->pool->stop(); });
        if (!rep.check(k, project(w))) bad = true;
    }
    bool drained = w.sched.drain();
    if (!drained && !bad) rep.diverge(sc.steps.size() - 1, "deadlock: threads blocked at the end of the schedule got=" + project(w).dump());
    w.sched.uninstall();
    if (!drained) { fflush(stdout); _exit(1); }
    w.sched.join_all();
    // the pool object dies on the controller thread: if it was not stopped by the script, stop() runs here
    // un-managed (real pthread calls) -- only legal when every worker has already exited
    bool stopped = w.pool && ((*w.pool).*PProbe::exit_mp());
    if (w.pool && !stopped) {
        // scripts always end with the pool stopped in this harness; otherwise leak it
        (void) w.pool.release();
    }
    w.pool.reset();
    // futures of cancelled/ran jobs are ready; a never-resolved future (dropped submission) must not be destroyed
    for (auto &kv : w.recs) if (kv.second.fut && kv.second.fut->ready()) kv.second.fut->~future();
    for (auto &kv : w.recs) if (kv.second.awfut && kv.second.awfut->ready()) { delete kv.second.awp; delete kv.second.awfut; }
    delete pw;
}

int main() {
    return replay_main(std::cin, run);
}
