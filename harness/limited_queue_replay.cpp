// limited_queue_replay.cpp -- replays behaviours of spec/LimitedQueue/LimitedQueue.tla (single client
// thread; the resolution steps PushResolve / PopCompletePush / UnblockPushResolve / UnblockPopResolve
// are merged into their critical section by the path writer, because one public call performs both)
// on the real cocls::limited_queue<T>, comparing the projection of the real object with the
// specification's state after every step.
//
// header: {"limit":n, "variants":["<item>/<mode>/<pmode>", ...]}   the scenario is executed once per variant
//   mode  = poll|coro : coro = every pop future is awaited by a consumer coroutine
//   pmode = poll|coro : coro = every push future is awaited by a producer coroutine
//   item  = int       : cocls::limited_queue<int> (default containers, std::mutex)
//   item  = tracked   : limited_queue<Tracked, CheckedQueue x3, CheckedLock>: an item type whose live
//                       instances are counted, and -- through the library's Queue/Lock template
//                       parameters -- containers that report every access made without the lock and a
//                       lock that reports misuse; coroutines report being resumed while the lock is held.
//                       This binds the specification's grain (all state changes inside the critical
//                       section, resolutions of other parties' promises outside) to the code.
// projection:
//   {"blocked":[{"push":id,"v":item}...], "destroyed", "fut":[{"st","v"}...], "items":[...], "limit",
//    "live":[live instances of value 1..npush], "npop", "npush", "pfut":["ready"|"pending"|"done"|"exc"|"canceled"...],
//    "ret":{"t1":"none"|"true"|"false"}, "size", "waiters":[pop ids]}
//   plus, only when wrong: "lock_violation", "empty_mismatch", "limit_mismatch", "stray_item"
#include <cocls/queue.h>
#include <cocls/async.h>
#include <cocls/future.h>
#include "replay_common.h"

#include <deque>
#include <optional>
#include <queue>

using namespace rp;

struct TestExc : std::exception {};

// ---------------------------------------------------------------------------------------------
// item type with instance accounting: live[v] = number of live, not moved-from instances carrying v
// ---------------------------------------------------------------------------------------------
struct Tracked {
    static inline std::map<int, int> live;
    int v = 0;
    explicit Tracked(int x) : v(x) { if (v) live[v]++; }
    Tracked(const Tracked &o) : v(o.v) { if (v) live[v]++; }
    Tracked(Tracked &&o) noexcept : v(o.v) { o.v = 0; }
    Tracked &operator=(const Tracked &o) {
        if (this != &o) { if (v) live[v]--; v = o.v; if (v) live[v]++; }
        return *this;
    }
    Tracked &operator=(Tracked &&o) noexcept {
        if (this != &o) { if (v) live[v]--; v = o.v; o.v = 0; }
        return *this;
    }
    ~Tracked() { if (v) live[v]--; }
};

inline int val_of(int x) { return x; }
inline int val_of(const Tracked &x) { return x.v; }

// ---------------------------------------------------------------------------------------------
// lock discipline (single-threaded: one global flag)
// ---------------------------------------------------------------------------------------------
namespace lockcheck {
inline int held = 0;
inline std::string violation;
inline void fail(const std::string &what) { if (violation.empty()) violation = what; }
inline void access(const char *what) { if (!held) fail(std::string("queue state accessed without the lock: ") + what); }

struct Lock {
    void lock() { if (held) fail("lock taken while already held"); held++; }
    void unlock() { if (!held) fail("unlock of a lock that is not held"); else held--; }
    bool try_lock() { if (held) return false; held++; return true; }
};

// the container interface limited_queue uses, every call checked; `_q` is for the probe only
template <typename X>
class Queue {
public:
    template <typename... Args>
    void emplace(Args &&...args) { access("emplace"); _q.emplace(std::forward<Args>(args)...); }
    void push(X &&x) { access("push"); _q.push(std::move(x)); }
    void push(const X &x) { access("push"); _q.push(x); }
    void pop() { access("pop"); _q.pop(); }
    X &front() { access("front"); return _q.front(); }
    X &back() { access("back"); return _q.back(); }
    bool empty() const { access("empty"); return _q.empty(); }
    std::size_t size() const { access("size"); return _q.size(); }
    std::queue<X> _q;
};
}  // namespace lockcheck

template <typename X> std::queue<X> &raw(cocls::primitives::std_queue<X> &q) { return q; }
template <typename X> std::queue<X> &raw(lockcheck::Queue<X> &q) { return q._q; }

template <typename T> struct QueueOf { using type = cocls::limited_queue<T>; };
template <> struct QueueOf<Tracked> {
    using type = cocls::limited_queue<Tracked, lockcheck::Queue, lockcheck::Queue, lockcheck::Queue, lockcheck::Lock>;
};

// limited_queue derives from queue<T> *protectedly*: unblock_pop and all state are reachable only
// from a derived class
template <typename T>
struct Probe : QueueOf<T>::type {
    using Base = typename QueueOf<T>::type;
    using Base::Base;
    using Base::_queue;
    using Base::_awaiters;
    using Base::_blocked;
    using Base::_limit;
    using Base::unblock_pop;
};

struct Rec {
    std::string st = "pending";
    int v = 0;
    bool done = false;
    int resumes = 0;
};

template <typename T>
cocls::async<void> consumer(cocls::future<T> &f, Rec &r) {
    try {
        T &x = co_await f;
        r.v = val_of(x);
        r.st = "val";
    } catch (const cocls::await_canceled_exception &) {
        r.st = "canceled";
    } catch (const TestExc &) {
        r.st = "exc";
    }
    if (lockcheck::held) lockcheck::fail("consumer coroutine resumed while the queue lock is held");
    r.resumes++;
    r.done = true;
}

inline cocls::async<void> producer(cocls::future<void> &f, Rec &r) {
    try {
        co_await f;
        r.st = "ok";
    } catch (const cocls::await_canceled_exception &) {
        r.st = "canceled";
    } catch (const TestExc &) {
        r.st = "exc";
    }
    if (lockcheck::held) lockcheck::fail("producer coroutine resumed while the queue lock is held");
    r.resumes++;
    r.done = true;
}

struct Variant { bool coro, pcoro; };

template <typename T>
struct World {
    std::unique_ptr<Probe<T>> q;
    std::deque<std::unique_ptr<cocls::future<T>>> futs;        // pop futures, by pop id - 1
    std::deque<Rec> recs;
    std::deque<std::unique_ptr<cocls::future<void>>> pfuts;    // push futures, by push id - 1
    std::deque<Rec> precs;
    std::deque<bool> pimm;                                     // push future was ready when push() returned
    std::map<const void *, int> id_of;    // pop future address -> pop id
    std::map<const void *, int> pid_of;   // push future address -> push id
    std::string ret = "none";
    int npush = 0, npop = 0, limit = 0;
    bool coro = false, pcoro = false;

    J fut_state(std::size_t i) {
        J m = J::map();
        cocls::future<T> &f = *futs[i];
        std::string st = "pending";
        int v = 0;
        if (f.ready()) {
            try {
                v = val_of(f.value());
                st = "val";
            } catch (const cocls::await_canceled_exception &) { st = "canceled"; }
            catch (const TestExc &) { st = "exc"; }
            catch (...) { st = "other"; }
        }
        if (coro) {
            // what the awaiting coroutine observed must agree with the future itself
            Rec &r = recs[i];
            if (r.st != st || r.v != v || r.resumes > 1 || (st != "pending") != r.done) {
                st = "mismatch:" + st + "/" + r.st + "/v=" + std::to_string(r.v) + "/resumes=" + std::to_string(r.resumes);
            }
        }
        m.set("st", st);
        m.set("v", v);
        return m;
    }

    // "ready": resolved when push() returned; "done": was pending, completed later
    J pfut_state(std::size_t i) {
        cocls::future<void> &f = *pfuts[i];
        std::string st = "pending";
        std::string raw = "pending";
        if (f.ready()) {
            try {
                f.value();
                raw = "ok";
                st = pimm[i] ? "ready" : "done";
            } catch (const cocls::await_canceled_exception &) { st = raw = "canceled"; }
            catch (const TestExc &) { st = raw = "exc"; }
            catch (...) { st = raw = "other"; }
        } else if (pimm[i]) {
            st = "unready-again";
        }
        if (pcoro) {
            Rec &r = precs[i];
            if (r.st != raw || r.resumes > 1 || (raw != "pending") != r.done) {
                st = "mismatch:" + st + "/" + r.st + "/resumes=" + std::to_string(r.resumes);
            }
        }
        return J(st);
    }

    J project() {
        J m = J::map();
        m.set("destroyed", q == nullptr);
        m.set("limit", limit);
        J items = J::list();
        J waiters = J::list();
        J blocked = J::list();
        std::size_t size = 0;
        std::vector<int> cnt(npush + 1, 0);   // places holding each value (int items carry no identity)
        auto count = [&](int v) { if (v >= 1 && v <= npush) cnt[v]++; };
        if (q) {
            {
                auto copy = raw(q->_queue);   // std::queue<T> copy
                while (!copy.empty()) { items.push(val_of(copy.front())); count(val_of(copy.front())); copy.pop(); }
            }
            // the parked pop promises: identify each by the future it points to
            auto &aw = raw(q->_awaiters);
            std::size_t n = aw.size();
            for (std::size_t i = 0; i < n; i++) {
                cocls::promise<T> p = std::move(aw.front());
                aw.pop();
                auto it = id_of.find(p.get_id());
                waiters.push(it == id_of.end() ? -1 : it->second);
                aw.push(std::move(p));
            }
            // the blocked pushes: item + the push future its promise<void> points to
            auto &bl = raw(q->_blocked);
            n = bl.size();
            for (std::size_t i = 0; i < n; i++) {
                auto e = std::move(bl.front());
                bl.pop();
                J b = J::map();
                b.set("v", val_of(e.first));
                count(val_of(e.first));
                auto it = pid_of.find(e.second.get_id());
                b.set("push", it == pid_of.end() ? -1 : it->second);
                blocked.push(b);
                bl.push(std::move(e));
            }
            size = q->size();                       // the public observers
            if (q->empty() != (size == 0)) m.set("empty_mismatch", true);
            if (q->_limit != (std::size_t) limit) m.set("limit_mismatch", true);
        }
        m.set("items", items);
        m.set("waiters", waiters);
        m.set("blocked", blocked);
        m.set("size", size);
        J fl = J::list();
        for (std::size_t i = 0; i < futs.size(); i++) {
            fl.push(fut_state(i));
            if (futs[i]->ready()) {
                try { count(val_of(futs[i]->value())); } catch (...) {}
            }
        }
        m.set("fut", fl);
        J pl = J::list();
        for (std::size_t i = 0; i < pfuts.size(); i++) pl.push(pfut_state(i));
        m.set("pfut", pl);
        // live instances per pushed value
        J live = J::list();
        if constexpr (std::is_same_v<T, Tracked>) {
            for (int v = 1; v <= npush; v++) live.push(Tracked::live[v]);
            for (auto &kv : Tracked::live) if ((kv.first < 1 || kv.first > npush) && kv.second != 0) m.set("stray_item", kv.first);
        } else {
            for (int v = 1; v <= npush; v++) live.push(cnt[v]);
        }
        m.set("live", live);
        m.set("npush", npush);
        m.set("npop", npop);
        J r = J::map();
        r.set("t1", ret);
        m.set("ret", r);
        if (!lockcheck::violation.empty()) m.set("lock_violation", lockcheck::violation);
        return m;
    }

    void run(const Scenario &sc, Reporter &rep, Variant var) {
        coro = var.coro;
        pcoro = var.pcoro;
        limit = (int) sc.hdr.at("limit").as_int(1);
        if constexpr (std::is_same_v<T, Tracked>) Tracked::live.clear();
        lockcheck::held = 0;
        lockcheck::violation.clear();
        q.reset(new Probe<T>((std::size_t) limit));
        for (std::size_t k = 0; k < sc.steps.size(); k++) {
            const Step &st = sc.steps[k];
            ret = "none";
            if (st.name == "PushCS") {
                npush++;
                pfuts.emplace_back(new cocls::future<void>(q->push(npush)));
                pid_of[pfuts.back().get()] = npush;
                pimm.push_back(pfuts.back()->ready());
                precs.emplace_back();
                if (pcoro) producer(*pfuts.back(), precs.back()).detach();
            } else if (st.name == "PopCS") {
                npop++;
                futs.emplace_back(new cocls::future<T>(q->pop()));
                id_of[futs.back().get()] = npop;
                recs.emplace_back();
                if (coro) consumer<T>(*futs.back(), recs.back()).detach();
            } else if (st.name == "UnblockPushCS") {
                bool r = q->unblock_push(std::make_exception_ptr(TestExc()));
                ret = r ? "true" : "false";
            } else if (st.name == "UnblockPopCS") {
                bool r = q->unblock_pop(std::make_exception_ptr(TestExc()));
                ret = r ? "true" : "false";
            } else if (st.name == "Destroy") {
                q.reset();
            } else {
                rep.error(k, "unknown action");
                break;
            }
            if (lockcheck::held) lockcheck::fail("lock still held after the call returned");
            if (!rep.check(k, project())) break;
        }
        // tear down: the queue must go before the futures (parked promises point to them)
        q.reset();
        std::size_t last = sc.steps.empty() ? 0 : sc.steps.size() - 1;
        if (!rep.failed()) {
            for (std::size_t i = 0; i < futs.size(); i++) {
                if (!futs[i]->ready()) { rep.diverge(last, "pop future still pending after queue destruction"); break; }
                if (coro && !recs[i].done) { rep.diverge(last, "consumer coroutine never resumed"); break; }
            }
        }
        if (!rep.failed()) {
            for (std::size_t i = 0; i < pfuts.size(); i++) {
                if (!pfuts[i]->ready()) { rep.diverge(last, "push future still pending after queue destruction"); break; }
                if (pcoro && !precs[i].done) { rep.diverge(last, "producer coroutine never resumed"); break; }
            }
        }
        // a pending future must not be destroyed (future.h:175): leak those of a diverged scenario
        for (auto &f : futs) if (f->pending()) f.release();
        for (auto &f : pfuts) if (f->pending()) f.release();
        futs.clear();
        pfuts.clear();
        if constexpr (std::is_same_v<T, Tracked>) {
            if (!rep.failed()) {
                for (auto &kv : Tracked::live) {
                    if (kv.second != 0) { rep.diverge(last, "item instance leaked or destroyed twice: value " + std::to_string(kv.first) + " live=" + std::to_string(kv.second)); break; }
                }
            }
        }
    }
};

// "variants": ["item/mode/pmode", ...] -- the scenario is executed once per listed variant
struct VarSpec { std::string item, mode, pmode; };
static std::vector<VarSpec> variants(const Scenario &sc) {
    std::vector<VarSpec> out;
    for (const JV &e : sc.hdr.at("variants").l) {
        std::istringstream ss(e.as_str("int/poll/poll"));
        VarSpec v;
        std::getline(ss, v.item, '/');
        std::getline(ss, v.mode, '/');
        std::getline(ss, v.pmode, '/');
        out.push_back(v);
    }
    if (out.empty()) out.push_back({"int", "poll", "poll"});
    return out;
}

int main() {
    return replay_main(std::cin, [](const Scenario &sc, Reporter &rep) {
        for (const VarSpec &vs : variants(sc)) {
            if (rep.failed()) return;
            Variant v{vs.mode == "coro", vs.pmode == "coro"};
            if (vs.item == "tracked") { World<Tracked> w; w.run(sc, rep, v); }
            else { World<int> w; w.run(sc, rep, v); }
            if (rep.failed()) printf("#variant %s %s/%s/%s\n", sc.id.c_str(), vs.item.c_str(), vs.mode.c_str(), vs.pmode.c_str());
        }
    });
}
