// limited_queue_replay.cpp -- replays behaviours of spec/LimitedQueue/LimitedQueue.tla (single client
// thread; the resolution steps PushResolve / PopCompletePush / UnblockPushResolve / UnblockPopResolve
// are merged into their critical section by the path writer, because one public call performs both)
// on the real cocls::limited_queue<T>, comparing the projection of the real object with the
// specification's state after every step.
//
// header: {"limit":n, "shift":0..3, "variants":["<queue>/<mode>/<pmode>", ...]}   the scenario is executed once per variant
//   mode  = poll|coro : coro = every pop future is awaited by a consumer coroutine
//   pmode = poll|coro : coro = every push future is awaited by a producer coroutine
//   queue = plain     : cocls::limited_queue<Item> (default containers, std::mutex)
//   queue = checked   : limited_queue<Item, CheckedQueue x3, CheckedLock>: through the library's Queue/Lock
//                       template parameters, containers that report every access made without the lock and a
//                       lock that reports misuse; coroutines report being resumed while the lock is held.
//                       This binds the specification's grain (all state changes inside the critical
//                       section, resolutions of other parties' promises outside) to the code.
//   shift             : the n-th push uses the API form FORMS[(n + shift) % 4] (spec: FormOf(n)):
//                         one : q.push(n)                     two  : q.push(n, n+50)
//                         copy: Item x(n, n+50); q.push(x)    move : Item x(n); q.push(std::move(x))
// The item type records how each instance was built (constructor (int) / (int,int) / initializer_list, the
// arguments, the number of copy constructions it went through) and counts live instances per value; every
// item found in the queue, in the blocked queue or in a pop future is projected with these fields and is also
// compared with a reference built directly as T(args...) when the push was made.  A PushThrowCS step is a push
// (form rotated likewise) during which the next Item constructor to run throws.
// projection:
//   {"blocked":[{"push":id,"item":ITEM}...], "destroyed", "fut":[{"st","item":ITEM|null}...], "items":[ITEM...], "limit",
//    "live":[live instances of value 1..npush], "npop", "npush", "nthrow",
//    "pfut":["ready"|"pending"|"done"|"exc"|"canceled"...], "ret":{"t1":"none"|"true"|"false"|"threw"}, "size", "waiters":[pop ids]}
//   ITEM = {"a","b","copies","form":"1"|"2"|"L"}
//   plus, only when wrong: "lock_violation", "empty_mismatch", "limit_mismatch", "stray_item", "refdiff", "move_source"
#include <cocls/queue.h>
#include <cocls/async.h>
#include <cocls/future.h>
#include "replay_common.h"

#include <deque>
#include <initializer_list>
#include <optional>
#include <queue>

using namespace rp;

struct TestExc : std::exception {};     // unblock_push / unblock_pop
struct CtorThrow : std::exception {};   // thrown by an Item constructor on demand

// ---------------------------------------------------------------------------------------------
// item type: records how it was built, counts live instances, throws on demand
//   live[a] = number of live, not moved-from instances carrying value a
// ---------------------------------------------------------------------------------------------
struct Item {
    static inline std::map<int, int> live;
    static inline bool armed = false;       // the next constructor to run throws (one shot)
    int a = 0, b = 0;
    char form = '?';                        // constructor that built the original: '1' (int), '2' (int,int), 'L' initializer_list
    int copies = 0;                         // copy constructions between the original and this instance
    static void boom() { if (armed) { armed = false; throw CtorThrow(); } }
    explicit Item(int x) { boom(); a = x; form = '1'; if (a) live[a]++; }
    Item(int x, int y) { boom(); a = x; b = y; form = '2'; if (a) live[a]++; }
    Item(std::initializer_list<int> l) {
        boom();
        auto it = l.begin();
        if (it != l.end()) a = *it++;
        if (it != l.end()) b = *it++;
        form = 'L';
        if (a) live[a]++;
    }
    Item(const Item &o) { boom(); a = o.a; b = o.b; form = o.form; copies = o.copies + 1; if (a) live[a]++; }
    Item(Item &&o) { boom(); a = o.a; b = o.b; form = o.form; copies = o.copies; o.a = 0; }
    Item &operator=(const Item &o) {
        if (this != &o) { if (a) live[a]--; a = o.a; b = o.b; form = o.form; copies = o.copies + 1; if (a) live[a]++; }
        return *this;
    }
    Item &operator=(Item &&o) {
        if (this != &o) { if (a) live[a]--; a = o.a; b = o.b; form = o.form; copies = o.copies; o.a = 0; }
        return *this;
    }
    ~Item() { if (a) live[a]--; }
    bool same(const Item &o) const { return a == o.a && b == o.b && form == o.form && copies == o.copies; }
    J json() const {
        J m = J::map();
        m.set("a", a);
        m.set("b", b);
        m.set("copies", copies);
        m.set("form", std::string(1, form));
        return m;
    }
};

static const char *const FORMS[4] = {"one", "two", "copy", "move"};

// ---------------------------------------------------------------------------------------------
// lock discipline (single-threaded: one global flag)
// ---------------------------------------------------------------------------------------------
namespace lockcheck {
inline int held = 0;
inline std::string violation;
inline void fail(const std::string &what) { if (violation.empty()) violation = what; }
inline void access(const char *what) { if (!held) fail(std::string("queue state accessed without the lock: ") + what); }

struct Lock {
    void lock() { if (held) fail("lock taken while already held"); held++; }
    void unlock() { if (!held) fail("unlock of a lock that is not held"); else held--; }
    bool try_lock() { if (held) return false; held++; return true; }
};

// the container interface limited_queue uses, every call checked; `_q` is for the probe only
template <typename X>
class Queue {
public:
    template <typename... Args>
    void emplace(Args &&...args) { access("emplace"); _q.emplace(std::forward<Args>(args)...); }
    void push(X &&x) { access("push"); _q.push(std::move(x)); }
    void push(const X &x) { access("push"); _q.push(x); }
    void pop() { access("pop"); _q.pop(); }
    X &front() { access("front"); return _q.front(); }
    X &back() { access("back"); return _q.back(); }
    bool empty() const { access("empty"); return _q.empty(); }
    std::size_t size() const { access("size"); return _q.size(); }
    std::queue<X> _q;
};
}  // namespace lockcheck

// read-only view of the container under a std::queue (its protected member `c`): the probe must not move or
// copy items, that would disturb what the items record about themselves
template <typename X>
const std::deque<X> &under(const std::queue<X> &q) {
    struct H : std::queue<X> {
        static const std::deque<X> &get(const std::queue<X> &x) { return x.*(&H::c); }
    };
    return H::get(q);
}
template <typename X> const std::deque<X> &elems(const cocls::primitives::std_queue<X> &q) { return under<X>(q); }
template <typename X> const std::deque<X> &elems(const lockcheck::Queue<X> &q) { return under<X>(q._q); }

template <bool Checked> struct QueueOf { using type = cocls::limited_queue<Item>; };
template <> struct QueueOf<true> {
    using type = cocls::limited_queue<Item, lockcheck::Queue, lockcheck::Queue, lockcheck::Queue, lockcheck::Lock>;
};

// limited_queue derives from queue<T> *protectedly*: unblock_pop and all state are reachable only
// from a derived class
template <bool Checked>
struct Probe : QueueOf<Checked>::type {
    using Base = typename QueueOf<Checked>::type;
    using Base::Base;
    using Base::_queue;
    using Base::_awaiters;
    using Base::_blocked;
    using Base::_limit;
    using Base::unblock_pop;
};

struct Rec {
    std::string st = "pending";
    int v = 0;
    bool done = false;
    int resumes = 0;
};

inline cocls::async<void> consumer(cocls::future<Item> &f, Rec &r) {
    try {
        Item &x = co_await f;
        r.v = x.a;
        r.st = "val";
    } catch (const cocls::await_canceled_exception &) {
        r.st = "canceled";
    } catch (const TestExc &) {
        r.st = "exc";
    }
    if (lockcheck::held) lockcheck::fail("consumer coroutine resumed while the queue lock is held");
    r.resumes++;
    r.done = true;
}

inline cocls::async<void> producer(cocls::future<void> &f, Rec &r) {
    try {
        co_await f;
        r.st = "ok";
    } catch (const cocls::await_canceled_exception &) {
        r.st = "canceled";
    } catch (const TestExc &) {
        r.st = "exc";
    }
    if (lockcheck::held) lockcheck::fail("producer coroutine resumed while the queue lock is held");
    r.resumes++;
    r.done = true;
}

struct Variant { bool coro, pcoro; };

template <bool Checked>
struct World {
    std::unique_ptr<Probe<Checked>> q;
    std::deque<std::unique_ptr<cocls::future<Item>>> futs;     // pop futures, by pop id - 1
    std::deque<Rec> recs;
    std::deque<std::unique_ptr<cocls::future<void>>> pfuts;    // push futures, by push id - 1
    std::deque<Rec> precs;
    std::deque<bool> pimm;                                     // push future was ready when push() returned
    std::deque<std::unique_ptr<cocls::future<void>>> stray;    // futures returned by pushes that should have thrown
    std::map<const void *, int> id_of;    // pop future address -> pop id
    std::map<const void *, int> pid_of;   // push future address -> push id
    struct Ref { int b; char form; int copies; };
    std::map<int, Ref> ref;
    std::string ret = "none";
    std::string move_source;              // a "move" push left its source intact / a failed one consumed it
    int npush = 0, npop = 0, nthrow = 0, limit = 0, shift = 0;
    bool coro = false, pcoro = false;
    int refdiff = 0;

    void note(const Item &x) {
        auto it = ref.find(x.a);
        if (it == ref.end()) return;
        if (it->second.b != x.b || it->second.form != x.form || it->second.copies != x.copies) refdiff = x.a;
    }

    J fut_state(std::size_t i) {
        J m = J::map();
        cocls::future<Item> &f = *futs[i];
        std::string st = "pending";
        int v = 0;
        J item;
        if (f.ready()) {
            try {
                const Item &x = f.value();
                v = x.a;
                item = x.json();
                note(x);
                st = "val";
            } catch (const cocls::await_canceled_exception &) { st = "canceled"; }
            catch (const TestExc &) { st = "exc"; }
            catch (...) { st = "other"; }
        }
        if (coro) {
            // what the awaiting coroutine observed must agree with the future itself
            Rec &r = recs[i];
            if (r.st != st || r.v != v || r.resumes > 1 || (st != "pending") != r.done) {
                st = "mismatch:" + st + "/" + r.st + "/v=" + std::to_string(r.v) + "/resumes=" + std::to_string(r.resumes);
            }
        }
        m.set("st", st);
        m.set("item", item);
        return m;
    }

    // "ready": resolved when push() returned; "done": was pending, completed later
    J pfut_state(std::size_t i) {
        cocls::future<void> &f = *pfuts[i];
        std::string st = "pending";
        std::string raw = "pending";
        if (f.ready()) {
            try {
                f.value();
                raw = "ok";
                st = pimm[i] ? "ready" : "done";
            } catch (const cocls::await_canceled_exception &) { st = raw = "canceled"; }
            catch (const TestExc &) { st = raw = "exc"; }
            catch (...) { st = raw = "other"; }
        } else if (pimm[i]) {
            st = "unready-again";
        }
        if (pcoro) {
            Rec &r = precs[i];
            if (r.st != raw || r.resumes > 1 || (raw != "pending") != r.done) {
                st = "mismatch:" + st + "/" + r.st + "/resumes=" + std::to_string(r.resumes);
            }
        }
        return J(st);
    }

    J project() {
        J m = J::map();
        m.set("destroyed", q == nullptr);
        m.set("limit", limit);
        J items = J::list();
        J waiters = J::list();
        J blocked = J::list();
        std::size_t size = 0;
        refdiff = 0;
        if (q) {
            for (const Item &x : elems(q->_queue)) { items.push(x.json()); note(x); }
            // the parked pop promises: identify each by the future it points to
            for (const cocls::promise<Item> &p : elems(q->_awaiters)) {
                auto it = id_of.find(p.get_id());
                waiters.push(it == id_of.end() ? -1 : it->second);
            }
            // the blocked pushes: item + the push future its promise<void> points to
            for (const auto &e : elems(q->_blocked)) {
                J b = J::map();
                b.set("item", e.first.json());
                note(e.first);
                auto it = pid_of.find(e.second.get_id());
                b.set("push", it == pid_of.end() ? -1 : it->second);
                blocked.push(b);
            }
            size = q->size();                       // the public observers
            if (q->empty() != (size == 0)) m.set("empty_mismatch", true);
            if (q->_limit != (std::size_t) limit) m.set("limit_mismatch", true);
        }
        m.set("items", items);
        m.set("waiters", waiters);
        m.set("blocked", blocked);
        m.set("size", size);
        J fl = J::list();
        for (std::size_t i = 0; i < futs.size(); i++) fl.push(fut_state(i));
        m.set("fut", fl);
        J pl = J::list();
        for (std::size_t i = 0; i < pfuts.size(); i++) pl.push(pfut_state(i));
        m.set("pfut", pl);
        // live instances per pushed value; nothing else may be alive (items of failed pushes, harness sources)
        J live = J::list();
        for (int v = 1; v <= npush; v++) live.push(Item::live[v]);
        for (auto &kv : Item::live) if ((kv.first < 1 || kv.first > npush) && kv.second != 0) m.set("stray_item", kv.first);
        m.set("live", live);
        m.set("npush", npush);
        m.set("npop", npop);
        m.set("nthrow", nthrow);
        J r = J::map();
        r.set("t1", ret);
        m.set("ret", r);
        if (refdiff) m.set("refdiff", refdiff);            // an item differs from a direct T(args...)
        if (!move_source.empty()) m.set("move_source", move_source);
        if (!lockcheck::violation.empty()) m.set("lock_violation", lockcheck::violation);
        return m;
    }

    // push value `a` through API form `form`; `arm`: the next Item constructor to run throws
    cocls::future<void> push_form(const std::string &form, int a, bool arm) {
        if (form == "one") {
            Item::armed = arm;
            return q->push(a);
        } else if (form == "two") {
            Item::armed = arm;
            return q->push(a, a + 50);
        } else if (form == "copy") {
            Item x(a, a + 50);
            Item::armed = arm;
            return q->push(x);
        } else {
            Item x(a);
            struct Check {      // runs after push() returned or threw, before x dies
                World &w; Item &x; int a; bool arm;
                ~Check() {
                    bool threw = std::uncaught_exceptions() > 0;
                    if (!threw && x.a != 0) w.move_source = "left intact by a successful push";
                    if (threw && x.a != a) w.move_source = "consumed by a failed push";
                }
            } chk{*this, x, a, arm};
            Item::armed = arm;
            return q->push(std::move(x));
        }
    }

    // what a direct T(args...) gives for the same form
    void reference(const std::string &form, int a) {
        auto keep = [&](const Item &r) { ref[a] = Ref{r.b, r.form, r.copies}; };
        if (form == "one") { Item r(a); keep(r); }
        else if (form == "two") { Item r(a, a + 50); keep(r); }
        else if (form == "copy") { Item x(a, a + 50); Item r(x); keep(r); }
        else { Item x(a); Item r(std::move(x)); keep(r); }
    }

    void run(const Scenario &sc, Reporter &rep, Variant var) {
        coro = var.coro;
        pcoro = var.pcoro;
        limit = (int) sc.hdr.at("limit").as_int(1);
        shift = (int) sc.hdr.at("shift").as_int(0);
        Item::live.clear();
        Item::armed = false;
        lockcheck::held = 0;
        lockcheck::violation.clear();
        q.reset(new Probe<Checked>((std::size_t) limit));
        for (std::size_t k = 0; k < sc.steps.size(); k++) {
            const Step &st = sc.steps[k];
            ret = "none";
            if (st.name == "PushCS") {
                npush++;
                const std::string form = FORMS[(npush + shift) % 4];
                reference(form, npush);
                pfuts.emplace_back(new cocls::future<void>(push_form(form, npush, false)));
                pid_of[pfuts.back().get()] = npush;
                pimm.push_back(pfuts.back()->ready());
                precs.emplace_back();
                if (pcoro) producer(*pfuts.back(), precs.back()).detach();
            } else if (st.name == "PushThrowCS") {
                // a push whose item cannot be constructed: value 900+k must never show up anywhere
                nthrow++;
                const std::string form = FORMS[(npush + nthrow + shift) % 4];
                try {
                    stray.emplace_back(new cocls::future<void>(push_form(form, 900 + nthrow, true)));
                    ret = std::string("returned:") + (stray.back()->ready() ? "ready" : "pending");
                } catch (const CtorThrow &) {
                    ret = "threw";
                } catch (...) {
                    ret = "other-exception";
                }
                if (Item::armed) { Item::armed = false; ret += "+no-constructor-ran"; }
            } else if (st.name == "PopCS") {
                npop++;
                futs.emplace_back(new cocls::future<Item>(q->pop()));
                id_of[futs.back().get()] = npop;
                recs.emplace_back();
                if (coro) consumer(*futs.back(), recs.back()).detach();
            } else if (st.name == "UnblockPushCS") {
                bool r = q->unblock_push(std::make_exception_ptr(TestExc()));
                ret = r ? "true" : "false";
            } else if (st.name == "UnblockPopCS") {
                bool r = q->unblock_pop(std::make_exception_ptr(TestExc()));
                ret = r ? "true" : "false";
            } else if (st.name == "Destroy") {
                q.reset();
            } else {
                rep.error(k, "unknown action");
                break;
            }
            if (lockcheck::held) lockcheck::fail("lock still held after the call returned");
            if (!rep.check(k, project())) break;
        }
        // tear down: the queue must go before the futures (parked promises point to them)
        q.reset();
        std::size_t last = sc.steps.empty() ? 0 : sc.steps.size() - 1;
        if (!rep.failed()) {
            for (std::size_t i = 0; i < futs.size(); i++) {
                if (!futs[i]->ready()) { rep.diverge(last, "pop future still pending after queue destruction"); break; }
                if (coro && !recs[i].done) { rep.diverge(last, "consumer coroutine never resumed"); break; }
            }
        }
        if (!rep.failed()) {
            for (std::size_t i = 0; i < pfuts.size(); i++) {
                if (!pfuts[i]->ready()) { rep.diverge(last, "push future still pending after queue destruction"); break; }
                if (pcoro && !precs[i].done) { rep.diverge(last, "producer coroutine never resumed"); break; }
            }
        }
        // a pending future must not be destroyed (future.h:175): leak those of a diverged scenario
        for (auto &f : futs) if (f->pending()) f.release();
        for (auto &f : pfuts) if (f->pending()) f.release();
        for (auto &f : stray) if (f->pending()) f.release();
        futs.clear();
        pfuts.clear();
        stray.clear();
        if (!rep.failed()) {
            for (auto &kv : Item::live) {
                if (kv.second != 0) { rep.diverge(last, "item instance leaked or destroyed twice: value " + std::to_string(kv.first) + " live=" + std::to_string(kv.second)); break; }
            }
        }
    }
};

// "variants": ["queue/mode/pmode", ...] -- the scenario is executed once per listed variant
struct VarSpec { std::string queue, mode, pmode; };
static std::vector<VarSpec> variants(const Scenario &sc) {
    std::vector<VarSpec> out;
    for (const JV &e : sc.hdr.at("variants").l) {
        std::istringstream ss(e.as_str("plain/poll/poll"));
        VarSpec v;
        std::getline(ss, v.queue, '/');
        std::getline(ss, v.mode, '/');
        std::getline(ss, v.pmode, '/');
        out.push_back(v);
    }
    if (out.empty()) out.push_back({"plain", "poll", "poll"});
    return out;
}

int main() {
    return replay_main(std::cin, [](const Scenario &sc, Reporter &rep) {
        for (const VarSpec &vs : variants(sc)) {
            if (rep.failed()) return;
            Variant v{vs.mode == "coro", vs.pmode == "coro"};
            if (vs.queue == "checked") { World<true> w; w.run(sc, rep, v); }
            else { World<false> w; w.run(sc, rep, v); }
            if (rep.failed()) printf("#variant %s %s/%s/%s\n", sc.id.c_str(), vs.queue.c_str(), vs.mode.c_str(), vs.pmode.c_str());
        }
    });
}
