// aggregator_exc.h -- the failures of a scripted source generator (shared by aggregator_replay.cpp and
// aggregator_conc_replay.cpp).
//
// A "throw" step of a source's script has a KIND (spec/Aggregator/Aggregator.tla, ThrowSteps / ExcKindOf):
//     step            what leaves the source                         observed kind
//     throw           SrcExc (a user type derived from std::exception)  "user"
//     throw_vnr       cocls::value_not_ready_exception                  "vnr"
//     throw_nomore    cocls::no_more_values_exception                   "nomore"
//     throw_cancel    cocls::await_canceled_exception                   "cancel"
//     throw_nonstd    NonStd (not derived from std::exception)          "nonstd"
// The library's own types are the ones a source relaying other cocls objects fails with; odd sources produce them
// the way such a source does (reading a pending future or a generator past its end, a future whose promise was
// dropped, calling a generator that has ended), even sources throw them directly.
//
// What the consumer of the aggregate gets is identified by the IDENTITY of the exception object
// (std::exception_ptr equality; neither std::rethrow_exception nor std::current_exception copy the object in the
// Itanium ABI, and the library hands exceptions on as exception_ptr only) and by its observed dynamic TYPE.  The
// library signals the end of a sequence with fresh objects of the same types (no_more_values_exception from an
// access after the end, await_canceled_exception from co_await of a dropped future, value_not_ready_exception from
// value() without a value): those never are a source's object.
#pragma once
#include <cocls/exceptions.h>
#include <cocls/future.h>
#include <cocls/generator.h>

#include <exception>
#include <string>

namespace agx {

struct SrcExc : std::exception { int s; explicit SrcExc(int s_) : s(s_) {} };
struct NonStd { int s; };

inline bool is_throw(const std::string &step) { return step.compare(0, 5, "throw") == 0; }

inline cocls::generator<int> empty_generator() { co_return; }

// leaves by the exception of the step's kind (returns only for an unknown step)
inline void raise(const std::string &step, int s) {
    bool natural = (s & 1) != 0;
    if (step == "throw") throw SrcExc(s);
    if (step == "throw_nonstd") throw NonStd{s};
    if (step == "throw_vnr") {
        if (!natural) throw cocls::value_not_ready_exception();
        if ((s & 3) == 3) {
            // the value of a generator that has ended
            cocls::generator<int> inner = empty_generator();
            {
                cocls::future<int> f = inner();      // runs it to its end: resolved without a value
                (void) f.ready();
            }
            (void) inner.value();
        }
        // the value of a future that is still pending (it is resolved before it dies: declared first, destroyed last)
        cocls::future<int> f;
        struct Resolver {
            cocls::promise<int> p;
            ~Resolver() { p(0); }
        } r{f.get_promise()};
        (void) f.value();
    }
    if (step == "throw_cancel") {
        if (!natural) throw cocls::await_canceled_exception();
        // the value of a future whose promise was dropped
        cocls::future<int> f;
        { cocls::promise<int> p = f.get_promise(); }
        (void) f.value();
    }
    if (step == "throw_nomore") {
        if (!natural) throw cocls::no_more_values_exception();
        // one more call of a generator that has ended
        cocls::generator<int> inner = empty_generator();
        {
            cocls::future<int> f = inner();          // runs it to its end: resolved without a value
            (void) f.ready();
        }
        cocls::future<int> g = inner();
        (void) g.ready();
    }
}

// the dynamic type of an exception as the consumer can tell it
inline std::string kind_of(const std::exception_ptr &ep) {
    try { std::rethrow_exception(ep); }
    catch (const SrcExc &) { return "user"; }
    catch (const cocls::value_not_ready_exception &) { return "vnr"; }
    catch (const cocls::no_more_values_exception &) { return "nomore"; }
    catch (const cocls::await_canceled_exception &) { return "cancel"; }
    catch (const NonStd &) { return "nonstd"; }
    catch (const std::exception &) { return "std"; }
    catch (...) { return "unknown"; }
}

// the source whose exception object this is (0: none)
template <typename SrcMap>
int source_of(SrcMap &src, const std::exception_ptr &ep) {
    if (!ep) return 0;
    for (auto &kv : src) if (kv.second.ep && kv.second.ep == ep) return kv.first;
    return 0;
}

}   // namespace agx
