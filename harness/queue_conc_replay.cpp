// queue_conc_replay.cpp -- replays the multi-thread configuration of spec/Queue/Queue.tla
// (critical-section grain) on the real cocls::queue<int> with real client threads under the
// controlled scheduler; the queue's std::mutex is virtual (cocls_verif/pthread_shim.h), so "enter the
// critical section" and "the code after the unlock" (promise resolution) are separately scheduled.
//
// header: {"threads":["t1","t2","t3"]}
// A client thread loops: park at mark("cmd"); execute the command the controller stored for it.
// Spec action X(t): the controller stores the command, moves t from the mark to its lock operation
// (silent), and performs the step.  When the specification says the thread is idle again and the
// implementation is parked after the unlock, the thread is moved on to its next mark (silent).
// projection: like queue_replay.cpp plus "pend" (thread -> idle | resolve)
#include <cocls/queue.h>
#include <cocls/future.h>
#include <cocls_verif/pthread_shim.h>
#include "replay_common.h"

#include <deque>

using namespace rp;
using cocls_verif::vsched;
using cocls_verif::op_t;

struct TestExc : std::exception {};

struct Probe : cocls::queue<int> {
    using cocls::queue<int>::_queue;
    using cocls::queue<int>::_awaiters;
};

struct World {
    std::unique_ptr<Probe> q{new Probe()};
    // pop futures are constructed in place in storage the controller already knows (guaranteed elision), so a
    // future is observable from the moment pop() starts -- also while its thread is parked after the unlock
    struct Slot { alignas(cocls::future<int>) unsigned char mem[sizeof(cocls::future<int>)]; bool live = false; };
    std::deque<std::unique_ptr<Slot>> futs;
    cocls::future<int> *fut(std::size_t i) { return reinterpret_cast<cocls::future<int> *>(futs[i]->mem); }
    std::map<const void *, int> id_of;
    std::vector<std::string> threads;
    std::map<std::string, int> tid;
    std::map<std::string, std::string> cmd, ret;
    std::map<std::string, bool> resolving;   // the thread's last critical section took a parked promise out (to resolve it outside)
    std::map<std::string, int> arg;
    int npush = 0, npop = 0;
    bool stop = false;
    vsched sched;
};

static void client(World &w, const std::string &me) {
    for (;;) {
        vsched::mark("cmd");
        if (w.stop) return;
        const std::string c = w.cmd[me];
        if (c == "push") {
            bool r = w.q->push(w.arg[me]);
            w.ret[me] = r ? "true" : "false";
        } else if (c == "pop") {
            // the future must be reachable by the controller as soon as the critical section is left:
            // it is constructed in place in storage registered beforehand
            int id = w.arg[me];
            w.futs[id - 1]->live = true;
            new (w.futs[id - 1]->mem) cocls::future<int>(w.q->pop());
        } else if (c == "size") {
            // size() and empty() must agree; both are critical sections of their own
            std::size_t n = w.q->size();
            w.ret[me] = "size" + std::to_string(n);
        } else if (c == "unblock") {
            bool r = w.q->unblock_pop(std::make_exception_ptr(TestExc()));
            w.ret[me] = r ? "true" : "false";
        }
        w.cmd[me] = "";
    }
}

static J fut_state(World &w, std::size_t i) {
    J m = J::map();
    std::string st = "pending";
    int v = 0;
    cocls::future<int> *f = w.futs[i]->live ? w.fut(i) : nullptr;
    if (f && f->ready()) {
        try { v = f->value(); st = "val"; }
        catch (const cocls::await_canceled_exception &) { st = "canceled"; }
        catch (const TestExc &) { st = "exc"; }
        catch (...) { st = "other"; }
    }
    m.set("st", st);
    m.set("v", v);
    return m;
}

static std::string pend_of(World &w, const std::string &t) {
    int id = w.tid[t];
    if (w.sched.done(id)) return "done";
    const auto &e = w.sched.pending(id);
    if (e.op == op_t::mark) return "idle";
    if (e.op == op_t::unlock) return "after_unlock";
    if (e.op == op_t::lock) return "at_lock";
    return std::string("?") + cocls_verif::op_name(e.op);
}

int main() {
    return replay_main(std::cin, [](const Scenario &sc, Reporter &rep) {
        World *pw = new World();
        World &w = *pw;
        for (auto &x : sc.hdr.at("threads").l) w.threads.push_back(x.s);
        w.sched.lock_grain = true;
        w.sched.install();
        for (auto &t : w.threads) {
            w.ret[t] = "none";
            std::string name = t;
            w.tid[t] = w.sched.spawn([pw, name] { client(*pw, name); });
        }
        auto proj = [&]() {
            J m = J::map();
            m.set("destroyed", w.q == nullptr);
            J fl = J::list();
            for (std::size_t i = 0; i < w.futs.size(); i++) {
                // a pop whose future object does not exist yet (thread still inside pop()) can only be observed
                // through the promise: parked (pending) -- report pending
                fl.push(fut_state(w, i));
            }
            m.set("fut", fl);
            J items = J::list(), waiters = J::list();
            if (w.q) {
                auto copy = w.q->_queue;
                while (!copy.empty()) { items.push(copy.front()); copy.pop(); }
                std::size_t n = w.q->_awaiters.size();
                for (std::size_t i = 0; i < n; i++) {
                    cocls::promise<int> p = std::move(w.q->_awaiters.front());
                    w.q->_awaiters.pop();
                    auto it = w.id_of.find(p.get_id());
                    waiters.push(it == w.id_of.end() ? -1 : it->second);
                    w.q->_awaiters.push(std::move(p));
                }
            }
            m.set("items", items);
            m.set("waiters", waiters);
            m.set("npush", w.npush);
            m.set("npop", w.npop);
            J r = J::map(), pend = J::map();
            for (auto &t : w.threads) {
                r.set(t, w.ret[t]);
                std::string p = pend_of(w, t);
                // parked after the unlock: "resolve" when a promise taken out of the queue is still to be resolved
                // (push hand-over / unblock), otherwise the call has nothing observable left to do: idle
                pend.set(t, p == "after_unlock" ? (w.resolving[t] ? "resolve" : "idle") : p);
            }
            m.set("ret", r);
            m.set("pend", pend);
            return m;
        };
        auto core = [&]() {
            J full = proj();
            J m = J::map();
            // the projection without the per-thread fields
            JV v = JReader(full.dump()).parse();
            (void) v;
            J items = J::list(), waiters = J::list(), fl = J::list();
            if (w.q) {
                auto copy = w.q->_queue;
                while (!copy.empty()) { items.push(copy.front()); copy.pop(); }
                m.set("nwaiters", (long) w.q->_awaiters.size());
            }
            for (std::size_t i = 0; i < w.futs.size(); i++) fl.push(fut_state(w, i));
            m.set("items", items);
            m.set("fut", fl);
            return m;
        };
        bool bad = false;
        for (std::size_t k = 0; k < sc.steps.size() && !bad; k++) {
            const Step &st = sc.steps[k];
            if (st.name == "Destroy") {
                // every thread is idle (spec precondition): destroy on the controller thread
                w.q.reset();
                if (!rep.check(k, proj())) bad = true;
                continue;
            }
            const std::string &t = st.sarg(0);
            int id = w.tid[t];
            if (st.name == "PushCS" || st.name == "PopCS" || st.name == "UnblockCS" || st.name == "SizeCS") {
                // a thread that finished its critical section stays parked right after the unlock until it is needed
                // again: whatever it still has to do outside the lock is thereby exposed to the other threads
                if (pend_of(w, t) != "idle") { rep.diverge(k, "thread " + t + " is not idle in the implementation: " + pend_of(w, t)); bad = true; break; }
                if (st.name == "PushCS") { w.cmd[t] = "push"; w.arg[t] = ++w.npush; }
                else if (st.name == "PopCS") {
                    w.cmd[t] = "pop"; w.arg[t] = ++w.npop;
                    w.futs.emplace_back(new World::Slot());
                    w.id_of[w.futs.back()->mem] = w.npop;
                }
                else if (st.name == "SizeCS") w.cmd[t] = "size";
                else w.cmd[t] = "unblock";
                w.sched.step(id);                       // from the mark to the lock operation (silent)
                if (pend_of(w, t) != "at_lock") { rep.diverge(k, "thread " + t + " did not reach the queue lock: " + pend_of(w, t)); bad = true; break; }
                std::size_t before = w.q->_awaiters.size();
                w.sched.step(id);                       // the critical section
                w.resolving[t] = st.name != "PopCS" && w.q->_awaiters.size() < before;
                if (st.name == "PopCS") {
                    // the promise created by pop() identifies the future: learn it from the parked promise or
                    // after the call returns
                }
            } else if (st.name == "PushResolve" || st.name == "UnblockResolve") {
                if (pend_of(w, t) != "after_unlock") { rep.diverge(k, "thread " + t + " is not between unlock and resolution: " + pend_of(w, t)); bad = true; break; }
                w.sched.step(id);                       // resolution outside the lock, up to the next mark
                w.resolving[t] = false;
            } else { rep.error(k, "unknown action"); bad = true; break; }
            // The specification says the call is complete when its critical section ends (thread idle): whatever the
            // implementation still does between the unlock and the return must not change the queue's state --
            // otherwise that work is exposed to other threads (a guarded access moved outside the lock).
            {
                JV exp = JReader(st.expected).parse();
                std::string want = exp.at("pend").at(t).as_str();
                if (want == "idle" && pend_of(w, t) == "after_unlock") {
                    std::string before = core().dump();
                    w.sched.step(id);
                    w.resolving[t] = false;
                    std::string after = core().dump();
                    if (before != after) {
                        rep.diverge(k, "queue state changed between the unlock and the return of the call (outside the critical section): before=" + before + " after=" + after);
                        bad = true;
                        break;
                    }
                }
            }
            if (!rep.check(k, proj())) bad = true;
        }
        w.stop = true;
        bool drained = w.sched.drain();
        if (!drained && !bad) rep.diverge(sc.steps.size() - 1, "deadlock at the end of the schedule");
        w.sched.uninstall();
        if (!drained) { fflush(stdout); _exit(1); }
        w.sched.join_all();
        w.q.reset();
        for (std::size_t i = 0; i < w.futs.size(); i++) if (w.futs[i]->live && w.fut(i)->ready()) w.fut(i)->~future();
        delete pw;
    });
}
